"""C17 - lattice addressing, arithmetic and CSV persistence (Lattice3D.py)."""
import copy, json, math, os, struct, tempfile, warnings
from fractions import Fraction
import numpy as np
import common as C
from common import Failure, q, z, coq_list

ID = "C17"
GEN = ["gen_lattice"]
ALLOWED_AXIOMS = []
MODEL_INDEPENDENT_OF_PROOFS = True      # Model/Lattice.v contains no proofs
TRUSTED = [
    "Coq 8.16.1 kernel + vm_compute (no native_compute)",
    "translator tools/py2coq/gen_lattice.py: reads the index guards of __is_valid_index (0 <= i < n on the three axes) and of "
    "__get_value (index < 0 or index >= num_points, ValueError) from the source of this run",
    "hand model coq/Model/Lattice.v (index search, closest-node search, operators, average, rescale, CSV row layout) around "
    "those guards, tied to Lattice3D.py by this run's correspondence (the rest of the class is control flow around numpy "
    "primitives)",
    "numpy primitives as their documented list semantics: searchsorted(side='right') = count of leading entries <= x on an "
    "ascending array, argmin = first minimum, linspace only through the axis arrays read from the object, np.mean = sum/count",
    "scipy.interpolate.interpn is an oracle with the law 'at a node it returns the node value' (sampled at every node of every "
    "generated lattice)",
    "savetxt('%.18e') / loadtxt as an oracle pair with the law parse(fmt d) = d (exercised bit for bit on random doubles incl. "
    "subnormal, huge, -0.0, inf, nan in every run)",
    "float rounding is not modelled: axis values and grid values are the exact rationals the doubles denote",
]
ASSUMPTIONS = [
    "axes are strictly increasing (x_min < x_max, num_points >= 1); reversed extents are outside the theorems and explored by "
    "the search only",
    "aliasing / 'operands are not modified' is vacuous in a functional model: it is checked on the real objects by deep "
    "snapshots and np.shares_memory in every arithmetic case",
    "node counts below 2^53 (they are stored as floats in the CSV row)",
]

ERRS = {"TypeError", "ValueError", "IndexError", "KeyError", "AttributeError", "ZeroDivisionError"}


def errname(e):
    n = type(e).__name__
    return n if n in ERRS else "OtherError"


def fv(x):
    x = float(x)
    if math.isnan(x):
        return "NaN"
    if math.isinf(x):
        return "PInf" if x > 0 else "NInf"
    fr = Fraction(x)
    if fr.numerator.bit_length() > 64 or fr.denominator.bit_length() > 64:
        m, e = fr.numerator, 0                      # x = m * 2^e exactly, m odd: no 300-digit literals
        if fr.denominator > 1:
            e = -(fr.denominator.bit_length() - 1)
        else:
            while m % 2 == 0:
                m //= 2
                e += 1
        return f"(fd {z(m)} {z(e)})"
    return f"(Fin {q(x)})"


def bits(x):
    x = float(x)
    return "nan" if math.isnan(x) else struct.pack(">d", x).hex()


# ----------------------------------------------------------------------------- real code
def mk_lattice(case):
    from sparkx.Lattice3D import Lattice3D
    e, n = case["ext"], case["n"]
    L = Lattice3D(e[0], e[1], e[2], e[3], e[4], e[5], n[0], n[1], n[2])
    fill(L, case.get("fill", "index"))
    return L


def fill(L, how):
    if how == "index":
        for i, j, k in np.ndindex(L.grid_.shape):
            L.grid_[i, j, k] = 100 * i + 10 * j + k + 1
    elif isinstance(how, list):
        L.grid_[...] = np.array(how, dtype=float).reshape(L.grid_.shape)


def call(L, op):
    """one operation on the real object -> [status, payload]"""
    kind, a = op[0], op[1:]
    with warnings.catch_warnings(record=True) as w:
        warnings.simplefilter("always")
        try:
            with np.errstate(all="ignore"):
                if kind == "set_idx":
                    r = L.set_value_by_index(int(a[0]), int(a[1]), int(a[2]), a[3])
                elif kind == "get_idx":
                    r = L.get_value_by_index(int(a[0]), int(a[1]), int(a[2]))
                elif kind == "set":
                    r = L.set_value(a[0], a[1], a[2], a[3])
                elif kind == "get":
                    r = L.get_value(a[0], a[1], a[2])
                elif kind == "set_nn":
                    r = L.set_value_nearest_neighbor(a[0], a[1], a[2], a[3])
                elif kind == "get_nn":
                    r = L.get_value_nearest_neighbor(a[0], a[1], a[2])
                elif kind == "coord":
                    r = [float(v) for v in L.get_coordinates(int(a[0]), int(a[1]), int(a[2]))]
                elif kind == "closest":
                    r = [int(v) for v in L.find_closest_indices(a[0], a[1], a[2])]
                elif kind == "interp":
                    r = float(L.interpolate_value(a[0], a[1], a[2]))
                elif kind == "reset":
                    r = L.reset()
                elif kind == "rescale":
                    r = L.rescale(a[0])
                else:
                    raise RuntimeError("unknown op " + kind)
        except Exception as e:
            return ["err", errname(e)]
        warned = any("outside the lattice range" in str(x.message) for x in w)
    if r is not None and not isinstance(r, list):
        r = float(r)
    return ["warn" if warned else "ok", r]


def axes_of(L):
    return {"x": [float(v) for v in L.x_values_], "y": [float(v) for v in L.y_values_], "z": [float(v) for v in L.z_values_],
            "min": [float(L.x_min_), float(L.y_min_), float(L.z_min_)], "max": [float(L.x_max_), float(L.y_max_), float(L.z_max_)],
            "n": [int(L.num_points_x_), int(L.num_points_y_), int(L.num_points_z_)]}


def run_addr(case):
    L = mk_lattice(case)
    ax = axes_of(L)
    outs = [call(L, op) for op in case["ops"]]
    return {"axes": ax, "outs": outs, "grid": [float(v) for v in L.grid_.flatten()]}


OPS2 = {"add": lambda a, b: a + b, "sub": lambda a, b: a - b, "mul": lambda a, b: a * b, "div": lambda a, b: a / b}


def mk_operand(spec, base):
    from sparkx.Lattice3D import Lattice3D
    if spec is None:
        return 3.5
    e = spec.get("ext", base["ext"])
    n = spec["n"]
    L = Lattice3D(e[0], e[1], e[2], e[3], e[4], e[5], n[0], n[1], n[2])
    fill(L, spec["vals"])
    return L


def run_arith(case):
    """self OP others -> result; also: were the operands left alone, is the result a fresh array"""
    from sparkx.Lattice3D import Lattice3D
    a = mk_operand(case["self"], case["self"])
    others = [mk_operand(s, case["self"]) for s in case["others"]]
    snap = [copy.deepcopy(o.grid_) if isinstance(o, Lattice3D) else None for o in [a] + others]
    op = case["op"]
    res = {"status": "ok"}
    try:
        with np.errstate(all="ignore"):
            if op in OPS2:
                r = OPS2[op](a, others[0])
            elif op == "average":
                r = a.average(*others)
            elif op == "rescale":
                r = None
                a.rescale(case["factor"])
            else:
                raise RuntimeError(op)
    except Exception as e:
        return {"status": "err", "err": errname(e)}
    if op == "rescale":
        res["grid"] = [float(v) for v in a.grid_.flatten()]
        res["axes"] = axes_of(a)
        res["others_unchanged"] = True
        return res
    res["grid"] = [float(v) for v in r.grid_.flatten()]
    res["axes"] = axes_of(r)
    objs = [a] + others
    res["others_unchanged"] = all(np.array_equal(o.grid_, s, equal_nan=True) for o, s in zip(objs, snap) if s is not None)
    res["fresh"] = not any(np.shares_memory(r.grid_, o.grid_) for o in objs if isinstance(o, Lattice3D))
    return res


def run_csv(case):
    """save_to_csv / load_from_csv on the real code; the file is also tokenised here, independently"""
    from sparkx.Lattice3D import Lattice3D
    L = mk_lattice({"ext": case["ext"], "n": case["n"], "fill": case["vals"]})
    fd, path = tempfile.mkstemp(suffix=".csv")
    os.close(fd)
    try:
        L.save_to_csv(path)
        text = open(path).read()
        try:
            M = Lattice3D.load_from_csv(path)
        except Exception as e:
            return {"status": "err", "err": errname(e), "tokens": text.strip().split(",")}
    finally:
        os.remove(path)
    toks = text.strip().split(",")
    return {"status": "ok", "tokens": toks, "row": [float(t) for t in toks],
            "ext": [float(v) for v in (M.x_min_, M.x_max_, M.y_min_, M.y_max_, M.z_min_, M.z_max_)],
            "n": [int(M.num_points_x_), int(M.num_points_y_), int(M.num_points_z_)],
            "ntypes": [type(v).__name__ for v in (M.num_points_x_, M.num_points_y_, M.num_points_z_)],
            "grid": [float(v) for v in M.grid_.flatten()], "shape": list(M.grid_.shape),
            "axes": axes_of(M), "axes0": axes_of(L)}


def run_impl(case):
    return {"addr": run_addr, "arith": run_arith, "csv": run_csv}[case["kind"]](case)


# ----------------------------------------------------------------------------- property oracle (direct, exact)
def F(x):
    return Fraction(float(x))


def finite(x):
    return not (math.isnan(x) or math.isinf(x))


def lower_corner(vs, x):
    """max{i | v_i <= x} for v_0 <= x <= v_last, else None (must be rejected)"""
    if not finite(x) or F(x) < F(vs[0]) or F(x) > F(vs[-1]):
        return None
    return max(i for i, v in enumerate(vs) if F(v) <= F(x))


def nearest(vs, x):
    d = [abs(F(v) - F(x)) for v in vs]
    return d.index(min(d))


def float_tie(vs, x):
    """two nodes whose exact distances to x differ by less than a few ulp: the float comparison may go either way"""
    d = sorted(abs(F(v) - F(x)) for v in vs)
    return len(d) > 1 and d[1] - d[0] <= Fraction(1, 2**48) * (abs(F(x)) + d[1])


def oracle_addr(case):
    from sparkx.Lattice3D import Lattice3D
    L = mk_lattice(case)
    ax = axes_of(L)
    A = [ax["x"], ax["y"], ax["z"]]
    n = ax["n"]
    for a in A:
        if any(F(a[i]) >= F(a[i + 1]) for i in range(len(a) - 1)):
            return None                      # not an increasing axis: outside the property's domain
    shadow = {ijk: float(L.grid_[ijk]) for ijk in np.ndindex(L.grid_.shape)}
    for idx, op in enumerate(case["ops"]):
        kind, a = op[0], op[1:]
        before = L.grid_.copy()
        st, r = call(L, op)
        where = f"op #{idx} {op}"
        expect_write = None
        if kind in ("set_idx", "get_idx", "coord"):
            inside = all(0 <= int(a[d]) < n[d] for d in range(3))
            ijk = tuple(int(v) for v in a[:3])
            if not inside:
                if st == "ok":
                    return f"{where}: index outside [0,n) was accepted silently (returned {r!r}) - out-of-range access must be reported, not wrapped"
            else:
                if st != "ok":
                    return f"{where}: valid index rejected ({st} {r})"
                if kind == "get_idx" and bits(r) != bits(shadow[ijk]):
                    return f"{where}: returned {r!r}, node holds {shadow[ijk]!r}"
                if kind == "coord" and [bits(v) for v in r] != [bits(A[d][ijk[d]]) for d in range(3)]:
                    return f"{where}: returned {r}, node coordinates are {[A[d][ijk[d]] for d in range(3)]}"
                if kind == "set_idx":
                    expect_write = (ijk, float(a[3]))
        elif kind in ("set", "get", "set_nn", "get_nn"):
            if kind in ("set", "get"):
                ijk = [lower_corner(A[d], a[d]) for d in range(3)]
            else:
                ijk = [None if lower_corner(A[d], a[d]) is None else nearest(A[d], a[d]) for d in range(3)]
                if any(v is not None and float_tie(A[d], a[d]) for d, v in enumerate(ijk)):
                    ijk = "tie"
            if ijk != "tie" and any(v is None for v in ijk):
                if st != "err":
                    return (f"{where}: the point is outside the lattice (or not a number) but the call returned {st} {r!r} - "
                            f"out-of-range access must be reported, not mapped to another cell")
            elif ijk != "tie":
                ijk = tuple(ijk)
                if st != "ok":
                    return f"{where}: point inside the lattice rejected ({st} {r})"
                if kind in ("get", "get_nn") and bits(r) != bits(shadow[ijk]):
                    return f"{where}: returned {r!r} but node {ijk} ({'lower corner of the cell' if kind == 'get' else 'closest node'}) holds {shadow[ijk]!r}"
                if kind in ("set", "set_nn"):
                    expect_write = (ijk, float(a[3]))
            else:
                expect_write = "any"
        elif kind == "reset":
            if st != "ok":
                return f"{where}: reset() raised {r}"
            for ijk in shadow:
                shadow[ijk] = 0.0
        elif kind == "rescale":
            if st != "ok":
                return f"{where}: rescale({a[0]}) raised {r}"
            for ijk in shadow:
                shadow[ijk] = float(np.float64(shadow[ijk]) * np.float64(a[0]))
        elif kind == "closest":
            if all(finite(a[d]) and not float_tie(A[d], a[d]) for d in range(3)):
                want = [nearest(A[d], a[d]) for d in range(3)]
                if st == "err" or r != want:
                    return f"{where}: returned {st} {r}, closest node is {want}"
            inrange = all(finite(a[d]) and F(ax['min'][d]) <= F(a[d]) <= F(ax['max'][d]) for d in range(3))
            if not inrange and st == "ok":
                return f"{where}: position outside the lattice range accepted without a warning"
        elif kind == "interp":
            inrange = all(finite(a[d]) and F(ax['min'][d]) <= F(a[d]) <= F(ax['max'][d]) for d in range(3))
            if not inrange:
                if st != "err":
                    return f"{where}: position outside the lattice returned {st} {r!r}"
            else:
                node = [next((i for i, v in enumerate(A[d]) if F(v) == F(a[d])), None) for d in range(3)]
                if all(v is not None for v in node) and (st != "ok" or bits(r) != bits(shadow[tuple(node)])):
                    return f"{where}: at node {node} returned {st} {r!r}, node holds {shadow[tuple(node)]!r}"
        # effect on the grid: exactly the expected write, nothing else
        changed = [ijk for ijk in np.ndindex(L.grid_.shape) if bits(L.grid_[ijk]) != bits(before[ijk])]
        if expect_write == "any":
            for ijk in changed:
                shadow[ijk] = float(L.grid_[ijk])
            continue
        if expect_write is not None:
            shadow[expect_write[0]] = expect_write[1]
        bad = [ijk for ijk in np.ndindex(L.grid_.shape) if bits(L.grid_[ijk]) != bits(shadow[ijk])]
        if bad:
            return f"{where}: node {bad[0]} holds {float(L.grid_[bad[0]])!r}, the last write to it was {shadow[bad[0]]!r}"
    # inverse at every node
    for ijk in np.ndindex(L.grid_.shape):
        xyz = L.get_coordinates(*ijk)
        with warnings.catch_warnings():
            warnings.simplefilter("ignore")
            back = tuple(int(v) for v in L.find_closest_indices(*xyz))
        if back != tuple(ijk):
            return f"find_closest_indices(get_coordinates{tuple(ijk)}) = {back}"
    return None


def oracle_arith(case):
    from sparkx.Lattice3D import Lattice3D
    got = run_arith(case)
    shapes_ok = all(s is not None and s["n"] == case["self"]["n"] for s in case["others"])
    if case["op"] == "rescale":
        want = [float(np.float64(v) * np.float64(case["factor"])) for v in case["self"]["vals"]]
        if got["status"] != "ok" or [bits(v) for v in got["grid"]] != [bits(v) for v in want]:
            return f"rescale({case['factor']}) is not element-wise: {got}"
        return None
    if not shapes_ok:
        if got["status"] != "err":
            return f"{case['op']} with a non-lattice / differently shaped operand was accepted"
        return None
    if got["status"] != "ok":
        return f"{case['op']} on equally shaped lattices raised {got.get('err')}"
    cols = [case["self"]["vals"]] + [s["vals"] for s in case["others"]]
    with np.errstate(all="ignore"):
        if case["op"] == "average":
            want = []
            for vs in zip(*cols):
                acc = np.float64(vs[0])
                for v in vs[1:]:
                    acc = acc + np.float64(v)
                want.append(float(acc / len(vs)))
        else:
            want = [float(OPS2[case["op"]](np.float64(a), np.float64(b))) for a, b in zip(cols[0], cols[1])]
    if [bits(v) for v in got["grid"]] != [bits(v) for v in want]:
        i = next(i for i, (g, w) in enumerate(zip(got["grid"], want)) if bits(g) != bits(w))
        return f"{case['op']} is not element-wise: flat position {i} holds {got['grid'][i]!r}, expected {want[i]!r}"
    if not got["others_unchanged"]:
        return f"{case['op']} modified one of its operands"
    if not got.get("fresh", True):
        return f"{case['op']} returned a lattice whose grid aliases an operand"
    if got["axes"]["n"] != case["self"]["n"] or [bits(v) for v in got["axes"]["min"] + got["axes"]["max"]] != \
            [bits(case["self"]["ext"][i]) for i in (0, 2, 4, 1, 3, 5)]:
        return f"{case['op']}: result has extents/node counts {got['axes']['min']}, {got['axes']['max']}, {got['axes']['n']}"
    return None


def oracle_csv(case):
    got = run_csv(case)
    if got["status"] != "ok":
        return f"load_from_csv(save_to_csv(L)) raised {got['err']}"
    if [bits(v) for v in got["ext"]] != [bits(v) for v in case["ext"]]:
        return f"extents changed by the CSV round trip: {case['ext']} -> {got['ext']}"
    if got["n"] != case["n"] or got["shape"] != case["n"]:
        return f"node counts changed by the CSV round trip: {case['n']} -> {got['n']} (grid shape {got['shape']})"
    for i, (a, b) in enumerate(zip(case["vals"], got["grid"])):
        if bits(a) != bits(b):
            return f"grid value at flat position {i} changed by the CSV round trip: {float(a).hex()} -> {float(b).hex()}"
    if len(got["grid"]) != len(case["vals"]):
        return "grid size changed by the CSV round trip"
    for k in "xyz":
        if [bits(v) for v in got["axes"][k]] != [bits(v) for v in got["axes0"][k]]:
            return f"{k}-axis node coordinates changed by the CSV round trip"
    return None


def oracle(case):
    with warnings.catch_warnings():
        warnings.simplefilter("ignore")
        return {"addr": oracle_addr, "arith": oracle_arith, "csv": oracle_csv}[case["kind"]](case)


# ----------------------------------------------------------------------------- generators
def gen_ext(rng, dyadic):
    e = []
    for _ in range(3):
        if dyadic:
            lo = rng.choice([-8, -4, -2, -1, -0.5, 0, 0.25, 1, 3])
            w = rng.choice([0.5, 1, 2, 4, 8])
        else:
            lo = rng.choice([-7.3, -1.1, -0.1, 0, 0.3, 2.7])
            w = rng.choice([0.1, 0.7, 1, 3.3, 10])
        e += [lo, lo + w]
    return e


def is_dyadic(vs):
    return all(F(v).denominator <= 1024 for v in vs)


def ulp_out(x, up):
    return float(np.nextafter(x, math.inf if up else -math.inf))


def gen_addr(rng, small=False):
    dy = rng.random() < 0.6
    ext = gen_ext(rng, dy)
    n = [rng.choice([2, 3, 5] if dy else [2, 3, 4, 5, 6]) for _ in range(3)]
    if small:
        n = [min(v, 3) for v in n]
    axes = [list(map(float, np.linspace(ext[2 * d], ext[2 * d + 1], n[d]))) for d in range(3)]
    dyad = [is_dyadic(a) for a in axes]

    def pts(d, for_nn):
        a = axes[d]
        out = list(a)                                              # every node = every cell boundary
        for u, v in zip(a, a[1:]):
            m = (u + v) / 2
            if not for_nn or dyad[d]:
                out.append(m)                                      # cell mid-point (an exact tie for the nn search)
            out += [u + (v - u) / 4, u + 3 * (v - u) / 4, ulp_out(v, False), ulp_out(u, True)]
        out += [ulp_out(a[0], False), ulp_out(a[-1], True), a[0] - 1, a[-1] + 0.5, ulp_out(a[-1], False), ulp_out(a[0], True)]
        return out
    special = [float("nan"), float("inf"), float("-inf")]
    ops = []
    val = [1000]
    nresc = [0]

    def nv():
        val[0] += 1
        return float(val[0]) if rng.random() < 0.8 else rng.choice([-2.5, 0.0, 1e300, -1e-300, 0.125])
    nops = 40 if small else 110
    while len(ops) < nops:
        r = rng.random()
        kind = rng.choice(["set", "get", "set_nn", "get_nn", "closest", "set", "get"]) if r < 0.62 else \
            rng.choice(["set_idx", "get_idx", "coord"]) if r < 0.9 else "interp"
        if kind in ("set_idx", "get_idx", "coord"):
            ijk = [rng.choice([-1, n[d], -n[d], n[d] - 1, 0, rng.randrange(n[d]), rng.randrange(n[d]), rng.randrange(n[d]), -2, n[d] + 3])
                   for d in range(3)]
            if rng.random() < 0.6:
                bad = rng.randrange(3)
                ijk = [ijk[d] if d == bad else rng.randrange(n[d]) for d in range(3)]
            op = [kind] + ijk + ([nv()] if kind == "set_idx" else [])
        elif kind == "interp":
            if rng.random() < 0.6:
                xyz = [rng.choice(axes[d]) for d in range(3)]
            else:
                xyz = [rng.choice(axes[d]) for d in range(3)]
                d = rng.randrange(3)
                xyz[d] = rng.choice([axes[d][0] - 1, axes[d][-1] + 1, float("nan"), ulp_out(axes[d][-1], True)])
            op = [kind] + xyz
        else:
            nn = kind in ("set_nn", "get_nn", "closest")
            xyz = [rng.choice(pts(d, nn)) for d in range(3)]
            if rng.random() < 0.12:
                xyz[rng.randrange(3)] = rng.choice(special)
            op = [kind] + xyz + ([nv()] if kind.startswith("set") else [])
        ops.append(op)
        if rng.random() < 0.04 and nresc[0] < 6:
            # rescale in the middle of a history (exact factors), with the same nodes looked at through every accessor before and after
            nresc[0] += 1
            looks = [[rng.choice(axes[d]) for d in range(3)] for _ in range(3)]
            for xyz in looks:
                ops += [["interp"] + xyz, ["get_nn"] + xyz]
            ops.append(["rescale", rng.choice([2.0, 0.5, -1.0, -0.5, 4.0])])
            for xyz in looks:
                ops += [["interp"] + xyz, ["get"] + xyz, ["get_nn"] + xyz]
        if rng.random() < 0.03:
            # reset in the middle of a history, then look at some nodes through every accessor again
            ops.append(["reset"])
            for _ in range(3):
                xyz = [rng.choice(axes[d]) for d in range(3)]
                ops += [["interp"] + xyz, ["get"] + xyz]
    # systematic part: every node by every accessor, x_max corner
    if not small:
        for i in range(n[0]):
            for j in range(n[1]):
                for k in range(n[2]):
                    xyz = [axes[0][i], axes[1][j], axes[2][k]]
                    ops += [["get"] + xyz, ["get_nn"] + xyz, ["closest"] + xyz, ["coord", i, j, k], ["interp"] + xyz]
    return {"kind": "addr", "ext": ext, "n": n, "fill": "index", "ops": ops}


def gen_vals(rng, cnt, zero_ok=True, pow2=False):
    pool = ([1, 2, -1, -2, 0.5, 0.25, 4, 8, -0.5] if pow2 else [1, 2, 3, -1, -2, 0.5, 0.25, 4, 8, -0.5, 1.5]) + ([0] if zero_ok else [])
    return [float(rng.choice(pool)) for _ in range(cnt)]


def gen_arith(rng):
    ext = gen_ext(rng, True)
    n = [rng.choice([1, 2, 3]) for _ in range(3)]
    cnt = n[0] * n[1] * n[2]
    op = rng.choice(["add", "sub", "mul", "div", "div", "average", "average", "rescale"])
    case = {"kind": "arith", "op": op, "self": {"ext": ext, "n": n, "vals": gen_vals(rng, cnt)}, "others": []}
    if op == "rescale":
        case["factor"] = rng.choice([2.0, -0.5, 0.0, 4.0, 1.5])
        return case
    k = 1 if op in OPS2 else rng.choice([0, 1, 2, 3])
    for _ in range(k):
        r = rng.random()
        if r < 0.12:
            case["others"].append(None)
        elif r < 0.3:
            n2 = list(n)
            n2[rng.randrange(3)] += 1
            case["others"].append({"ext": gen_ext(rng, True), "n": n2, "vals": gen_vals(rng, n2[0] * n2[1] * n2[2])})
        else:
            case["others"].append({"ext": gen_ext(rng, True) if rng.random() < 0.3 else ext, "n": list(n),
                                   "vals": gen_vals(rng, cnt, zero_ok=(op != "div" or rng.random() < 0.3), pow2=(op == "div"))})
    return case


def rand_double(rng):
    r = rng.random()
    if r < 0.55:
        return struct.unpack(">d", struct.pack(">Q", rng.getrandbits(64)))[0]        # any bit pattern
    if r < 0.65:
        return struct.unpack(">d", struct.pack(">Q", rng.getrandbits(52) | (rng.getrandbits(1) << 63)))[0]  # subnormal
    if r < 0.75:
        return rng.choice([0.0, -0.0, 5e-324, -5e-324, 1.7976931348623157e308, -1.7976931348623157e308,
                           2.2250738585072014e-308, float("inf"), float("-inf"), 0.1, 1 / 3, 1e22, 1e23, 9007199254740993.0])
    return rng.uniform(-1, 1) * 10 ** rng.randint(-30, 30)


def gen_csv(rng):
    n = [rng.choice([1, 2, 3, 4]) for _ in range(3)]
    ext = []
    for _ in range(3):
        lo = rng.choice([-3.3, -1.0, 0.0, 0.1, 1 / 3, -2.5e-7, 1e5])
        ext += [lo, lo + rng.choice([0.1, 1.0, 2 / 3, 7.7, 1e-3])]
    vals = []
    for _ in range(n[0] * n[1] * n[2]):
        v = rand_double(rng)
        vals.append(0.0 if math.isnan(v) and rng.random() < 0.5 else v)
    return {"kind": "csv", "ext": ext, "n": n, "vals": vals}


# ----------------------------------------------------------------------------- Coq side
PRELUDE = """From Coq Require Import List ZArith QArith Qabs Bool.
From SX Require Import Lib.Py Lib.QCheck Model.Lattice.
Import ListNotations.
Local Open Scope Q_scope.
Definition fd (m e : Z) : fv :=
  Fin (if (0 <=? e)%Z then inject_Z (m * 2 ^ e) else Qmake m (Z.to_pos (2 ^ (- e)))).
Definition fv_eqb (a b : fv) : bool :=
  match a, b with Fin x, Fin y => Qeq_bool x y | PInf, PInf | NInf, NInf | NaN, NaN => true | _, _ => false end.
Definition err_eqb (a b : errcls) : bool :=
  match a, b with TypeError, TypeError | ValueError, ValueError | IndexError, IndexError | KeyError, KeyError
  | AttributeError, AttributeError | ZeroDivisionError, ZeroDivisionError | OtherError, OtherError => true | _, _ => false end.
Inductive status := SOk | SWarn | SErr (e : errcls).
Inductive payload := PNone | PVal (v : fv) | PIdx (i j k : nat) | PXyz (x y z : Q).
Inductive query :=
| QSetIdx (i j k : Z) (v : fv) | QGetIdx (i j k : Z) | QSet (x y z v : fv) | QGet (x y z : fv)
| QSetNN (x y z v : fv) | QGetNN (x y z : fv) | QCoord (i j k : Z) | QClosest (x y z : fv) | QInterp (x y z : fv)
| QRescale (f : fv).
Definition status_eqb a b := match a, b with SOk, SOk | SWarn, SWarn => true | SErr e, SErr f => err_eqb e f | _, _ => false end.
Definition payload_eqb a b :=
  match a, b with
  | PNone, PNone => true | PVal v, PVal w => fv_eqb v w
  | PIdx i j k, PIdx a b c => Nat.eqb i a && Nat.eqb j b && Nat.eqb k c
  | PXyz x y z, PXyz a b c => Qeq_bool x a && Qeq_bool y b && Qeq_bool z c
  | _, _ => false end.
(* scipy's interpn stands behind an oracle; instance used here: the value of the closest node (meets the node law) *)
Definition interp_oracle (L : lattice fv) (p : fv * fv * fv) : fv :=
  let '(x, y, z) := p in
  match indices3 fv find_closest_index L x y z with Ok (i, j, k) => grid L i j k | Err _ => NaN end.
Definition of_w {A} (L : lattice fv) (r : wres A) (f : A -> lattice fv * payload) : lattice fv * status * payload :=
  match r with
  | WOk a => (fst (f a), SOk, snd (f a)) | Warned a => (fst (f a), SWarn, snd (f a)) | WErr e => (L, SErr e, PNone) end.
Definition optp (o : option fv) := match o with Some v => PVal v | None => PNone end.
Definition eval (L : lattice fv) (qq : query) : lattice fv * status * payload :=
  match qq with
  | QSetIdx i j k v => of_w L (set_value_by_index fv L i j k v) (fun l => (l, PNone))
  | QGetIdx i j k => of_w L (get_value_by_index fv L i j k) (fun o => (L, optp o))
  | QSet x y z v => of_w L (set_value fv L x y z v) (fun l => (l, PNone))
  | QGet x y z => of_w L (get_value fv L x y z) (fun o => (L, optp o))
  | QSetNN x y z v => of_w L (set_value_nearest_neighbor fv L x y z v) (fun l => (l, PNone))
  | QGetNN x y z => of_w L (get_value_nearest_neighbor fv L x y z) (fun o => (L, optp o))
  | QCoord i j k => match get_coordinates fv L i j k with Ok (x, y, z) => (L, SOk, PXyz x y z) | Err e => (L, SErr e, PNone) end
  | QClosest x y z => of_w L (find_closest_indices fv L x y z) (fun t => (L, PIdx (fst (fst t)) (snd (fst t)) (snd t)))
  | QInterp x y z => match interpolate_value fv interp_oracle L x y z with Ok v => (L, SOk, PVal v) | Err e => (L, SErr e, PNone) end
  | QRescale f => (rescale fv fv_mul L f, SOk, PNone)
  end.
Inductive qe := QE (qq : query) (s : status) (p : payload).
Fixpoint run_q (L : lattice fv) (qs : list qe) : lattice fv * nat :=
  match qs with
  | [] => (L, 0%nat)
  | QE qq s p :: t =>
    let '(L', s', p') := eval L qq in
    let c := if status_eqb s s' && payload_eqb p p' then 0%nat else 2%nat in
    let '(Lf, c') := run_q L' t in (Lf, Nat.max c c')
  end.
Definition flat (L : lattice fv) : list fv :=
  flatten (npts (ax L), npts (ay L), npts (az L)) (grid L).
Fixpoint eq_lists (a b : list fv) : bool :=
  match a, b with [] , [] => true | x :: s, y :: t => fv_eqb x y && eq_lists s t | _, _ => false end.
Definition mk (mn mx : list Q) (xs ys zs : list Q) (g : nat -> nat -> nat -> fv) : lattice fv :=
  {| ax := {| amin := nth 0 mn 0; amax := nth 0 mx 0; avals := xs |};
     ay := {| amin := nth 1 mn 0; amax := nth 1 mx 0; avals := ys |};
     az := {| amin := nth 2 mn 0; amax := nth 2 mx 0; avals := zs |}; grid := g |}.
Definition gidx : nat -> nat -> nat -> fv := fun i j k => Fin (inject_Z (Z.of_nat (100 * i + 10 * j + k + 1))).
Definition glist (ny nz : nat) (l : list fv) : nat -> nat -> nat -> fv := fun i j k => nth ((i * ny + j) * nz + k) l NaN.
Definition check_addr (L : lattice fv) (qs : list qe) (final : list fv) : nat :=
  let '(Lf, c) := run_q L qs in Nat.max c (if eq_lists (flat Lf) final then 0 else 3)%nat.
(* arithmetic *)
Inductive expect := EGrid (l : list fv) | EErr (e : errcls).
Definition cmp_res (r : result (lattice fv)) (self : lattice fv) (e : expect) : nat :=
  match r, e with
  | Ok l, EGrid g => if eq_lists (flat l) g && Nat.eqb (npts (ax l)) (npts (ax self)) then 0 else 2
  | Err a, EErr b => if err_eqb a b then 0 else 2
  | _, _ => 2
  end%nat.
(* np.mean over 3 lattices divides by 3: not exact in binary, compared within 1e-12 *)
Definition fv_close (a b : fv) : nat :=
  match a, b with
  | Fin x, Fin y => if Qeq_bool x y then 0%nat else if Qle_bool (Qabs (x - y)) ((1 # 1000000000000) * (Qabs x + Qabs y)) then 1%nat else 2%nat
  | _, _ => if fv_eqb a b then 0%nat else 2%nat
  end.
Fixpoint close_lists (a b : list fv) : nat :=
  match a, b with [], [] => 0%nat | x :: s, y :: t => Nat.max (fv_close x y) (close_lists s t) | _, _ => 3%nat end.
Definition cmp_res_tol (r : result (lattice fv)) (self : lattice fv) (e : expect) : nat :=
  match r, e with
  | Ok l, EGrid g => Nat.max (close_lists (flat l) g) (if Nat.eqb (npts (ax l)) (npts (ax self)) then 0 else 2)
  | Err a, EErr b => if err_eqb a b then 0 else 2
  | _, _ => 2
  end%nat.
(* csv: tok := fv, fmt := parse := identity; the row is what the harness read from the file the real code wrote *)
Definition idf (d : fv) := d.
Definition check_csv (s : pstate) (row : list fv) (ext' : list fv) (n' : nat * nat * nat) (grid' : list fv) : nat :=
  Nat.max (if eq_lists (save fv idf s) row then 0 else 2)%nat
    (match load fv idf row with
     | Ok s' => if eq_lists (ext s') ext' && (let '(a, b, c) := cnt s' in let '(d, e, f) := n' in Nat.eqb a d && Nat.eqb b e && Nat.eqb c f)
                   && eq_lists (flatten (cnt s') (pgrid s')) grid' then 0 else 3
     | Err _ => 4 end)%nat.
"""


class Intern:
    """every distinct float literal of a cases file is parsed once (number parsing dominates coqc's time)"""
    def __init__(self):
        self.names = {}

    def fv(self, x):
        t = fv(x)
        if t in ("NaN", "PInf", "NInf"):
            return t
        if t not in self.names:
            self.names[t] = f"c{len(self.names)}"
        return self.names[t]

    def defs(self):
        return "".join(f"Definition {n} : fv := {t}.\n" for t, n in self.names.items())


def coq_lat(ax, grid_term):
    return (f"(mk {coq_list([q(v) for v in ax['min']])} {coq_list([q(v) for v in ax['max']])} "
            f"{coq_list([q(v) for v in ax['x']])} {coq_list([q(v) for v in ax['y']])} {coq_list([q(v) for v in ax['z']])} {grid_term})")


def coq_status(out, fv=fv):
    st, r = out
    if st == "err":
        return f"(SErr {r})", "PNone"
    s = "SOk" if st == "ok" else "SWarn"
    if r is None:
        return s, "PNone"
    if isinstance(r, list) and all(isinstance(v, int) for v in r):
        return s, f"(PIdx {r[0]} {r[1]} {r[2]})"
    if isinstance(r, list):
        return s, f"(PXyz {q(r[0])} {q(r[1])} {q(r[2])})"
    return s, f"(PVal {fv(r)})"


def coq_query(op, fv=fv):
    kind, a = op[0], op[1:]
    if kind == "set_idx":
        return f"(QSetIdx {z(a[0])} {z(a[1])} {z(a[2])} {fv(a[3])})"
    if kind in ("get_idx", "coord"):
        return f"({'QGetIdx' if kind == 'get_idx' else 'QCoord'} {z(a[0])} {z(a[1])} {z(a[2])})"
    if kind == "rescale":
        return f"(QRescale {fv(a[0])})"
    name = {"set": "QSet", "get": "QGet", "set_nn": "QSetNN", "get_nn": "QGetNN", "closest": "QClosest", "interp": "QInterp"}[kind]
    return f"({name} " + " ".join(fv(v) for v in a) + ")"


def skip_in_model(op, ax):
    """nearest-node queries whose float distances tie within rounding are left to the oracle (rounding is not modelled)"""
    kind, a = op[0], op[1:]
    if kind in ("set_nn", "get_nn", "closest", "interp"):
        A = [ax["x"], ax["y"], ax["z"]]
        for d in range(3):
            if finite(a[d]):
                dd = sorted(abs(F(v) - F(a[d])) for v in A[d])
                if len(dd) > 1 and dd[0] != dd[1] and dd[1] - dd[0] <= Fraction(1, 2**48) * (abs(F(a[d])) + dd[1]):
                    return True
    return False


def coq_case(case, got, intern=None):
    k = case["kind"]
    fv = intern.fv if intern else globals()["fv"]
    if k == "addr":
        ax = got["axes"]
        items = []
        f = fv
        for op, out in zip(case["ops"], got["outs"]):
            s, p = coq_status(out, f)
            if op[0] == "reset":
                # for the model a reset is a write of 0 to every node (a failing reset shows as a rejected write)
                nn = ax["n"]
                for i in range(nn[0]):
                    for j in range(nn[1]):
                        for k in range(nn[2]):
                            items.append(f"(QE {coq_query(['set_idx', i, j, k, 0.0], f)} {s} {p})")
                continue
            items.append(f"(QE {coq_query(op, f)} {s} {p})")
        return f"(check_addr {coq_lat(ax, 'gidx')} {coq_list(items)} {coq_list([f(v) for v in got['grid']])})"
    if k == "arith":
        n = case["self"]["n"]

        def lat(spec):
            e, nn = spec.get("ext", case["self"]["ext"]), spec["n"]
            ax = {"min": [e[0], e[2], e[4]], "max": [e[1], e[3], e[5]],
                  "x": list(map(float, np.linspace(e[0], e[1], nn[0]))), "y": list(map(float, np.linspace(e[2], e[3], nn[1]))),
                  "z": list(map(float, np.linspace(e[4], e[5], nn[2])))}
            return coq_lat(ax, f"(glist {nn[1]} {nn[2]} {coq_list([fv(v) for v in spec['vals']])})")
        self_t = lat(case["self"])
        others = [("ONotLattice" if s is None else f"(OLat {lat(s)})") for s in case["others"]]
        exp = f"(EErr {got['err']})" if got["status"] == "err" else f"(EGrid {coq_list([fv(v) for v in got['grid']])})"
        op = case["op"]
        if op in OPS2:
            f = {"add": "fv_add", "sub": "fv_sub", "mul": "fv_mul", "div": "fv_div"}[op]
            term = f"(operate fv {f} {self_t} {others[0]})"
        elif op == "average":
            term = f"(average fv fv_sum fv_divn {self_t} {coq_list(others)})"
        else:
            term = f"(Ok (rescale fv fv_mul {self_t} {fv(case['factor'])}))"
        return f"({'cmp_res_tol' if op == 'average' else 'cmp_res'} {term} {self_t} {exp})"
    if k == "csv":
        n = case["n"]
        s = (f"{{| ext := {coq_list([fv(v) for v in case['ext']])}; cnt := ({n[0]}, {n[1]}, {n[2]})%nat; "
             f"pgrid := glist {n[1]} {n[2]} {coq_list([fv(v) for v in case['vals']])} |}}")
        if got["status"] != "ok":
            return "4%nat"
        return (f"(check_csv {s} {coq_list([fv(v) for v in got['row']])} {coq_list([fv(v) for v in got['ext']])} "
                f"({got['n'][0]}, {got['n'][1]}, {got['n'][2]})%nat {coq_list([fv(v) for v in got['grid']])})")
    raise RuntimeError(k)


def fmt_law_stream(rng, count):
    """the oracle law of the CSV theorem on the real formatter/parser: parse(fmt d) = d, bit for bit"""
    vals = [rand_double(rng) for _ in range(count)]
    fd, path = tempfile.mkstemp(suffix=".csv")
    os.close(fd)
    try:
        np.savetxt(path, np.array(vals).reshape(1, -1), delimiter=",")
        back = np.loadtxt(path, delimiter=",").reshape(-1)
    finally:
        os.remove(path)
    bad = [v for v, b in zip(vals, back) if bits(v) != bits(b)]
    return len(vals), bad


def correspondence(ctx, model_ok=True):
    quick = ctx.quick
    n_addr, n_arith, n_csv = (24, 60, 40) if quick else (400, 1500, 1000)
    cases = []
    corpus = os.path.join(C.VERIF, "corpus", ID)
    if os.path.isdir(corpus):
        for fn in sorted(os.listdir(corpus)):
            cases.append(json.load(open(os.path.join(corpus, fn)))["case"])
    cases.append(FIXED_NAN)
    cases += [gen_addr(ctx.rng) for _ in range(n_addr)]
    cases += [gen_arith(ctx.rng) for _ in range(n_arith)]
    cases += [gen_csv(ctx.rng) for _ in range(n_csv)]
    failures, gots = [], []
    with warnings.catch_warnings():
        warnings.simplefilter("ignore")
        for c in cases:
            gots.append(run_impl(c))
    # rounding-sensitive nearest-node queries are removed from the model comparison (kept for the oracle)
    mcases = []
    skipped = 0
    for c, g in zip(cases, gots):
        if c["kind"] == "addr":
            keep = [i for i, op in enumerate(c["ops"]) if not skip_in_model(op, g["axes"])]
            if len(keep) != len(c["ops"]) and any(c["ops"][i][0] in ("set_nn",) for i in range(len(c["ops"])) if i not in keep):
                # a skipped write would desynchronise the grids: re-run the case without it
                c2 = dict(c, ops=[c["ops"][i] for i in keep])
                with warnings.catch_warnings():
                    warnings.simplefilter("ignore")
                    g2 = run_addr(c2)
                mcases.append((c2, g2))
            else:
                mcases.append((dict(c, ops=[c["ops"][i] for i in keep]), dict(g, outs=[g["outs"][i] for i in keep])))
            skipped += len(c["ops"]) - len(keep)
        else:
            mcases.append((c, g))
    nq = sum(len(c["ops"]) for c in cases if c["kind"] == "addr")
    dist = {"addr_cases": sum(c["kind"] == "addr" for c in cases), "addr_operations": nq,
            "arith_cases": sum(c["kind"] == "arith" for c in cases), "csv_cases": sum(c["kind"] == "csv" for c in cases),
            "op_kinds": {}, "statuses": {}, "arith_ops": {}, "nn_queries_left_to_oracle_for_rounding": skipped}
    for c, g in zip(cases, gots):
        if c["kind"] == "addr":
            for op, o in zip(c["ops"], g["outs"]):
                dist["op_kinds"][op[0]] = dist["op_kinds"].get(op[0], 0) + 1
                key = o[0] + (":" + o[1] if o[0] == "err" else "")
                dist["statuses"][key] = dist["statuses"].get(key, 0) + 1
        elif c["kind"] == "arith":
            key = c["op"] + ":" + g["status"]
            dist["arith_ops"][key] = dist["arith_ops"].get(key, 0) + 1
    keys = {json.dumps(c, sort_keys=True) for c in cases}
    law_n, law_bad = fmt_law_stream(ctx.rng, 2000 if quick else 40000)
    dist["fmt_law_doubles"] = law_n
    out = {"evaluations": len(cases), "distinct_nontrivial": len(keys), "distribution": dist,
           "rule": "seeded random cases of three kinds: (addr) a lattice with 2-6 nodes per axis, dyadic or decimal extents of any "
                   "sign, and a history of ~110 random operations (set/get by coordinate, nearest neighbour, by index, "
                   "get_coordinates, find_closest_indices, interpolate_value) over all nodes, cell mid-points and quarter points, one "
                   "ulp inside/outside every node and both range ends, far outside, NaN, +-inf, indices -1, n, -n, plus every node "
                   "through every accessor; after each operation the returned value / warning / exception class and at the end the "
                   "whole grid are compared with Model/Lattice.v run by vm_compute; (arith) + - * / average rescale on 1-3^3 "
                   "lattices incl. wrong shapes, non-lattice operands and zero divisors, result grid bit-compared, operands "
                   "snapshotted; (csv) random doubles (any bit pattern, subnormal, huge, -0.0, inf, nan) saved and loaded by the "
                   "real code, the written row and the loaded object compared with the model's save/load. Every case is "
                   "non-trivial (>= 40 operations or >= 1 grid); distinct by canonical JSON.",
           "samples": [dict(c, ops=c["ops"][:6]) if c["kind"] == "addr" else c
                       for c in [next(c for c in cases[1:] if c["kind"] == k) for k in ("addr", "arith", "csv")]],
           "model_runner": "Eval vm_compute in generated cases files (sharded coqc)", "failures": [], "broken": []}
    out["all_cases"] = cases          # the driver runs the property oracle on these as well
    if law_bad:
        out["failures"].append(Failure({"kind": "csv", "ext": [0.0, 1.0, 0.0, 1.0, 0.0, 1.0], "n": [1, 1, 1], "vals": [law_bad[0]]},
                                       f"oracle law parse(fmt d) = d fails for {law_bad[0].hex()} ({len(law_bad)} of {law_n} doubles)"))
    # operand snapshots (the part a functional model cannot express)
    for c, g in zip(cases, gots):
        if c["kind"] == "arith" and g["status"] == "ok" and (not g["others_unchanged"] or not g.get("fresh", True)):
            out["failures"].append(Failure(c, "an operator modified or aliased one of its operands"))
    if not model_ok:
        out["broken"].append({"what": "correspondence not run: the model did not build"})
        return out
    ok, log = C.make(["Model/Lattice.vo", "Lib/QCheck.vo"])
    if not ok:
        out["broken"].append({"what": "model Model/Lattice.v does not build", "detail": log[-800:]})
        return out
    files, owners = [], []
    shard = {"addr": 4, "arith": 60, "csv": 40}
    for kind in ("addr", "arith", "csv"):
        sel = [(i, c, g) for i, (c, g) in enumerate(mcases) if c["kind"] == kind]
        for s in range(0, len(sel), shard[kind]):
            part = sel[s:s + shard[kind]]
            it = Intern()
            body = coq_list([coq_case(c, g, it) for _, c, g in part])
            files.append((f"c17_{kind}_{s // shard[kind]}", PRELUDE + it.defs() + f"Eval vm_compute in {body}.\n"))
            owners.append([i for i, _, _ in part])
    res = C.coq_eval_many(ctx, files)
    codes = {}
    for (ok, o), (name, _), own in zip(res, files, owners):
        if not ok:
            out["broken"].append({"what": f"cases file {name} failed to evaluate", "detail": o[-800:]})
            return out
        cs = C.parse_codes(o)
        if len(cs) != len(own):
            out["broken"].append({"what": f"cases output of {name} could not be parsed", "detail": o[-300:]})
            return out
        for i, c in zip(own, cs):
            codes[i] = c
    out["exact_agreements"] = sum(1 for c in codes.values() if c == 0)
    out["tolerance_agreements"] = sum(1 for c in codes.values() if c == 1)
    out["traces_validated_against_impl"] = out["exact_agreements"] + out["tolerance_agreements"]
    for i, code in sorted(codes.items()):
        if code >= 2:
            c = cases[i]
            if c["kind"] == "addr" and len(out["failures"]) < 2:
                c = first_bad_prefix(ctx, c)
            elif len(out["failures"]) >= 6:
                break
            key = None
            msg = oracle(c)
            if msg and "(or not a number)" in msg and "nan" in msg.split(":")[0]:
                key = "C17-nan-coordinate"              # one finding class, reported once
            out["failures"].append(Failure(c, f"model and implementation disagree (code {code}) on a {c['kind']} case",
                                           key=key, on_impl=msg))
    return out


def first_bad_prefix(ctx, case):
    """shortest prefix of the operation history on which model and implementation still disagree (bisect on coqc)"""
    lo, hi = 1, len(case["ops"])

    def bad(k):
        c = dict(case, ops=case["ops"][:k])
        with warnings.catch_warnings():
            warnings.simplefilter("ignore")
            g = run_addr(c)
        keep = [i for i, op in enumerate(c["ops"]) if not skip_in_model(op, g["axes"])]
        c2 = dict(c, ops=[c["ops"][i] for i in keep])
        with warnings.catch_warnings():
            warnings.simplefilter("ignore")
            g2 = run_addr(c2)
        it = Intern()
        term = coq_case(c2, g2, it)
        ok, o = C.coq_eval(ctx, f"c17_bis_{k}", PRELUDE + it.defs() + f"Eval vm_compute in [{term}].\n")
        cs = C.parse_codes(o) if ok else [9]
        return bool(cs) and cs[0] >= 2
    if not bad(hi):
        return case
    while lo < hi:
        mid = (lo + hi) // 2
        if bad(mid):
            hi = mid
        else:
            lo = mid + 1
    ops = case["ops"][:lo]
    # drop earlier operations that are not needed for the last one to misbehave
    last = ops[-1]
    alone = dict(case, ops=[last])
    if oracle(alone):
        return alone
    return dict(case, ops=ops)


FIXED_NAN = {"kind": "addr", "ext": [0.0, 4.0, 0.0, 2.0, -1.0, 1.0], "n": [5, 3, 3], "fill": "index",
             "ops": [["get", float("nan"), 0.0, 0.0], ["get_nn", 1.0, float("nan"), 0.0], ["set", 1.0, 1.0, float("nan"), 5.0],
                     ["get", 4.0, 2.0, 1.0], ["get_idx", -1, 0, 0], ["get_idx", 4, 2, 2]]}


# ----------------------------------------------------------------------------- search
def search(ctx):
    found, n = [], 0
    budget = 60 if ctx.quick else 600
    for i in range(budget):
        r = i % 3
        c = gen_addr(ctx.rng, small=True) if r == 0 else gen_arith(ctx.rng) if r == 1 else gen_csv(ctx.rng)
        n += 1
        msg = oracle(c)
        if msg:
            c = shrink(c)
            found.append(Failure(c, "property oracle fails on the implementation", on_impl=oracle(c)))
            break
    return found, n


def shrink(case):
    if case["kind"] == "addr":
        ops = case["ops"]
        for op in ops:                                   # a single operation that fails on its own
            c = dict(case, ops=[op])
            if oracle(c):
                return c
        k = len(ops)
        while k > 1 and oracle(dict(case, ops=ops[:k - 1])):
            k -= 1
        return dict(case, ops=ops[:k])
    if case["kind"] == "csv":
        for v in case["vals"]:
            c = dict(case, n=[1, 1, 1], vals=[v])
            if oracle(c):
                return c
    return case


LEVEL_TEXT = ("Theorems (Coq, any node counts, any strictly increasing axes, any grid content, any history): find_closest "
              "inverts get_coordinates at every node and returns the first node of minimal distance; __get_index returns "
              "Ok i exactly when v_i <= x < v_(i+1) (x <= v_last) and ValueError outside and for NaN/inf - never another "
              "cell; set_value then get_value anywhere in the same cell returns the value and no other node changes; "
              "nearest-neighbour access addresses the closest node; by-index access outside [0,n) incl. negative indices "
              "warns and touches nothing; operators, average, rescale are point-wise with TypeError/ValueError for wrong "
              "operands; after any sequence of set operations each node holds the last value written to it; "
              "load(save L) = L for extents, counts and every grid value from the round-trip law of the number format.")
LEVEL_NOTE = ("Trusted: Coq kernel/vm_compute; translator gen_lattice (two index guards); the hand model Model/Lattice.v validated "
              "against the real code by the correspondence of every run only; numpy searchsorted/argmin/linspace/mean as list "
              "semantics; scipy interpn and savetxt/loadtxt as oracles with one law each (sampled every run); exact "
              "rationals instead of IEEE rounding (nearest-node queries that tie within rounding are compared by the oracle "
              "only); aliasing by snapshots.")
TECHNIQUE = ("Coq proofs by induction over axis lists / operation histories (order lemmas on strictly increasing lists, "
             "first-argmin invariant, fold lemma for last-write-wins, flat_map index arithmetic for the CSV row); "
             "vm_compute correspondence of the hand model on operation histories, operators and CSV rows")

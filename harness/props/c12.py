"""C12 - flow estimates depend only on relative azimuthal geometry (reaction plane, event plane, scalar product,
Q-cumulants; selector / default tables of all six estimators)."""
import cmath, copy, json, math, os
from fractions import Fraction
import numpy as np
import common as C
from common import Failure, q, coq_list

ID = "C12"
GEN = ["gen_flowtables", "gen_qcumulant", "gen_flowest"]
MODEL_INDEPENDENT_OF_PROOFS = True
ALLOWED_AXIOMS = C.STD_REAL_AXIOMS
TRUSTED = [
    "Coq 8.16.1 kernel + vm_compute (no native_compute)",
    "translator tools/py2coq/gen_flowest.py (fail-closed; Python ast -> Gallina): whole method bodies of ReactionPlaneFlow "
    "(integrated_flow, __differential_flow_calculation, the binning loop body of differential_flow), ScalarProductFlow and "
    "EventPlaneFlow (__compute_particle_weights, __compute_flow_vectors, __sum_weights, __compute_event_angles_sub_events, "
    "__compute_u_vectors, __compute_event_plane_resolution, __compute_flow_particles, __calculate_reference, "
    "__calculate_particle_flow, __calculate_flow_event_average, integrated_flow, the binning loop body and the per-bin tail of "
    "differential_flow) as folds over lists; its semantics of the fragment is trusted: `for i in range(len(X))` with `Y[i]` "
    "= parallel traversal (IndexError for a shorter Y not represented), a / b = a * (1/b), exact arithmetic, numpy sum/mean "
    "as sums, np.exp(1j n phi) = the particle's unit vector, the two arctan2/cos compositions = the oracles cosAB / obs",
    "hand models coq/Model/FlowRP.v, FlowSP.v, FlowEP.v: now PROVED equal to the regenerated method bodies on every finite "
    "result (C12_source_*); what remains hand-written and tied by correspondence only: which results are non-finite "
    "(None: sqrt of a negative number, division by zero, NaN resolution), the loop over the bins (the models are per bin), the "
    "pairing of flow and reference events, the Bessel-function inversion of the event-plane resolution (root finder on "
    "[0, 20], fallback `return Rn`: compared textually by the translator, an oracle in the model), the event-plane angle "
    "outputs (3rd/4th return value, not modelled)",
    "executable instance Model/FlowQ.v: its leaf functions (weight name -> expression, NaN -> 1, sub-event tests, selector "
    "dispatch and lo <= v < hi) are proved equal to the regenerated ones (C12_source_q_*); its Q arithmetic with Qred, the "
    "18-digit sqrt and the closed forms of the arctan2 cosines are tied by this run's correspondence",
    "translator tools/py2coq/gen_flowtables.py (tables extractor: selector validation lists, dispatched selector strings, "
    "constructor accepted lists / defaults, dispatched weight strings of the six estimators)",
    "Q-cumulant part: Gen/GenQCumulant.v + C11 (see C11)",
    "oracles: 1/x, sqrt, abs, float comparisons; for the event plane the two arctan2 uses (cos n(phi-Psi), cos n(Psi_A-Psi_B)) "
    "with the invariance that follows from arctan2's defining property (C12_ep_arg_R, C12_ep_closed_rot) and the "
    "resolution function as a function of its argument only (Bessel functions + brentq are not modelled)",
    "float rounding is not modelled (exact identities over any commutative ring; instances R, Z, Q)",
]
ASSUMPTIONS = [
    "a particle is (u, d) with u = exp(i n phi); a rotation by alpha multiplies u by the unit exp(i n alpha) and leaves pT, "
    "rapidity, pseudorapidity and weight unchanged",
    "flow and reference samples are paired event by event (same number of events)",
    "reaction plane: the weighted-mean and reordering theorems assume positive particle weights (the running "
    "`number_particles != 0` test of the code is otherwise order dependent); rotation covariance needs no assumption",
    "event plane rotation invariance assumes that no vector whose arctan2 is taken vanishes (both sub-events non-empty, "
    "corrected reference vector non-zero): numpy's arctan2(0,0)=0 is not rotation covariant; the returned event-plane "
    "angle (3rd/4th return value) is not covered",
    "Q-cumulant errors and differential Q-cumulants are covered by the metamorphic runs on the real code only",
    "theorems instantiated at R depend on the stdlib real-number axioms only",
    "C12_source_*: the regenerated functions use exact arithmetic and have no non-finite values; the theorems state that "
    "every finite value / error returned by the hand model is the one the regenerated method bodies compute (for the "
    "reaction plane: full equality, None exactly when the total weight is zero); a mutation that only changes which inputs "
    "give NaN/inf is seen by the correspondence, not by these theorems",
]

SELECTORS = ["pT", "rapidity", "pseudorapidity"]
WEIGHTS = ["pT", "pT2", "pTn"]


# --------------------------------------------------------------------------------------------- particles
def zpoint(p, qq):
    d = qq * qq + p * p
    return Fraction(qq * qq - p * p, d), Fraction(2 * p * qq, d)


def mk_particle(s, n, alpha=0.0):
    from sparkx.Particle import Particle
    a, b = zpoint(s["p"], s["q"])
    theta = math.atan2(float(b), float(a))
    phi = (theta + 2.0 * math.pi * s["j"]) / n + alpha
    pt = float(s["pt"])
    P = Particle()
    P.px = pt * math.cos(phi)
    P.py = pt * math.sin(phi)
    P.pz = pt * math.sinh(float(s["eta"]))
    P.E = math.sqrt(pt * pt + P.pz * P.pz + 0.0196)
    P.pdg = 211
    if s["w"] is not None:
        P.weight = float(s["w"])
    return P


def mk_events(evs, n, alphas=None):
    return [[mk_particle(s, n, 0.0 if alphas is None else alphas[i]) for s in ev] for i, ev in enumerate(evs)]


def estimator(case):
    from sparkx.flow.ReactionPlaneFlow import ReactionPlaneFlow
    from sparkx.flow.ScalarProductFlow import ScalarProductFlow
    from sparkx.flow.EventPlaneFlow import EventPlaneFlow
    if case["est"] == "RP":
        return ReactionPlaneFlow(n=case["n"])
    cls = ScalarProductFlow if case["est"] == "SP" else EventPlaneFlow
    if case.get("default_ctor"):
        return cls()
    return cls(n=case["n"], weight=case["weight"], pseudorapidity_gap=case["gap"])


def call(case, flow, ref, obj=None):
    """the observable of the real estimator for given Particle lists -> nested python floats / ('err', cls)"""
    with np.errstate(all="ignore"):
        try:
            if obj is None:
                obj = estimator(case)
            if case["est"] == "RP":
                if case["mode"] == "int":
                    r = complex(obj.integrated_flow(flow))
                    return [r.real, r.imag]
                return [[complex(x).real, complex(x).imag] for x in obj.differential_flow(flow, list(case["bins"]), case["sel"])]
            if case["mode"] == "int":
                r = obj.integrated_flow(flow, ref, case["self_corr"])
                return [float(r[0]), float(r[1])]
            r = obj.differential_flow(flow, list(case["bins"]), case["sel"], ref, case["self_corr"])
            return [[float(x[0]), float(x[1])] for x in r]
        except (ValueError, TypeError, IndexError, ZeroDivisionError, UnboundLocalError) as e:
            return ("err", type(e).__name__)


def run_impl(case):
    n = case["n"]
    flow = mk_events(case["flow"], n)
    ref = mk_events(case["ref"], n) if case["est"] != "RP" else None
    out = {"res": call(case, flow, ref)}
    if case["est"] == "EP" and not isinstance(out["res"], tuple):
        with np.errstate(all="ignore"):
            obj = estimator(case)
            w = obj._EventPlaneFlow__compute_particle_weights(ref)
            pa, pb = obj._EventPlaneFlow__compute_event_angles_sub_events(ref, w)
            out["rn2"] = float(np.mean([math.cos(n * (a - b)) for a, b in zip(pa, pb)])) if pa else float("nan")
            import warnings
            with warnings.catch_warnings():
                warnings.simplefilter("ignore")
                out["resolution"] = float(obj._EventPlaneFlow__compute_event_plane_resolution(pa, pb))
    return out


# --------------------------------------------------------------------------------------------- property oracle
def same(a, b, tol=1e-9):
    if isinstance(a, tuple) or isinstance(b, tuple):
        return a == b
    if isinstance(a, list):
        return isinstance(b, list) and len(a) == len(b) and all(same(x, y, tol) for x, y in zip(a, b))
    if math.isnan(a) or math.isnan(b):
        return math.isnan(a) and math.isnan(b)
    if math.isinf(a) or math.isinf(b):
        return a == b
    return abs(a - b) <= tol * (1.0 + abs(a) + abs(b))


def errs_same(a, b):
    """statistical errors are square roots of differences: compare loosely; the square root of a difference that vanishes up to
    rounding is 0, a tiny number or nan (negative radicand of rounding size) - these are the same error"""
    if isinstance(a, list) and isinstance(b, list) and len(a) == len(b):
        return all(errs_same(x, y) for x, y in zip(a, b))
    if isinstance(a, float) and isinstance(b, float) and (math.isnan(a) != math.isnan(b)):
        other = b if math.isnan(a) else a
        return abs(other) <= 1e-6
    return same(a, b, 1e-6)


def all_finite(v):
    if isinstance(v, list):
        return all(all_finite(x) for x in v)
    return isinstance(v, float) and math.isfinite(v)


def ill_conditioned(case):
    """the resolution is the square root of an average that vanishes in exact arithmetic (e.g. sub-event planes at
    exactly 90 degrees): the float result is rounding noise divided by rounding noise; such inputs are not judged"""
    if case["est"] == "RP":
        return False
    n = case["n"]
    ref = mk_events(case["ref"], n)
    if not ref:
        return False
    wname = case["weight"]

    def wt(P):
        return {"pT": P.pT_abs(), "pT2": P.pT_abs() ** 2, "pTn": P.pT_abs() ** n, "rapidity": P.rapidity(),
                "pseudorapidity": P.pseudorapidity()}[wname]
    tot, scale = 0.0, 0.0
    for ev in ref:
        qa = sum(wt(P) * cmath.exp(1j * n * P.phi()) for P in ev if P.pseudorapidity() >= case["gap"])
        qb = sum(wt(P) * cmath.exp(1j * n * P.phi()) for P in ev if P.pseudorapidity() < -case["gap"])
        if case["est"] == "EP":
            qa = qa / abs(qa) if abs(qa) > 0 else 0.0
            qb = qb / abs(qb) if abs(qb) > 0 else 0.0
        tot += (complex(qa).conjugate() * qb).real
        if case["est"] == "EP":
            scale += 1.0
        else:
            scale += sum(abs(wt(P)) for P in ev if P.pseudorapidity() >= case["gap"]) * \
                sum(abs(wt(P)) for P in ev if P.pseudorapidity() < -case["gap"])
    return abs(tot) <= 1e-7 * (scale + 1e-300)


KEY_EP_EMPTY = "C12_ep_empty_subevent"


def empty_subevent(case):
    if case["est"] != "EP":
        return False
    return any(not any(s["eta"] >= case["gap"] for s in ev) or not any(s["eta"] < -case["gap"] for s in ev)
               for ev in case["ref"])


def degenerate(case):
    """event-plane inputs excluded by the theorem's hypothesis: a vector whose arctan2 is taken vanishes (empty
    sub-event, exact cancellation, or the self-correlation correction removing the whole reference vector)"""
    if case["est"] != "EP":
        return False
    n = case["n"]
    wname = case["weight"]
    flow, ref = mk_events(case["flow"], n), mk_events(case["ref"], n)

    def wt(P):
        return {"pT": P.pT_abs(), "pT2": P.pT_abs() ** 2, "pTn": P.pT_abs() ** n, "rapidity": P.rapidity(),
                "pseudorapidity": P.pseudorapidity()}[wname]
    for fe, re_ in zip(flow, ref):
        scale = sum(abs(wt(P)) for P in re_) + 1e-300
        qa = sum(wt(P) * cmath.exp(1j * n * P.phi()) for P in re_ if P.pseudorapidity() >= case["gap"])
        qb = sum(wt(P) * cmath.exp(1j * n * P.phi()) for P in re_ if P.pseudorapidity() < -case["gap"])
        qf = sum(wt(P) * cmath.exp(1j * n * P.phi()) for P in re_)
        if abs(qa) <= 1e-9 * scale or abs(qb) <= 1e-9 * scale:
            return True
        for P in fe:
            qp = qf - abs(wt(P)) * cmath.exp(1j * n * P.phi()) if case["self_corr"] else qf
            if abs(qp) <= 1e-9 * scale:
                return True
    return False


def rotate_result(case, r, alpha):
    """expected result after a common rotation by alpha"""
    if case["est"] != "RP" or isinstance(r, tuple):
        return r
    f = cmath.exp(1j * case["n"] * alpha)
    if case["mode"] == "int":
        z = complex(r[0], r[1]) * f
        return [z.real, z.imag]
    return [[(complex(x[0], x[1]) * f).real, (complex(x[0], x[1]) * f).imag] for x in r]


def split(case, r):
    """(values, errors) of an SP/EP result"""
    if isinstance(r, tuple) or case["est"] == "RP":
        return r, None
    if case["mode"] == "int":
        return [r[0]], [r[1]]
    return [x[0] for x in r], [x[1] for x in r]


def oracle(case):
    """metamorphic property oracle on the real code: rotation, reordering, one all-containing bin, weighted mean,
    documented defaults and selectors"""
    if "probe" in case:
        msgs = probe_others()
        return msgs[0] if msgs else None
    n = case["n"]
    nev = len(case["flow"])
    base = run_impl(case)["res"]
    # documented arguments must be accepted
    if isinstance(base, tuple):
        documented = (case["mode"] == "int" or case["sel"] in SELECTORS) and \
                     (case["est"] == "RP" or case.get("default_ctor") or case["weight"] in WEIGHTS + ["rapidity", "pseudorapidity"])
        if documented and not (case["est"] == "RP" and base[1] == "ZeroDivisionError"):
            what = "the default constructor" if case.get("default_ctor") else f"weight={case.get('weight')!r} selector={case.get('sel')!r}"
            return f"{case['est']} with {what}: documented arguments raise {base[1]}"
        return None
    rng = __import__("random").Random(json.dumps(case, sort_keys=True))
    if not all_finite(split(case, base)[0]):
        return None          # a non-finite flow value (vanishing resolution / weight sum): no value to be invariant
    # 1. rotation: every event by its own angle (reaction plane: one common angle)
    alphas = [rng.uniform(0.0, 2.0 * math.pi) for _ in range(nev)]
    if case["est"] == "RP":
        alphas = [alphas[0] if alphas else 0.0] * nev
    rot = call(case, mk_events(case["flow"], n, alphas), mk_events(case["ref"], n, alphas) if case["est"] != "RP" else None)
    v0, e0 = split(case, rotate_result(case, base, alphas[0] if alphas else 0.0))
    v1, e1 = split(case, rot)
    if empty_subevent(case) and not (same(v0, v1) and (e0 is None or errs_same(e0, e1))):
        return (f"EP {case['mode']}: an event has an empty sub-event (its sub-event plane angle is arctan2(0,0) = 0) and "
                f"rotating the events changes the result: {base} -> {rot} [finding key {KEY_EP_EMPTY}]")
    if not degenerate(case) and not ill_conditioned(case) and not (same(v0, v1) and (e0 is None or errs_same(e0, e1))):
        return (f"{case['est']} {case['mode']}: rotating every event by an arbitrary angle changes the result: "
                f"{base} -> {rot} (angles {alphas})")
    # 2. reordering particles within events and events
    perm = list(range(nev))
    rng.shuffle(perm)
    fl = [case["flow"][i][:] for i in perm]
    rf = [case["ref"][i][:] for i in perm] if case["est"] != "RP" else None
    for ev in fl + (rf or []):
        rng.shuffle(ev)
    pr = call(case, mk_events(fl, n), mk_events(rf, n) if rf is not None else None)
    v2, e2 = split(case, pr)
    vb, eb = split(case, base)
    if not degenerate(case) and not ill_conditioned(case) and not (same(vb, v2) and (eb is None or errs_same(eb, e2))):
        return (f"{case['est']} {case['mode']}: reordering particles within events and events changes the result: "
                f"{base} -> {pr}")
    # 3. reaction plane: weighted mean of exp(i n phi)
    if case["est"] == "RP" and case["mode"] == "int":
        num, den = 0j, 0.0
        for ev in mk_events(case["flow"], n):
            for P in ev:
                w = 1.0 if math.isnan(P.weight) else P.weight
                num += w * cmath.exp(1j * n * P.phi())
                den += w
        if den != 0 and not same(base, [(num / den).real, (num / den).imag]):
            return f"RP integrated flow {base} is not the weighted mean of exp(i n phi) = {num/den}"
    # 4. one bin that contains every particle = integrated
    if case["mode"] == "int":
        wide = dict(case, mode="diff", sel="pT", bins=[0.0, 1000.0])
        d = call(wide, mk_events(case["flow"], n), mk_events(case["ref"], n) if case["est"] != "RP" else None)
        if isinstance(d, tuple) or not same([base] if True else None, d if case["est"] == "RP" else [d[0]], 1e-6):
            return f"{case['est']}: differential flow over one all-containing bin {d} differs from the integrated flow {base}"
    # 5. history independence: ONE estimator object and the SAME list objects, evaluated again after the particles were
    #    rotated in place and after particles/events were reordered in place (nothing may be remembered between calls)
    if not degenerate(case) and not ill_conditioned(case):
        try:
            obj = estimator(case)
        except Exception:
            obj = None
        if obj is not None:
            fo = mk_events(case["flow"], n)
            ro = mk_events(case["ref"], n) if case["est"] != "RP" else None
            first = call(case, fo, ro, obj)
            vf, ef = split(case, first)
            if not (same(vb, vf) and (eb is None or errs_same(eb, ef))):
                return f"{case['est']} {case['mode']}: the same input evaluated twice gives {base} and {first}"
            for evs in ([fo] if ro is None else [fo, ro]):
                for ev, a in zip(evs, alphas):
                    ca, sa = math.cos(a), math.sin(a)
                    for P in ev:
                        x, y = P.px, P.py
                        P.px, P.py = x * ca - y * sa, x * sa + y * ca
            second = call(case, fo, ro, obj)
            vs, es = split(case, second)
            if not (same(v1, vs) and (e1 is None or errs_same(e1, es))):
                return (f"{case['est']} {case['mode']}: one estimator object given the same list objects again after the particles were "
                        f"rotated in place returns {second}; a fresh evaluation of the rotated sample gives {rot}")
            can_perm = len(fo) == nev and (ro is None or len(ro) == nev)
            for evs in ([fo] if ro is None else [fo, ro]):
                if can_perm:
                    evs[:] = [evs[i] for i in perm]
                for ev in evs:
                    ev.reverse()
            third = call(case, fo, ro, obj)
            vt, et = split(case, third)
            if not (same(v1, vt) and (e1 is None or errs_same(e1, et))):
                return (f"{case['est']} {case['mode']}: one estimator object given the same list objects again after they were "
                        f"reordered in place returns {third}; expected {rot}")
    return None


# --------------------------------------------------------------------------------------------- case generation
def gen_particle(rng, weighted):
    while True:
        p, qq = rng.randint(-5, 5), rng.randint(0, 5)
        if p or qq:
            break
    return {"p": p, "q": qq, "j": rng.randint(0, 3), "pt": rng.choice([0.25, 0.5, 0.75, 1.25, 1.5, 2.25]),
            "eta": rng.choice([-1.25, -0.75, -0.25, 0.0, 0.25, 0.75, 1.25]),   # 0.0: exactly on the gap-0 boundary
            "w": rng.choice([0.5, 1.0, 2.0, 1.5]) if weighted and rng.random() < 0.7 else None}


def gen_event(rng, weighted, m, gap=None):
    ev = [gen_particle(rng, weighted) for _ in range(m)]
    if gap is not None:                      # both sub-events populated, at least three reference particles
        while len(ev) < 3:
            ev.append(gen_particle(rng, weighted))
        if not any(s["eta"] >= gap for s in ev):
            ev[0]["eta"] = 1.25
        if not any(s["eta"] < -gap for s in ev):
            ev[1]["eta"] = -1.25
    return ev


def gen_case(rng, small=False, errors=True):
    est = rng.choice(["RP", "SP", "SP", "EP", "EP"])
    n = rng.choice([1, 2, 2, 3, 4])
    mode = rng.choice(["int", "diff"])
    weighted = rng.random() < 0.6
    nev = rng.choice([1, 2, 2, 3]) if small else rng.choice([1, 2, 3, 4])
    gap = rng.choice([0.0, 0.0, 0.5, 1.0])
    case = {"est": est, "n": n, "mode": mode}
    top = 4 if small else 6
    if est == "RP":
        case["flow"] = [gen_event(rng, weighted, rng.randint(0, top)) for _ in range(nev)]
        if errors and rng.random() < 0.03:
            case["flow"] = [[] for _ in range(nev)]
        case["ref"] = []
    else:
        case["weight"] = rng.choice(WEIGHTS + (["rapidity", "pseudorapidity"] if rng.random() < 0.15 else []))
        case["gap"] = gap
        case["self_corr"] = rng.random() < 0.6
        case["ref"] = [gen_event(rng, weighted, rng.randint(3, top + 1), gap) for _ in range(nev)]
        if rng.random() < 0.5:
            case["flow"] = copy.deepcopy(case["ref"])
        else:
            case["flow"] = [gen_event(rng, weighted, rng.randint(0, top)) for _ in range(nev)]
        if errors and rng.random() < 0.04:
            case["default_ctor"] = True
            case["weight"], case["gap"], case["n"] = "pT2", 0.0, 2
    if mode == "diff":
        sel = rng.choice(SELECTORS)
        if errors and rng.random() < 0.05:
            sel = rng.choice(["pt", "eta"])
        case["sel"] = sel
        if sel == "pT" or sel not in SELECTORS:
            case["bins"] = rng.choice([[0.0, 1.0], [0.0, 1.0, 3.0], [0.4, 0.6, 1.4], [0.0, 3.0]])
        else:
            case["bins"] = rng.choice([[-2.0, 0.0], [-2.0, 0.0, 2.0], [-0.5, 0.5, 1.0], [-3.0, 3.0]])
    return case


def nontrivial(c):
    return sum(len(e) for e in c["flow"]) >= 2


# --------------------------------------------------------------------------------------------- Coq side
PRELUDE = """From Coq Require Import String ZArith QArith Qabs Bool List.
From SX Require Import Lib.KRing Lib.Cpx Lib.QCheck Model.QCumulant Model.FlowRP Model.FlowSP Model.FlowEP Model.FlowQ.
Import ListNotations.
Local Open Scope Q_scope.
Inductive fres := FErr | FNan | FVal (v : Q) | FSkip.
Definition near (tol m i : Q) : bool := Qle_bool (Qabs (m - i)) (tol * (1 + Qabs m + Qabs i)).
Definition cmpo (tol : Q) (m : option Q) (i : fres) : nat :=
  match m, i with
  | _, FSkip => 0 | None, FNan => 0 | Some a, FVal b => if Qeq_bool a b then 0 else if near tol a b then 1 else 2 | _, _ => 2
  end%nat.
(* errors are square roots of small differences: a NaN on one side is tolerated when the other side is ~ 0 *)
Definition cmpe (m : option Q) (i : fres) : nat :=
  match m, i with
  | _, FSkip => 0 | None, FNan => 0 | Some a, FVal b => if near (1 # 1000000) a b then 1 else 2
  | None, FVal b => if Qle_bool (Qabs b) (1 # 1000000) then 1 else 2
  | Some a, FNan => if Qle_bool (Qabs a) (1 # 1000000) then 1 else 2
  | _, _ => 2
  end%nat.
Definition tol : Q := 1 # 1000000000.
Definition P (z1 z2 pt eta y : Q) (w : option Q) : fpart := ((z1, z2), Build_fdata pt eta y w).
Definition cmp_c (m : cpx Q) (r i : fres) : nat := Nat.max (cmpo tol (Some (re m)) r) (cmpo tol (Some (im m)) i).
Definition chk_rp_int (evs : list (list fpart)) (err : bool) (r i : fres) : nat :=
  match q_rp_integrated evs with
  | None => if err then 0 else 2
  | Some z => if err then 2 else cmp_c z r i
  end%nat.
Definition chk_rp_diff (evs : list (list fpart)) (sel : string) (bins : list (Q * Q * fres * fres)) : nat :=
  worst (map (fun b => cmp_c (q_rp_diff sel (fst (fst (fst b))) (snd (fst (fst b))) evs) (snd (fst b)) (snd b)) bins).
Definition cmp_ve (m : option Q * option Q) (v e : fres) : nat := Nat.max (cmpo tol (fst m) v) (cmpe (snd m) e).
Definition chk_sp_int (w : string) (n : nat) (gap : Q) (sc : bool) (evs : list (event Q fdata)) (v e : fres) : nat :=
  cmp_ve (q_sp_integrated w n gap sc evs) v e.
Definition chk_sp_diff (w : string) (n : nat) (gap : Q) (sc : bool) (evs : list (event Q fdata)) (sel : string)
                       (bins : list (Q * Q * fres * fres)) : nat :=
  worst (map (fun b => cmp_ve (q_sp_diff w n gap sel (fst (fst (fst b))) (snd (fst (fst b))) sc evs) (snd (fst b)) (snd b)) bins).
(* event plane: the model's mean of cos n(Psi_A - Psi_B) against the real one, then the flow with the real resolution *)
Definition chk_ep_int (w : string) (n : nat) (gap : Q) (sc : bool) (evs : list (event Q fdata)) (rn2 : fres) (res : Q) (v e : fres) : nat :=
  Nat.max (cmpo tol (Some (q_rn2 w n gap evs)) rn2) (cmp_ve (q_ep_integrated w n gap res sc evs) v e).
Definition chk_ep_diff (w : string) (n : nat) (gap : Q) (sc : bool) (evs : list (event Q fdata)) (rn2 : fres) (res : Q) (sel : string)
                       (bins : list (Q * Q * fres * fres)) : nat :=
  Nat.max (cmpo tol (Some (q_rn2 w n gap evs)) rn2)
    (worst (map (fun b => cmp_ve (q_ep_diff w n gap res sel (fst (fst (fst b))) (snd (fst (fst b))) sc evs) (snd (fst b)) (snd b)) bins)).
"""


def fres(x):
    if x is None:
        return "FSkip"
    if math.isnan(x) or math.isinf(x):
        return "FNan"
    return f"(FVal {q(x)})"


def coq_parts(specs, n):
    out = []
    for s in specs:
        Pr = mk_particle(s, n)
        a, b = zpoint(s["p"], s["q"])
        w = "None" if s["w"] is None else f"(Some {q(float(s['w']))})"
        out.append(f"P {q(a)} {q(b)} {q(Pr.pT_abs())} {q(Pr.pseudorapidity())} {q(Pr.rapidity())} {w}")
    return coq_list(out)


def coq_case(case, got):
    n = case["n"]
    r = got["res"]
    if isinstance(r, tuple):
        return None                                     # argument errors are judged by the oracle / tables, not the model
    if case["est"] == "RP":
        evs = coq_list([coq_parts(ev, n) for ev in case["flow"]])
        if case["mode"] == "int":
            return f"(chk_rp_int {evs} false {fres(r[0])} {fres(r[1])})"
        bins = coq_list([f"({q(lo)}, {q(hi)}, {fres(x[0])}, {fres(x[1])})"
                         for lo, hi, x in zip(case["bins"][:-1], case["bins"][1:], r)])
        return f"(chk_rp_diff {evs} {C.coq_str(case['sel'])} {bins})"
    if ill_conditioned(case):
        return None                                     # resolution = sqrt(rounding noise): not compared
    evs = coq_list([f"({coq_parts(f, n)}, {coq_parts(rf, n)})" for f, rf in zip(case["flow"], case["ref"])])
    head = f"{C.coq_str(case['weight'])} {n} {q(case['gap'])} {C.coq_bool(case['self_corr'])} {evs}"
    extra = ""
    if case["est"] == "EP":
        if degenerate(case):
            return None                                 # a vector under arctan2 vanishes: its float direction is rounding noise
        res = got["resolution"]
        if math.isnan(res) or math.isinf(res):
            return None                                 # no sub-event correlation: every value is NaN; not compared
        extra = f" {fres(got['rn2'])} {q(res)}"
    nm = "sp" if case["est"] == "SP" else "ep"
    if case["mode"] == "int":
        return f"(chk_{nm}_int {head}{extra} {fres(r[0])} {fres(r[1])})"
    bins = coq_list([f"({q(lo)}, {q(hi)}, {fres(x[0])}, {fres(x[1])})"
                     for lo, hi, x in zip(case["bins"][:-1], case["bins"][1:], r)])
    return f"(chk_{nm}_diff {head}{extra} {C.coq_str(case['sel'])} {bins})"


def failure_class(case, msg):
    if KEY_EP_EMPTY in msg:
        return "EP empty sub-event"
    if "documented arguments" in msg:
        return "documented arguments rejected"
    if "reordering" in msg:
        return f"{case['est']} {case['mode']} reordering"
    if "rotating" in msg:
        return f"{case['est']} {case['mode']} rotation"
    return f"{case['est']} other"


def probe_cases():
    """documented defaults and selectors of the modelled estimators"""
    ev = [{"p": p, "q": qq, "j": 0, "pt": pt, "eta": eta, "w": None}
          for p, qq, pt, eta in ((0, 1, 0.5, 0.25), (1, 1, 0.75, -0.25), (1, 2, 1.5, 0.75), (-1, 3, 0.25, -1.25))]
    out = []
    for est in ("SP", "EP"):
        out.append({"est": est, "n": 2, "mode": "int", "weight": "pT2", "gap": 0.0, "self_corr": True, "default_ctor": True,
                    "flow": [ev, ev[:3] + [ev[3]]], "ref": [ev, ev]})
        for sel in SELECTORS:
            out.append({"est": est, "n": 2, "mode": "diff", "weight": "pT", "gap": 0.0, "self_corr": True,
                        "flow": [ev, ev], "ref": [ev, ev], "sel": sel, "bins": [-3.0, 3.0]})
    for sel in SELECTORS:
        out.append({"est": "RP", "n": 2, "mode": "diff", "flow": [ev, ev], "ref": [], "sel": sel, "bins": [-3.0, 3.0]})
    return out


def probe_others():
    """LeeYangZero / PCA / QCumulant accept the documented selectors (values are not modelled here)"""
    from sparkx.flow.LeeYangZeroFlow import LeeYangZeroFlow
    from sparkx.flow.PCAFlow import PCAFlow
    from sparkx.flow.QCumulantFlow import QCumulantFlow
    rng = __import__("random").Random(5)
    evs = [[gen_particle(rng, False) for _ in range(12)] for _ in range(8)]
    msgs = []
    for name, mk, args in (("LeeYangZeroFlow", lambda: LeeYangZeroFlow(vmin=0.01, vmax=0.5, vstep=0.05, n=2), ()),
                           ("PCAFlow", lambda: PCAFlow(n=2, alpha=2, number_subcalc=4), ()),
                           ("QCumulantFlow", lambda: QCumulantFlow(), ())):
        for sel in SELECTORS:
            try:
                with np.errstate(all="ignore"):
                    import warnings
                    with warnings.catch_warnings():
                        warnings.simplefilter("ignore")
                        mk().differential_flow(mk_events(evs, 2), [-3.0, 0.5, 3.0], sel)
            except ValueError as e:
                if "flow_as_function_of" in str(e):
                    msgs.append(f"{name}.differential_flow rejects the documented selector {sel!r}: {e}")
            except Exception:
                pass                                   # numerical failures of these estimators are not C12's subject
    return msgs


def correspondence(ctx, model_ok=True):
    n = 260 if ctx.quick else 2600
    cases = []
    corpus = os.path.join(C.VERIF, "corpus", ID)
    if os.path.isdir(corpus):
        for fn in sorted(os.listdir(corpus)):
            cases.append(json.load(open(os.path.join(corpus, fn)))["case"])
    while len(cases) < n:
        cases.append(gen_case(ctx.rng))
    gots = [run_impl(c) for c in cases]
    dist = {"estimator": {}, "mode": {}, "n": {}, "weight": {}, "self_corr": 0, "particle_weights_set": 0,
            "flow_is_reference": 0, "error_cases": 0, "not_compared_degenerate_or_nan_resolution": 0}
    keys = set()
    for c, g in zip(cases, gots):
        for key, v in (("estimator", c["est"]), ("mode", c["mode"]), ("n", c["n"]), ("weight", c.get("weight"))):
            dist[key][str(v)] = dist[key].get(str(v), 0) + 1
        dist["self_corr"] += bool(c.get("self_corr"))
        dist["particle_weights_set"] += any(s["w"] is not None for e in c["flow"] for s in e)
        dist["flow_is_reference"] += c["est"] != "RP" and c["flow"] == c["ref"]
        dist["error_cases"] += isinstance(g["res"], tuple)
        if nontrivial(c) and not isinstance(g["res"], tuple):
            keys.add(json.dumps(c, sort_keys=True))
    out = {"evaluations": len(cases), "distinct_nontrivial": len(keys), "distribution": dist,
           "rule": "seeded random samples for ReactionPlaneFlow, ScalarProductFlow, EventPlaneFlow (integrated and differential, "
                   "n = 1..4, weights pT/pT2/pTn and occasionally rapidity/pseudorapidity, gaps 0/0.5/1, self_corr on/off, "
                   "particle weights set/unset, flow sample equal to or different from the reference sample, 1-4 events of "
                   "0-7 particles on rational points of the unit circle); non-trivial = accepted arguments and >= 2 flow "
                   "particles; distinct by canonical JSON.  Model = Model/Flow*.v at exact Q (vm_compute; sqrt to 18 digits; "
                   "event-plane resolution value taken from the real private method, its argument checked against the "
                   "model), compared with the real return values within 1e-9 (errors 1e-6).  Plus documented-argument "
                   "probes for all six estimators and metamorphic runs (rotate / permute / one wide bin) on the real code "
                   "for every 4th case",
           "samples": cases[:3], "model_runner": "Eval vm_compute in generated cases files (sharded coqc)",
           "failures": [], "broken": []}
    out["all_cases"] = cases          # the driver runs the property oracle on these as well
    per_class = {}

    def add(case, msg, detail):
        cl = failure_class(case, msg)
        if cl in per_class:
            return
        per_class[cl] = 1
        case = shrink(case, cl)
        out["failures"].append(Failure(case, f"{cl}: {detail}", on_impl=oracle(case),
                                       key=KEY_EP_EMPTY if cl == "EP empty sub-event" else None))

    # documented-argument probes and metamorphic runs on the real code
    for pc in probe_cases():
        msg = oracle(pc)
        if msg:
            add(pc, msg, "documented-argument probe")
    for m in probe_others():
        if "documented selectors (other estimators)" not in per_class:
            per_class["documented selectors (other estimators)"] = 1
            out["failures"].append(Failure({"probe": "other estimators", "detail": m}, "documented selectors (other estimators)", on_impl=m))
    meta = 0
    for c in cases[::4]:
        meta += 1
        msg = oracle(c)
        if msg:
            add(c, msg, "metamorphic run on the real code")
    out["metamorphic_runs"] = meta
    if not model_ok:
        out["broken"].append({"what": "correspondence not run: the model's proofs/definitions did not build"})
        return out
    ok, log = C.make(["Model/FlowQ.vo", "Lib/QCheck.vo"])
    if not ok:
        out["broken"].append({"what": "models Model/Flow*.v do not build", "detail": log[-800:]})
        return out
    terms, idx = [], []
    for i, (c, g) in enumerate(zip(cases, gots)):
        t = coq_case(c, g)
        if t is None:
            if not isinstance(g["res"], tuple):
                dist["not_compared_degenerate_or_nan_resolution"] += 1
            continue
        terms.append(t)
        idx.append(i)
    shard = 50
    files = []
    for i in range(0, len(terms), shard):
        files.append((f"c12_{i//shard}", PRELUDE + f"Eval vm_compute in {coq_list(terms[i:i + shard])}.\n"))
    res = C.coq_eval_many(ctx, files)
    codes = []
    for (ok, o), (name, _) in zip(res, files):
        if not ok:
            out["broken"].append({"what": f"cases file {name} failed to evaluate", "detail": o[-800:]})
            return out
        codes += C.parse_codes(o)
    if len(codes) != len(terms):
        out["broken"].append({"what": "cases output could not be parsed", "detail": f"{len(codes)} codes for {len(terms)} cases"})
        return out
    out["exact_agreements"] = sum(1 for c in codes if c == 0)
    out["tolerance_agreements"] = sum(1 for c in codes if c == 1)
    out["traces_validated_against_impl"] = sum(1 for c in codes if c <= 1)
    nmodel = 0
    for i, code in zip(idx, codes):
        if code >= 2:
            c, g = cases[i], gots[i]
            msg = oracle(c)
            if msg:
                add(c, msg, f"model and implementation disagree (code {code}): impl={g}")
            elif nmodel < 5:
                nmodel += 1
                out["failures"].append(Failure(c, f"model/implementation: disagree (code {code}): impl={g}"))
    return out


# --------------------------------------------------------------------------------------------- search
def source_probe_cases():
    """targeted inputs for the parts that gen_flowest.py regenerates from the source (used by the search when the translator
    aborts or a C12_source_* theorem no longer checks): every weight name, every selector with several bins, pseudorapidity
    exactly 0 (on the boundary of gap 0; other boundary values are not stable under a float rotation and would make the
    metamorphic oracle ill-conditioned), particle weights set / unset (NaN -> 1), self_corr on / off, harmonics 1..4, a flow
    sample different from the reference sample, events without flow particles"""
    def part(p, qq, j, pt, eta, w):
        return {"p": p, "q": qq, "j": j, "pt": pt, "eta": eta, "w": w}
    ref1 = [part(1, 2, 0, 0.5, 0.75, None), part(-2, 1, 1, 1.25, -0.75, 2.0), part(3, 1, 0, 0.75, 1.25, 0.5),
            part(1, 3, 2, 1.5, -1.25, None), part(2, 3, 0, 0.25, 0.0, 1.5)]
    ref2 = [part(-1, 4, 1, 2.25, 0.75, 1.0), part(2, 1, 0, 0.5, -0.75, None), part(1, 1, 3, 1.25, 0.25, 2.0),
            part(-3, 2, 0, 0.75, -0.25, None)]
    flow1 = [part(2, 5, 0, 0.5, 0.25, 2.0), part(-1, 2, 1, 1.5, -0.25, None), part(4, 1, 0, 0.75, 0.75, 0.5)]
    flow2 = [part(1, 5, 2, 1.25, 1.25, None), part(-2, 3, 0, 0.25, -1.25, 1.5)]
    out = []
    for est in ("SP", "EP"):
        for wname in WEIGHTS + ["rapidity", "pseudorapidity"]:
            for gap in (0.0, 0.5):
                for sc in (True, False):
                    base = {"est": est, "n": 2 if wname != "pTn" else 3, "weight": wname, "gap": gap, "self_corr": sc}
                    out.append(dict(base, mode="int", flow=[flow1, flow2], ref=[ref1, ref2]))
                    out.append(dict(base, mode="int", flow=[ref1, ref2], ref=[ref1, ref2]))
        for nn in (1, 2, 3, 4):
            out.append({"est": est, "n": nn, "weight": "pT", "gap": 0.0, "self_corr": True, "mode": "int",
                        "flow": [flow1, [], flow2], "ref": [ref1, ref2, ref1]})
        for sel, bins in (("pT", [0.0, 0.6, 1.0, 1.4]), ("pT", [0.4, 2.5]), ("pseudorapidity", [-1.5, -0.5, 0.1, 0.5, 1.5]),
                          ("rapidity", [-2.0, -0.1, 2.0])):
            for sc in (True, False):
                out.append({"est": est, "n": 2, "weight": "pT2", "gap": 0.5, "self_corr": sc, "mode": "diff", "sel": sel, "bins": bins,
                            "flow": [flow1, flow2], "ref": [ref1, ref2]})
    for nn in (1, 2, 3):
        out.append({"est": "RP", "n": nn, "mode": "int", "flow": [flow1, flow2, ref1], "ref": []})
        out.append({"est": "RP", "n": nn, "mode": "int", "flow": [[], flow1, [], ref2], "ref": []})
        for sel, bins in (("pT", [0.0, 0.6, 1.0, 1.4]), ("pseudorapidity", [-1.5, -0.5, 0.1, 0.5, 1.5]), ("rapidity", [-2.0, -0.1, 2.0])):
            out.append({"est": "RP", "n": nn, "mode": "diff", "sel": sel, "bins": bins, "flow": [flow1, ref1, flow2], "ref": []})
    return out


def search(ctx):
    found, n, seen = [], 0, set()
    budget = 150 if ctx.quick else 1500
    probes = source_probe_cases()
    for k in range(len(probes) + budget):
        c = probes[k] if k < len(probes) else gen_case(ctx.rng, small=True, errors=False)
        n += 1
        try:
            msg = oracle(c)
        except Exception:
            msg = None
        if msg:
            cl = failure_class(c, msg)
            if cl in seen:
                continue
            seen.add(cl)
            c = shrink(c, cl)
            found.append(Failure(c, f"{cl}: property oracle fails on the implementation", on_impl=oracle(c),
                                 key=KEY_EP_EMPTY if cl == "EP empty sub-event" else None))
            if len(found) >= 5:
                break
    return found, n


def shrink(case, cl=None):
    cur, changed = case, True
    while changed:
        changed = False
        for cand in _smaller(cur):
            try:
                m = oracle(cand)
                if m and (cl is None or failure_class(cand, m) == cl):
                    cur, changed = cand, True
                    break
            except Exception:
                pass
    return cur


def _smaller(c):
    if "flow" not in c:
        return
    nev = len(c["flow"])
    paired = c["est"] != "RP"
    for i in range(nev):
        if nev > 1:
            yield dict(c, flow=c["flow"][:i] + c["flow"][i + 1:], ref=(c["ref"][:i] + c["ref"][i + 1:]) if paired else [])
    for key in ("flow", "ref"):
        if key == "ref" and not paired:
            continue
        for i, ev in enumerate(c[key]):
            for j in range(len(ev)):
                if key == "ref" and len(ev) <= 3:
                    continue
                yield dict(c, **{key: c[key][:i] + [ev[:j] + ev[j + 1:]] + c[key][i + 1:]})
    if c["mode"] == "diff" and len(c["bins"]) > 2:
        yield dict(c, bins=c["bins"][:-1])
        yield dict(c, bins=c["bins"][1:])
    if c["n"] != 1 and not c.get("default_ctor"):
        yield dict(c, n=1)


LEVEL_TEXT = ("Theorems (Coq, any commutative ring, all event lists): reaction plane - a common rotation multiplies the "
              "result by exp(i n alpha), with positive weights the result is the weighted mean of exp(i n phi) and "
              "independent of the order of particles and events, one all-containing bin = integrated; scalar product and "
              "event plane - value AND error of integrated and differential flow are invariant under a unit rotation of "
              "each event (flow and reference sample alike), under permutation of the particles of any event (with their "
              "weights) and of the events, one all-containing bin = integrated; Q-cumulants - <<2>>,<<4>>,<<6>> independent "
              "of the random rotations, particle order and event order; finite regenerated tables: validated selectors = "
              "dispatched selectors = {pT, rapidity, pseudorapidity} for all six estimators, constructor defaults inside "
              "their accepted lists, dispatched weights = accepted weights.  Source tie (C12_source_*, 35 theorems, closed "
              "under the global context): the hand models of the three plane-type estimators equal, method by method and "
              "composed (integrated_flow, one bin of differential_flow), the Gallina functions regenerated on every run "
              "from the current Python method bodies - reaction plane: full equality; scalar product / event plane: every "
              "finite value and error of the model is the regenerated result; the leaf functions of the executable "
              "instance (weights, NaN -> 1, sub-event and bin comparisons, selector dispatch) are equal to the regenerated ones.")
LEVEL_NOTE = ("Trusted: Coq kernel/vm_compute; the py2coq translators (gen_flowest: loop/zip/arithmetic semantics of the "
              "fragment); oracles 1/x, sqrt, abs, comparisons, the two arctan2 cosines (invariance derived over R from "
              "arctan2's defining property) and the event-plane resolution inversion (compared textually); exact arithmetic "
              "instead of IEEE rounding.  Still hand-written and tied by correspondence only: where the models return None "
              "(non-finite floats), the loop over bins, the Q instance's sqrt/arctan2 closed forms.  Event-plane rotation "
              "invariance excludes vanishing vectors (empty sub-event); reaction-plane mean assumes positive weights.")
TECHNIQUE = ("Coq proofs over hand models (Permutation / unit-rotation algebra closed by ring); fail-closed AST translation of "
             "the estimators' method bodies into folds and proofs that the hand models equal them (fold/map/filter lemmas + "
             "ring); tables by computation on regenerated lists; vm_compute correspondence at exact rationals; metamorphic "
             "runs on the real estimators, targeted probes for the regenerated branches in the failing-input search")

"""Generators / renderers / observers for Oscar-family files (shared by C01, C02, C06, C07)."""
import math, os
from fractions import Fraction
import numpy as np
from common import q, z, coq_list, coq_str, coq_opt

HEAD = {
    "Oscar2013": ["#!OSCAR2013 particle_lists t x y z mass p0 px py pz pdg ID charge",
                  "# Units: fm fm fm fm GeV GeV GeV GeV GeV none none e",
                  "# SMASH-3.1rc-23-g59a05e65f"],
    "Oscar2013Extended": ["#!OSCAR2013Extended particle_lists t x y z mass p0 px py pz pdg ID charge ncoll form_time xsecfac proc_id_origin proc_type_origin time_last_coll pdg_mother1 pdg_mother2 baryon_number strangeness",
                          "# Units: fm fm fm fm GeV GeV GeV GeV GeV none none e none fm none none none fm none none none none",
                          "# SMASH-3.1rc-23-g59a05e65f"],
}
# column kinds per format: 'f' real, 'i' integer, 'p' pdg
COLS = {
    "Oscar2013": "fffffffffpii",
    "Oscar2013Extended": "fffffffffpiiiffiifppii",
}
ASCII_KIND = {"t": "f", "x": "f", "y": "f", "z": "f", "mass": "f", "p0": "f", "px": "f", "py": "f", "pz": "f",
              "pdg": "p", "ID": "i", "charge": "i", "ncoll": "i", "form_time": "f", "xsecfac": "f",
              "proc_id_origin": "i", "proc_type_origin": "i", "time_last_coll": "f", "pdg_mother1": "p",
              "pdg_mother2": "p", "baryon_number": "i", "strangeness": "i"}
PDGS = [211, -211, 111, 2212, 2112, -2212, 321, -321, 22, 11, -11, 3122, 3312, 1000010020, 12, 21, 2, -3,
        9999999, 0, 123456, 310, 130, 3334, 4122, -111, 221, -221]


def real_tok(rng):
    k = rng.random()
    if k < 0.35:
        return f"{rng.uniform(-60, 60):.6g}"
    if k < 0.5:
        return str(rng.randint(-300, 300))                     # integral real
    if k < 0.65:
        return f"{rng.uniform(-5, 5):.5e}"                     # exponent
    if k < 0.75:
        return f"{rng.uniform(0, 1):.12f}"                     # many digits
    if k < 0.82:
        return rng.choice(["0", "-0", "0.0", "1e-300", "1E+3", "+2.5", ".5", "5."])
    if k < 0.9:
        return f"{rng.choice([1, 2, 3, 5, 7]) / rng.choice([2, 4, 8, 16])}"   # dyadic
    return f"{rng.uniform(-1e4, 1e4):.9g}"


def tok_for(kind, rng):
    if kind == "f":
        return real_tok(rng)
    if kind == "p":
        return str(rng.choice(PDGS))
    return str(rng.choice([0, 1, -1, 2, 3, 5, 17, 31, 404, -2, rng.randint(0, 100000)]))


def gen_doc(rng, fmt=None, max_events=5, max_mult=4):
    fmt = fmt or rng.choice(["Oscar2013", "Oscar2013", "Oscar2013Extended", "Oscar2013Extended", "ASCII", "ASCII"])
    if fmt == "ASCII":
        names = list(ASCII_KIND)
        k = rng.choice([1, 1, 2, 3, 4, 6, 22])
        cols = rng.sample(names, k)
        head = ["#!ASCII particle_lists " + " ".join(cols), "# Units: " + " ".join("none" for _ in cols), "# SMASH-3.1"]
        kinds = "".join(ASCII_KIND[c] for c in cols)
        ncols_choices = [len(cols)]
    else:
        head = list(HEAD[fmt])
        kinds = COLS[fmt]
        cols = None
        ncols_choices = [len(kinds)] if fmt == "Oscar2013" else [22, 22, 20, 21]
    nev = rng.randint(1, max_events)
    ncols = rng.choice(ncols_choices)
    events = []
    for i in range(nev):
        m = rng.choice([0, 1, 2, 3, max_mult, rng.randint(0, max_mult)])
        rows = [[tok_for(kinds[j], rng) for j in range(ncols)] for _ in range(m)]
        b = rng.choice(["0.000", "3.250", "12.500", "7.125", "0.001"])
        events.append({"rows": rows, "b": b, "yn": rng.choice(["yes", "no"])})
    return {"fmt": fmt, "head": head, "cols": cols, "events": events}


def render_lines(doc):
    """the file as a list of lines (without newline)"""
    out = list(doc["head"])
    for i, ev in enumerate(doc["events"]):
        lab = ev.get("label", i)
        out.append(f"# event {lab} out {ev.get('declared', len(ev['rows']))}")
        out += [" ".join(r) for r in ev["rows"]]
        out.append(f"# event {lab} end 0 impact   {ev['b']} scattering_projectile_target {ev['yn']}")
    return out


def render(doc):
    text = "".join(l + "\n" for l in render_lines(doc))
    return text if doc.get("final_newline", True) else text[:-1]      # (the flow generators write files without the last newline)


ERR = {TypeError: "TypeError", ValueError: "ValueError", IndexError: "IndexError", KeyError: "KeyError"}


def err_name(e):
    for k, v in ERR.items():
        if type(e) is k:
            return v
    return "OtherError"


def observe_oscar(path, **kw):
    """load with the real code; everything the property talks about, or the exception class"""
    import warnings
    from sparkx.Oscar import Oscar
    with warnings.catch_warnings():
        warnings.simplefilter("ignore")
        try:
            o = Oscar(path, **kw)
        except Exception as e:
            return {"err": err_name(e), "msg": f"{type(e).__name__}: {e}"[:200]}
        ev = [[p.data_.tolist() for p in e] for e in o.particle_objects_list()]
        cnt = np.asarray(o.num_output_per_event())
        return {"events": ev, "nevents": int(o.num_events()), "counts": cnt.tolist(), "counts_shape": list(cnt.shape),
                "fmt": o.oscar_format(), "attrs": list(o.custom_attr_list), "impacts": [float(x) for x in o.impact_parameters()]}


def coq_slot(x):
    return "None" if (x is None or (isinstance(x, float) and math.isnan(x))) else f"(Some {q(x)})"


def coq_observed(obs):
    if "err" in obs:
        return f"(ObsErr {obs['err']})"
    ev = coq_list([coq_list([coq_list([coq_slot(x) for x in p]) for p in e]) for e in obs["events"]])
    cnt = obs["counts"]
    if obs["counts_shape"] and len(obs["counts_shape"]) == 2 and obs["counts_shape"][1] == 2:
        c = coq_list([f"({z(a)}, {z(b)})%Z" for a, b in cnt])
    else:
        c = "[]" if not np.size(cnt) else coq_list([f"({z(-999)}, {z(-999)})%Z"])   # a shape the model never produces
    return (f"(ObsOk {ev} {z(obs['nevents'])}%Z {c} {coq_str(obs['fmt'])} "
            f"{coq_list([coq_str(a) for a in obs['attrs']])} {coq_list([q(x) for x in obs['impacts']])})")


def py_float(tok):
    try:
        v = float(tok)
    except ValueError:
        return None
    return v if math.isfinite(v) else "nonfinite"


def py_int(tok):
    try:
        return int(tok)
    except ValueError:
        return None


def token_tables(lines):
    """the two oracles float(token) / int(token) as association lists over every token of the file"""
    toks = sorted({t for l in lines for t in l.split(" ")})
    tf, ti = [], []
    for t in toks:
        f = py_float(t)
        if f == "nonfinite":
            raise ValueError("non-finite literal in generated file")
        tf.append(f"({coq_str(t)}, {coq_opt(f, q)})")
        i = py_int(t)
        ti.append(f"({coq_str(t)}, {coq_opt(i, lambda v: q(float(v)))})")
    return coq_list(tf), coq_list(ti)


def pdg_table(lines_tokens):
    from particle import PDGID
    vals = set()
    for l in lines_tokens:
        for t in l:
            i = py_int(t)
            if i is not None:
                vals.add(i)
    out = []
    for v in sorted(vals):
        try:
            ok = bool(PDGID(v).is_valid)
        except Exception:
            ok = False
        out.append(f"({q(float(v))}, {'true' if ok else 'false'})")
    return coq_list(out)


def coq_file(lines):
    return coq_list([coq_list([coq_str(t) for t in l.split(" ")]) for l in lines])


def coq_sel(sel):
    if sel is None:
        return "SelAll"
    if isinstance(sel, int):
        return f"(SelOne {z(sel)}%Z)"
    return f"(SelRange {z(sel[0])}%Z {z(sel[1])}%Z)"


# ------------------------------------------------------------------ property oracle (independent re-parse)
ATTR = {h: h for h in ASCII_KIND}
ATTR.update({"p0": "E", "time_last_coll": "t_last_coll"})
HEADER_COLS = {
    "Oscar2013": "t x y z mass p0 px py pz pdg ID charge".split(),
    "Oscar2013Extended": ("t x y z mass p0 px py pz pdg ID charge ncoll form_time xsecfac proc_id_origin "
                          "proc_type_origin time_last_coll pdg_mother1 pdg_mother2 baryon_number strangeness").split(),
}


def nearest_double(tok):
    return float(Fraction(tok))          # exact rational -> correctly rounded double, independent of float(str)


def expected_value(h, tok):
    return nearest_double(tok) if ASCII_KIND[h] == "f" else int(tok)


def same(a, b):
    if isinstance(b, float) and math.isnan(b):
        return isinstance(a, float) and math.isnan(a)
    return a == b


# Particle.data_ as documented (25 float slots; "Allfields" of the class docstring / the property's anchor): the harness' own
# statement of the layout, used where only raw data_ lists were observed (C07) and have to be compared with file tokens
SLOT = {"t": 0, "x": 1, "y": 2, "z": 3, "mass": 4, "p0": 5, "px": 6, "py": 7, "pz": 8, "pdg": 9, "ID": 11, "charge": 12,
        "ncoll": 13, "form_time": 14, "xsecfac": 15, "proc_id_origin": 16, "proc_type_origin": 17, "time_last_coll": 18,
        "pdg_mother1": 19, "pdg_mother2": 20, "status": 21, "baryon_number": 22, "strangeness": 23}


def doc_cols(doc):
    return doc["cols"] if doc["fmt"] == "ASCII" else HEADER_COLS[doc["fmt"]]


def expected_slots(doc, row):
    """{data_ slot: value} one particle line of `doc` must produce (from the tokens alone)"""
    return {SLOT[h]: float(expected_value(h, tok)) for h, tok in zip(doc_cols(doc), row)}


def check_rows(ev, rows, cols, label):
    """the particles of one loaded event against the token rows the file has for it; None or a message"""
    if len(ev) != len(rows):
        return f"event {label}: {len(rows)} particle lines in the file, {len(ev)} particles loaded"
    for r, (p, row) in enumerate(zip(ev, rows)):
        for j, tok in enumerate(row):
            h = cols[j]
            got = getattr(p, ATTR[h])
            exp = expected_value(h, tok)
            if not same(got, exp) or (ASCII_KIND[h] != "f" and not isinstance(got, (int, np.integer))):
                return (f"event {label} particle {r} column {h}: file says {tok!r} (= {exp!r}), "
                        f"attribute {ATTR[h]} = {got!r}")
    return None


def check_particle_list(pl, nevents, want_rows, cols, labels):
    """particle_list() (documented shape: [line][quantity] for one event, [event][line][quantity] otherwise) against the
    token rows of the events held, column by column in file order"""
    if nevents == 1:
        pl = [pl]
    if not isinstance(pl, list) or len(pl) != len(want_rows):
        return f"particle_list() describes {len(pl) if isinstance(pl, list) else type(pl).__name__} events, {len(want_rows)} are held"
    for k, (ev, rows) in enumerate(zip(pl, want_rows)):
        if len(ev) != len(rows):
            return f"particle_list(): event {labels[k]} has {len(ev)} lines, the file has {len(rows)}"
        for r, (line, row) in enumerate(zip(ev, rows)):
            exp = [expected_value(h, tok) for h, tok in zip(cols, row)]
            if len(line) != len(exp) or any(not same(a, b) for a, b in zip(line, exp)):
                return f"particle_list(): event {labels[k]} line {r} = {list(line)!r}, the file says {row!r}"
    return None


DECOY = {"Oscar2013": "Oscar2013Extended", "Oscar2013Extended": "Oscar2013", "ASCII": "Oscar2013"}


def load_decoy(fmt, tmpdir):
    """another, unrelated file (other format, two events, other impact parameters) is opened while the object under
    inspection is alive: nothing the first object answers may change (state shared between objects / kept per class)"""
    from sparkx.Oscar import Oscar
    other = DECOY[fmt]
    row = ["1", "2", "3", "4", "0.138", "7", "1", "2", "3", "211", "77", "1", "0", "0", "1", "0", "0", "0", "0", "0", "0", "0"]
    d = {"fmt": other, "head": HEAD[other], "cols": None,
         "events": [{"rows": [row[:len(COLS[other])]] * 2, "b": "99.500", "yn": "yes"}, {"rows": [row[:len(COLS[other])]], "b": "98.250", "yn": "no"}]}
    path = os.path.join(tmpdir, f"decoy_{os.getpid()}.oscar")
    with open(path, "w") as f:
        f.write(render(d))
    try:
        return Oscar(path)
    finally:
        os.remove(path)


def oracle_load(doc, tmpdir, sel=None):
    """C01 (sel None) / C02: what the file states, against what Oscar(...) returns"""
    import warnings
    from sparkx.Oscar import Oscar
    path = os.path.join(tmpdir, f"oracle_{os.getpid()}.oscar")
    with open(path, "w") as f:
        f.write(render(doc))
    kw = {} if sel is None else {"events": tuple(sel) if isinstance(sel, list) else sel}
    try:
        with warnings.catch_warnings():
            warnings.simplefilter("ignore")
            try:
                o = Oscar(path, **kw)
            except Exception as e:
                return f"well-formed {doc['fmt']} file is rejected: {type(e).__name__}: {e}"[:300]
            try:
                decoy = load_decoy(doc["fmt"], tmpdir)
            except Exception as e:
                return f"a second, well-formed file opened while the first object is alive is rejected: {type(e).__name__}: {e}"[:300]
            cols = doc_cols(doc)
            idx = list(range(len(doc["events"])))
            if isinstance(sel, int):
                idx = [sel]
            elif sel is not None:
                idx = list(range(sel[0], sel[1] + 1))
            evs = o.particle_objects_list()
            want = [doc["events"][i] for i in idx]
            if len(evs) != len(want):
                return f"{len(want)} events expected, {len(evs)} returned"
            for k, (ev, wev) in enumerate(zip(evs, want)):
                msg = check_rows(ev, wev["rows"], cols, idx[k])
                if msg:
                    return msg
            if o.num_events() != len(want):
                return f"num_events() = {o.num_events()}, file/selection has {len(want)}"
            cnt = np.asarray(o.num_output_per_event())
            exp_cnt = [[i, len(doc["events"][i]["rows"])] for i in idx]
            if cnt.tolist() != exp_cnt:
                return f"num_output_per_event() = {cnt.tolist()}, expected {exp_cnt}"
            fmt = o.oscar_format()
            if fmt != doc["fmt"]:
                return f"detected format {fmt!r}, file is {doc['fmt']!r}"
            imp = [float(x) for x in o.impact_parameters()]
            exp_imp = [nearest_double(doc["events"][i]["b"]) for i in idx]
            if imp != exp_imp:
                return f"impact_parameters() = {imp}, file states {exp_imp}"
            try:
                pl = o.particle_list()
            except Exception as e:
                return f"particle_list() raises {type(e).__name__}: {e}"
            return check_particle_list(pl, len(want), [w["rows"] for w in want], cols, idx)
    finally:
        try:
            os.remove(path)
        except OSError:
            pass

"""Generators / observers / oracle for JETSCAPE files (shared by C01, C02, C06, C07)."""
import math, os, warnings
from fractions import Fraction
import numpy as np
from common import q, z, coq_list, coq_str, coq_opt
import oscgen as G

PDG_H = [211, -211, 111, 321, -321, 2212, -2212, 2112, 22, 130, 310, 3122, 12, -14, 16, 11, -13, 9999999, 0, 523,
         1000010020, -1000010020, 1000020040, 2212, 211,
         -111, 221, -221, -333, 333]      # illegal antiparticle codes of self-conjugate mesons: not valid although |pdg| is
PDG_P = [21, 1, -1, 2, -2, 3, -3, 4, 5, -5, 22, 21, 6, 12, 9999999]
MASSLESS = {22, 21, 12, -12, 14, -14, 16, -16, 18, -18}


def mom_tok(rng):
    return f"{rng.choice([-1, 1]) * rng.choice([0.25, 0.5, 1.5, 2.0, 3.75, 0.125, 12.0, rng.randint(1, 40) / 8]):g}"


def gen_doc(rng, ptype=None, max_events=5, max_mult=4, ultra=False):
    ptype = ptype or rng.choice(["hadron", "hadron", "parton"])
    sep = rng.choice(["\t", "\t", " "])
    nev = rng.randint(1, max_events)
    events = []
    for i in range(nev):
        m = rng.choice([0, 1, 2, 3, max_mult, rng.randint(0, max_mult)])
        rows = []
        for j in range(m):
            px, py, pz = mom_tok(rng), mom_tok(rng), mom_tok(rng)
            p2 = Fraction(px) ** 2 + Fraction(py) ** 2 + Fraction(pz) ** 2
            k = rng.random()
            if ultra and k < 0.12:
                # ultra-relativistic massive particle (E/m of 1e3 .. 1e4): E^2 - p^2 is tiny relative to E^2 but positive; dyadic
                # values with few bits, so that the float arithmetic of the derived mass is exact
                e = rng.choice([10, 11, 12, 12])
                pz0 = 2 ** e
                px, py = rng.choice(["0", "0.5", "-0.5"]), "0"
                pz = str(rng.choice([-1, 1]) * pz0)
                E = repr(float(pz0) + 2.0 ** (-e + rng.choice([0, -2])))
            elif k < 0.7:      # clearly massive
                mass = rng.choice([0.125, 0.5, 1.0, 0.938, 0.14])
                E = f"{math.sqrt(float(p2) + mass * mass) * 1.0:.6g}"
                if Fraction(E) ** 2 < p2 * Fraction(1000001, 1000000):
                    E = f"{float(Fraction(E)) + 0.01:.6g}"
            elif k < 0.85:   # unphysical: |E| < |p|
                E = f"{math.sqrt(float(p2)) * 0.75:.6g}"
            else:            # exactly light-like on a Pythagorean momentum
                px, py, pz = "3", "-4", "12"
                E = "13"
            pdg = rng.choice(PDG_H if ptype == "hadron" else PDG_P)
            status = rng.choice([27, 0, 11, -1, 1])
            pid = j if rng.random() < 0.9 else 20000001 + j          # labels beyond 2^24 as well
            rows.append([str(pid), str(pdg), str(status), E, px, py, pz])
        events.append({"rows": rows, "weight": rng.choice(["1", "0.5", "2.25e-3"]), "ep": rng.choice(["0", "0.25"])})
    return {"ptype": ptype, "sep": sep, "events": events, "sigma": rng.choice(["0.000314633", "1.5", "2.5e-3", "3e-05", "1E-06", "7"]),
            "sigerr": rng.choice(["6.06164e-07", "0.125", "0", "2e-07", "1e+1"]), "final_newline": rng.random() < 0.7}


def render_lines(doc):
    s = doc["sep"]
    word = "N_hadrons" if doc["ptype"] == "hadron" else "N_partons"
    out = [s.join(["#", "JETSCAPE_FINAL_STATE", "v2", "|", "N", "pid", "status", "E", "Px", "Py", "Pz"])]
    for i, ev in enumerate(doc["events"]):
        lab = ev.get("label", i + 1)
        out.append(s.join(["#", "Event", str(lab), "weight", ev["weight"], "EPangle", ev["ep"], word,
                           str(ev.get("declared", len(ev["rows"])))]))
        out += [" ".join(r) for r in ev["rows"]]
    out.append(s.join(["#", "sigmaGen", doc["sigma"], "sigmaErr", doc["sigerr"]]))
    return out


def render(doc):
    lines = render_lines(doc)
    text = "\n".join(lines)
    return text + ("\n" if doc.get("final_newline", True) else "")


def observe(path, **kw):
    from sparkx.Jetscape import Jetscape
    with warnings.catch_warnings():
        warnings.simplefilter("ignore")
        try:
            o = Jetscape(path, **kw)
        except Exception as e:
            return {"err": G.err_name(e), "msg": f"{type(e).__name__}: {e}"[:200]}
        ev = [[p.data_.tolist() for p in e] for e in o.particle_objects_list()]
        cnt = np.asarray(o.num_output_per_event())
        return {"events": ev, "nevents": int(o.num_events()), "counts": cnt.tolist(), "counts_shape": list(cnt.shape),
                "sigma": [float(x) for x in o.get_sigmaGen()]}


def coq_observed(obs):
    if "err" in obs:
        return f"(JObsErr {obs['err']})"
    ev = coq_list([coq_list([coq_list([G.coq_slot(x) for x in p]) for p in e]) for e in obs["events"]])
    shp = obs["counts_shape"]
    if len(shp) == 2 and shp[1] == 2:
        c, two = coq_list([f"({z(a)}, {z(b)})%Z" for a, b in obs["counts"]]), "true"
    elif shp == [2]:
        c, two = coq_list([f"({z(obs['counts'][0])}, {z(obs['counts'][1])})%Z"]), "false"
    elif shp == [0]:
        c, two = "[]", "true"
    else:
        c, two = coq_list([f"({z(-999)}, {z(-999)})%Z"]), "true"
    return f"(JObsOk {ev} {z(obs['nevents'])}%Z {c} {two} {q(obs['sigma'][0])} {q(obs['sigma'][1])})"


def tokens_of(line):
    return line.replace("\t", " ").split(" ")


def coq_file(lines):
    return coq_list([coq_list([coq_str(t) for t in tokens_of(l)]) for l in lines])


def tables(lines):
    toks = sorted({t for l in lines for t in tokens_of(l)})
    tf, ti = [], []
    ints = set()
    for t in toks:
        f = G.py_float(t)
        if f == "nonfinite":
            f = None
        tf.append(f"({coq_str(t)}, {coq_opt(f, q)})")
        i = G.py_int(t)
        if i is not None:
            ints.add(i)
        ti.append(f"({coq_str(t)}, {coq_opt(i, lambda v: q(float(v)))})")
    from particle import PDGID
    pv, pc = [], []
    for v in sorted(ints):
        try:
            ok = bool(PDGID(v).is_valid)
        except Exception:
            ok = False
        pv.append(f"({q(float(v))}, {'true' if ok else 'false'})")
        if ok:
            ch = Fraction(PDGID(v).charge).limit_denominator(3)      # the PDG charge in exact thirds
            pc.append(f"({q(float(v))}, {q(ch)})")
    # sqrt oracle on the exact arguments the model will form
    sq = {}
    for l in lines:
        t = tokens_of(l)
        if len(t) == 7 and not l.startswith("#"):
            try:
                E, px, py, pz = (Fraction(float(x)) for x in t[3:7])
            except ValueError:
                continue
            arg = E * E - (px * px + py * py + pz * pz)
            if arg >= 0:
                sq[arg] = math.sqrt(arg)
    sqt = [f"({q(a)}, {q(v)})" for a, v in sq.items()]
    return coq_list(tf), coq_list(ti), coq_list(pv), coq_list(pc), coq_list(sqt)


# ------------------------------------------------------------------ property oracle
JCOLS = ["ID", "pdg", "status", "E", "px", "py", "pz"]
JSLOT = {"ID": 11, "pdg": 9, "status": 21, "E": 5, "px": 6, "py": 7, "pz": 8}      # Particle.data_ as documented (see oscgen.SLOT)


def expected_cols(row):
    """{attribute: value} of one particle line, from its tokens alone"""
    return {"ID": int(row[0]), "pdg": int(row[1]), "status": int(row[2]), "E": G.nearest_double(row[3]),
            "px": G.nearest_double(row[4]), "py": G.nearest_double(row[5]), "pz": G.nearest_double(row[6])}


def expected_slots(row):
    return {JSLOT[a]: float(v) for a, v in expected_cols(row).items()}


def pdg_charge(pdg):
    """the PDG charge in exact thirds, None for a code PDGID does not know"""
    from particle import PDGID
    try:
        if not bool(PDGID(pdg).is_valid):
            return None
        return Fraction(PDGID(pdg).charge).limit_denominator(3)
    except Exception:
        return None


def check_rows(ev, rows, label):
    """the particles of one loaded event against the token rows the file has for it (columns, derived mass and charge)"""
    if len(ev) != len(rows):
        return f"event {label}: {len(rows)} particle lines in the file, {len(ev)} particles loaded"
    for r, (p, row) in enumerate(zip(ev, rows)):
        exp = expected_cols(row)
        for a, v in exp.items():
            got = getattr(p, a)
            if got != v or (isinstance(v, int) and not isinstance(got, (int, np.integer))):
                return f"event {label} particle {r}: column {a} file says {v!r}, loaded {got!r}"
        E, px, py, pz = (Fraction(x) for x in row[3:7])
        m2 = E * E - px * px - py * py - pz * pz
        if exp["pdg"] in MASSLESS:
            okm = p.mass == 0.0
            em = 0.0
        elif m2 < 0:
            okm = math.isnan(p.mass)
            em = float("nan")
        else:
            em = math.sqrt(m2)
            okm = (not math.isnan(p.mass)) and abs(p.mass - em) <= 1e-9 * max(1.0, abs(float(E)))
        if not okm:
            return f"event {label} particle {r}: derived mass {p.mass!r}, sqrt(E^2-p^2) = {em!r}"
        ch = pdg_charge(exp["pdg"])
        if ch is not None:
            ech = int(ch * 3) if abs(ch) < 1 else int(ch)
            if p.charge != ech:
                return f"event {label} particle {r}: pdg {exp['pdg']} charge {p.charge!r}, expected {ech}"
        elif not math.isnan(p.charge):
            return f"event {label} particle {r}: unknown pdg {exp['pdg']} has charge {p.charge!r}"
    return None


def check_particle_list(pl, nevents, want_rows, labels):
    """particle_list() (documented shape) against the token rows of the events held"""
    if nevents == 1:
        pl = [pl]
    if not isinstance(pl, list) or len(pl) != len(want_rows):
        return f"particle_list() describes {len(pl) if isinstance(pl, list) else type(pl).__name__} events, {len(want_rows)} are held"
    for k, (ev, rows) in enumerate(zip(pl, want_rows)):
        if len(ev) != len(rows):
            return f"particle_list(): event {labels[k]} has {len(ev)} lines, the file has {len(rows)}"
        for r, (line, row) in enumerate(zip(ev, rows)):
            exp = [expected_cols(row)[a] for a in JCOLS]
            if len(line) != 7 or any(a != b for a, b in zip(line, exp)):
                return f"particle_list(): event {labels[k]} line {r} = {list(line)!r}, the file says {row!r}"
    return None


def load_decoy(ptype, tmpdir):
    """another, unrelated file (other particle type, other trailer) is opened while the object under inspection is alive:
    nothing the first object answers may change (state shared between objects / kept per class)"""
    from sparkx.Jetscape import Jetscape
    other = "parton" if ptype == "hadron" else "hadron"
    d = {"ptype": other, "sep": "\t", "sigma": "42.5", "sigerr": "0.75", "final_newline": True,
         "events": [{"rows": [["0", "2" if other == "parton" else "321", "0", "5", "3", "0", "4"]] * 2, "weight": "1", "ep": "0"},
                    {"rows": [], "weight": "1", "ep": "0"}]}
    path = os.path.join(tmpdir, f"decoy_{os.getpid()}.dat")
    with open(path, "w") as f:
        f.write(render(d))
    try:
        return Jetscape(path, particletype=other)
    finally:
        os.remove(path)


def oracle_load(doc, tmpdir, sel=None):
    from sparkx.Jetscape import Jetscape
    path = os.path.join(tmpdir, f"oracle_{os.getpid()}.dat")
    with open(path, "w") as f:
        f.write(render(doc))
    kw = {"particletype": doc["ptype"]}
    if sel is not None:
        kw["events"] = tuple(sel) if isinstance(sel, list) else sel
    try:
        with warnings.catch_warnings():
            warnings.simplefilter("ignore")
            try:
                o = Jetscape(path, **kw)
            except Exception as e:
                return f"well-formed JETSCAPE {doc['ptype']} file is rejected: {type(e).__name__}: {e}"[:300]
            try:
                decoy = load_decoy(doc["ptype"], tmpdir)
            except Exception as e:
                return f"a second, well-formed file opened while the first object is alive is rejected: {type(e).__name__}: {e}"[:300]
            idx = list(range(len(doc["events"])))
            if isinstance(sel, int):
                idx = [sel]
            elif sel is not None:
                idx = list(range(sel[0], sel[1] + 1))
            want = [doc["events"][i] for i in idx]
            evs = o.particle_objects_list()
            if len(evs) != len(want):
                return f"{len(want)} events expected, {len(evs)} returned"
            for k, (ev, wev) in enumerate(zip(evs, want)):
                msg = check_rows(ev, wev["rows"], idx[k] + 1)
                if msg:
                    return msg
            if o.num_events() != len(want):
                return f"num_events() = {o.num_events()}, file/selection has {len(want)}"
            cnt = np.asarray(o.num_output_per_event())
            exp_cnt = [[i + 1, len(doc["events"][i]["rows"])] for i in idx]
            if cnt.tolist() != exp_cnt:
                return f"num_output_per_event() = {cnt.tolist()}, expected {exp_cnt}"
            sg = tuple(float(x) for x in o.get_sigmaGen())
            if sg != (G.nearest_double(doc["sigma"]), G.nearest_double(doc["sigerr"])):
                return f"get_sigmaGen() = {sg}, file states ({doc['sigma']}, {doc['sigerr']})"
            try:
                pl = o.particle_list()
            except Exception as e:
                return f"particle_list() raises {type(e).__name__}: {e}"
            return check_particle_list(pl, len(want), [w["rows"] for w in want], [i + 1 for i in idx])
    finally:
        try:
            os.remove(path)
        except OSError:
            pass

#!/bin/sh
# offline build of the framework: regenerate the model from /repo and compile the whole Coq development
cd "$(dirname "$0")" || exit 1
mkdir -p .work evidence replays coq/Gen
exec /venv/bin/python harness/setup_build.py

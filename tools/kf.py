#!/usr/bin/env python3
"""tools/kf.py fixed <Cxx> <commit> <what>   |   tools/kf.py open <Cxx> <key> <what>"""
import json, sys
p = "/verif/known_findings.json"
k = json.load(open(p))
if sys.argv[1] == "fixed":
    _, _, prop, commit, what = sys.argv
    k["findings"].append({"property": prop, "status": "fixed", "commit": commit, "what": f"fixed: property={prop} {commit} {what}"})
else:
    _, _, prop, key, what = sys.argv
    k["findings"].append({"property": prop, "status": "open", "key": key, "what": what})
json.dump(k, open(p, "w"), indent=1)

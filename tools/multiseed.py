#!/usr/bin/env python3
"""tools/multiseed.py <seeds comma separated> [jobs] [tier]  - run every claimed check on the unchanged tree under several VERIF_SEED
values (a check must never raise an alarm there, whatever the seed); prints one line per run and a summary."""
import os, subprocess, sys
from concurrent.futures import ThreadPoolExecutor
V = os.path.dirname(os.path.dirname(os.path.abspath(__file__)))
seeds = sys.argv[1].split(",")
jobs = int(sys.argv[2]) if len(sys.argv) > 2 else 4
tier = sys.argv[3] if len(sys.argv) > 3 else "quick"
props = open(os.path.join(V, "claimed.txt")).read().split()


def one(job):
    seed, p = job
    env = dict(os.environ, VERIF_SEED=seed, VERIF_EVIDENCE_DIR=f"/tmp/multiseed_ev_{seed}")
    r = subprocess.run(f"cd {V} && ./check {p} --tier {tier}", shell=True, env=env, stdout=subprocess.PIPE, stderr=subprocess.STDOUT, text=True)
    lines = [l for l in r.stdout.splitlines() if "WARNING conda" not in l]
    vio = [l for l in lines if "VIOLATION" in l]
    detail = ""
    if r.returncode != 0:
        detail = " | " + " ".join(lines[-6:])[:600]
    return f"seed={seed} {p} exit={r.returncode} {lines[-1][:120] if lines else ''}{detail}", r.returncode


bad = 0
with ThreadPoolExecutor(jobs) as ex:
    for line, rc in ex.map(one, [(s, p) for s in seeds for p in props]):
        print(line, flush=True)
        bad += rc != 0
print(f"SUMMARY: {len(seeds) * len(props)} runs, {bad} with a non-zero exit")

#!/usr/bin/env python3
"""tools/run_seeded.py [jobs] [prefix]  - re-run every kept seeded change against the quick tier of its property's check.
Each change gets its own scratch worktree of /repo (removed afterwards); nothing is applied to /repo itself.
Prints one line per change:  <id> demo_clean=<rc> demo_mut=<rc> check=<rc> <first VIOLATION line>  and a summary."""
import glob, os, shutil, subprocess, sys
from concurrent.futures import ThreadPoolExecutor
V = os.path.dirname(os.path.dirname(os.path.abspath(__file__)))
jobs = int(sys.argv[1]) if len(sys.argv) > 1 else 4
prefix = sys.argv[2] if len(sys.argv) > 2 else "C"


def sh(cmd, **kw):
    return subprocess.run(cmd, shell=True, stdout=subprocess.PIPE, stderr=subprocess.STDOUT, text=True, **kw)


def one(d):
    mid = os.path.basename(d); prop = mid.split("-")[0]
    wt = f"/tmp/seedwt_{mid}"; out = f"/tmp/seedout_{mid}"
    shutil.rmtree(out, ignore_errors=True); os.makedirs(out)
    sh(f"git -C /repo worktree remove --force {wt}")
    if sh(f"git -C /repo worktree add --detach {wt} HEAD -q").returncode:
        return f"{mid} WORKTREE-FAILED"
    try:
        env = dict(os.environ, PYTHONPATH=f"{wt}/src")
        c = sh(f"/venv/bin/python {d}/demo.py", env=env).returncode
        if sh(f"git -C {wt} apply {d}/patch.diff").returncode:
            return f"{mid} PATCH-DOES-NOT-APPLY"
        m = sh(f"/venv/bin/python {d}/demo.py", env=env).returncode
        env2 = dict(os.environ, SPARKX_REPO=wt, VERIF_EVIDENCE_DIR=f"{out}/evidence")
        r = sh(f"cd {V} && ./check {prop} --tier quick", env=env2)
        open(f"{out}/check.out", "w").write(r.stdout)
        vio = next((l for l in r.stdout.splitlines() if "VIOLATION" in l), "")
        return f"{mid} demo_clean={c} demo_mut={m} check={r.returncode} {vio[:170]}"
    finally:
        sh(f"git -C /repo worktree remove --force {wt}")
        shutil.rmtree(f"{out}/evidence", ignore_errors=True)


dirs = sorted(glob.glob(os.path.join(V, "seeded", prefix + "*-*")))
bad = 0
with ThreadPoolExecutor(jobs) as ex:
    for line in ex.map(one, dirs):
        print(line, flush=True)
        if "check=1" not in line or "demo_clean=0" not in line or "demo_mut=1" not in line:
            bad += 1
print(f"SUMMARY: {len(dirs)} changes, {bad} not (clean demo ok, changed demo fails, check exits 1)")

#!/bin/sh
# usage: tools/applyfix.sh <name-without-ext> <test files...>   applies /verif/fixes/<name>.patch to /repo as one fix: commit
n=$1; shift
cd /repo || exit 1
git apply --check /verif/fixes/$n.patch || { echo "PATCH DOES NOT APPLY: $n"; exit 1; }
git apply /verif/fixes/$n.patch
if [ $# -gt 0 ]; then
  /venv/bin/python -m pytest -q -p no:cacheprovider "$@" 2>&1 | tail -2
fi
msg=$(cat /verif/fixes/$n.msg 2>/dev/null || echo "fix: $n")
git commit -qam "$msg" && git log --oneline | head -1

#!/bin/sh
# usage: tools/trymut.sh <mutdir> <prop> [tier]   - confirm the demonstration, run our check against the change, undo it
d=$1; p=$2; tier=${3:-quick}
cd /repo || exit 1
test -z "$(git status --porcelain)" || { echo "/repo not clean"; exit 1; }
PYTHONPATH=/repo/src /venv/bin/python $d/demo.py >/tmp/demo_clean.out 2>&1; c=$?
git apply --check $d/patch.diff || { echo "PATCH DOES NOT APPLY"; exit 1; }
git apply $d/patch.diff
PYTHONPATH=/repo/src /venv/bin/python $d/demo.py >/tmp/demo_mut.out 2>&1; m=$?
echo "demo: clean exit=$c mutated exit=$m"
cd /verif && ./check $p --tier $tier > /tmp/check_mut.out 2>&1; r=$?
echo "check $p exit=$r"; grep -A2 "VIOLATION" /tmp/check_mut.out | head -8; tail -1 /tmp/check_mut.out
git -C /repo checkout -- .
test -z "$(git -C /repo status --porcelain)" && echo "/repo restored"

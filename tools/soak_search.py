#!/venv/bin/python
"""Run every property module's failing-input search on the (unchanged) tree: it must find nothing.
usage: PYTHONPATH=/repo/src tools/soak_search.py [seed ...] [--props C01,C02] [--tier quick|thorough]"""
import importlib, os, sys, time, traceback, warnings
HERE = os.path.dirname(os.path.dirname(os.path.abspath(__file__)))
sys.path.insert(0, os.path.join(HERE, "harness"))
os.chdir(HERE)
import common as C
warnings.simplefilter("ignore")
args = sys.argv[1:]
props = [f"C{i:02d}" for i in range(1, 21)]
tier = "quick"
seeds = []
i = 0
while i < len(args):
    if args[i] == "--props":
        props = args[i + 1].split(","); i += 2
    elif args[i] == "--tier":
        tier = args[i + 1]; i += 2
    else:
        seeds.append(int(args[i])); i += 1
bad = 0
for seed in seeds or [1]:
    for p in props:
        mod = importlib.import_module("props." + p.lower())
        if not hasattr(mod, "search"):
            print(p, "no search"); continue
        ctx = C.Ctx(p, tier, seed)
        t = time.time()
        try:
            found, n = mod.search(ctx)
            for f in found:
                k = f.key
                known = {x["key"] for x in C.known_findings(p)}
                tag = "known" if k in known else "NEW"
                if tag == "NEW":
                    bad += 1
                print(f"  {p} seed={seed} {tag}: {str(f.on_impl)[:300]}  case={str(f.case)[:300]}")
            print(f"{p} seed={seed} search evaluated {n}, found {len(found)}  ({time.time()-t:.0f}s)")
        except Exception:
            bad += 1
            print(f"{p} seed={seed} search CRASHED\n" + traceback.format_exc()[-1200:])
        finally:
            ctx.cleanup()
print("TOTAL new:", bad)

"""Gen/GenJackknife.v from src/sparkx/Jackknife.py (ratexpr extractor).

Generated (formula-shaped code):
  gen_jk_delete_n    int(self.delete_fraction * len(data))             : Q -> Z -> Z
  gen_jk_min_delete  the bound of `if delete_n_points < c: raise ValueError`
  gen_jk_task_seed   the argument of rd.seed(...) in _helper_unpack     : Z -> Z -> Z
  gen_jk_term        the summand of the variance loop                   : K -> K -> K
  gen_jk_factor      the scaling `variance_samples *= ...`, with its `if delete_n_points == c` chain
The pool, the per-task deletion and the driver are the hand model coq/Model/Pool.v; the statements around the
extracted ones are compared textually so that a structural change of the method bodies aborts (fail-closed)."""
import ast
from .core import *
from . import ratexpr

SRC = "src/sparkx/Jackknife.py"
OUTPUTS = ["GenJackknife"]
SIG = "(K : Type) (k0 k1 : K) (kadd kmul ksub kdiv : K -> K -> K) (kopp : K -> K)"


def _src(node):
    return ast.unparse(node)


def _expect(stmts, texts, what, node, path):
    got = [_src(s) for s in stmts]
    if got != texts:
        raise TranslateError(f"{what}: statements changed: {got!r}", node, path)


def generate():
    tree, path = parse(SRC)
    cls = find_class(tree, "Jackknife")
    out = [HEADER, "From Coq Require Import List ZArith QArith Qround.\nFrom SX Require Import Lib.Py Lib.KRing.\n\n"]

    # ---- compute_jackknife_estimates -------------------------------------------------------------------
    f = find_func(cls, "compute_jackknife_estimates")
    body = strip_doc(f.body)
    env_q = {"self.delete_fraction": "delete_fraction", "len(data)": "(inject_Z n)"}
    st = body[0]
    if not (isinstance(st, ast.Assign) and _src(st.targets[0]) == "delete_n_points"
            and isinstance(st.value, ast.Call) and _src(st.value.func) == "int" and len(st.value.args) == 1):
        raise TranslateError("expected `delete_n_points = int(...)` first", st, path)
    dn = "(Qtrunc " + ratexpr.expr(st.value.args[0], env_q, path, ratexpr.QOPS) + ")"
    st = body[1]
    if not (isinstance(st, ast.If) and len(st.body) == 1 and isinstance(st.body[0], ast.Raise) and not st.orelse
            and isinstance(st.test, ast.Compare) and len(st.test.ops) == 1 and isinstance(st.test.ops[0], ast.Lt)
            and _src(st.test.left) == "delete_n_points"
            and isinstance(st.body[0].exc, ast.Call) and _src(st.body[0].exc.func) == "ValueError"):
        raise TranslateError("expected `if delete_n_points < <const>: raise ValueError(...)`", st, path)
    min_delete = int_const(st.test.comparators[0], path)
    # the part after the pool call
    pos = [i for i, s in enumerate(body) if isinstance(s, ast.Assign) and _src(s.targets[0]) == "jackknife_samples"]
    if len(pos) != 1 or _src(body[pos[0]].value) != "self._compute_jackknife_samples(data, function, num_cores, *args, **kwargs)":
        raise TranslateError("expected one `jackknife_samples = self._compute_jackknife_samples(data, function, num_cores, *args, **kwargs)`", f, path)
    tail = body[pos[0] + 1:]
    if len(tail) != 5:
        raise TranslateError("expected mean, accumulator, loop, scaling, return after the pool call", f, path)
    _expect(tail[:2], ["mean_samples = np.mean(jackknife_samples)", "variance_samples = 0.0"], "variance block", f, path)
    loop = tail[2]
    if not (isinstance(loop, ast.For) and _src(loop.target) == "i" and _src(loop.iter) == "range(len(jackknife_samples))"
            and len(loop.body) == 1 and isinstance(loop.body[0], ast.AugAssign) and isinstance(loop.body[0].op, ast.Add)
            and _src(loop.body[0].target) == "variance_samples" and not loop.orelse):
        raise TranslateError("expected `for i in range(len(jackknife_samples)): variance_samples += <term>`", loop, path)
    env_k = {"jackknife_samples[i]": "theta", "mean_samples": "mean"}
    term = ratexpr.expr(loop.body[0].value, env_k, path, ratexpr.FIELD)
    env_f = {"len(data)": "n", "delete_n_points": "d", "len(jackknife_samples)": "N"}
    env_z = {"delete_n_points": "d_int"}

    def scaling(st):
        if not (isinstance(st, ast.AugAssign) and isinstance(st.op, ast.Mult) and _src(st.target) == "variance_samples"):
            raise TranslateError("expected `variance_samples *= <factor>`", st, path)
        return ratexpr.expr(st.value, env_f, path, ratexpr.FIELD)

    def chain(st):
        if isinstance(st, ast.If):
            if not (len(st.body) == 1 and len(st.orelse) == 1 and isinstance(st.test, ast.Compare)
                    and len(st.test.ops) == 1 and isinstance(st.test.ops[0], ast.Eq)):
                raise TranslateError("expected `if delete_n_points == <const>: ... else: ...`", st, path)
            c = ratexpr.compare(st.test, env_z, path)
            return f"(if {c} then {chain(st.body[0])} else {chain(st.orelse[0])})"
        return scaling(st)

    factor = chain(tail[3])
    if _src(tail[4]) != "return np.sqrt(variance_samples)":
        raise TranslateError("expected `return np.sqrt(variance_samples)`", tail[4], path)

    # ---- _randomly_delete_data -------------------------------------------------------------------------
    g = find_func(cls, "_randomly_delete_data")
    gb = strip_doc(g.body)
    if len(gb) != 4:
        raise TranslateError("_randomly_delete_data: expected copy, sample, delete, return", g, path)
    if _src(gb[0]) != "data = data.copy()":
        raise TranslateError("_randomly_delete_data must copy the data first", gb[0], path)
    st = gb[1]
    if not (isinstance(st, ast.Assign) and _src(st.targets[0]) == "delete_indices" and isinstance(st.value, ast.Call)
            and _src(st.value.func) == "rd.sample" and len(st.value.args) == 2 and not st.value.keywords
            and _src(st.value.args[0]) == "range(len(data))"):
        raise TranslateError("expected `delete_indices = rd.sample(range(len(data)), <count>)`", st, path)
    cnt = st.value.args[1]
    if not (isinstance(cnt, ast.Call) and _src(cnt.func) == "int" and len(cnt.args) == 1):
        raise TranslateError("sample size must be int(...)", cnt, path)
    dn2 = "(Qtrunc " + ratexpr.expr(cnt.args[0], env_q, path, ratexpr.QOPS) + ")"
    if dn2 != dn:
        raise TranslateError("the number of deleted points differs between _randomly_delete_data and compute_jackknife_estimates", st, path)
    _expect(gb[2:], ["data = np.delete(data, delete_indices, axis=0)", "return data"], "_randomly_delete_data", g, path)

    # ---- _helper_unpack, _compute_one_jackknife_sample, _apply_function_to_reduced_data, the pool --------
    h = find_func(cls, "_helper_unpack")
    hb = strip_doc(h.body)
    if len(hb) != 2:
        raise TranslateError("_helper_unpack: expected reseed and return", h, path)
    st = hb[0]
    if not (isinstance(st, ast.Expr) and isinstance(st.value, ast.Call) and _src(st.value.func) == "rd.seed"
            and len(st.value.args) == 1 and not st.value.keywords):
        raise TranslateError("_helper_unpack must start with rd.seed(<expr>)", st, path)
    seed = ratexpr.expr(st.value.args[0], {"instance.seed": "seed", "index": "index"}, path, ratexpr.ZOPS)
    _expect(hb[1:], ["return instance._compute_one_jackknife_sample(data, function, *args, **kwargs)"], "_helper_unpack", h, path)
    o = find_func(cls, "_compute_one_jackknife_sample")
    _expect(strip_doc(o.body), ["reduced_data = self._randomly_delete_data(data)",
                                "return self._apply_function_to_reduced_data(reduced_data, function, *args, **kwargs)"],
            "_compute_one_jackknife_sample", o, path)
    a = find_func(cls, "_apply_function_to_reduced_data")
    _expect(strip_doc(a.body), ["return function(reduced_data, *args, **kwargs)"], "_apply_function_to_reduced_data", a, path)
    p = find_func(cls, "_compute_jackknife_samples")
    pb = strip_doc(p.body)
    if len(pb) != 4 or not isinstance(pb[2], ast.With):
        raise TranslateError("_compute_jackknife_samples: expected two checks, the pool block, the return", p, path)
    w = pb[2]
    if not (len(w.body) == 1 and _src(w.body[0]) ==
            "results = pool.starmap(self._helper_unpack, [(self, index, data, function, args, kwargs) for index in range(self.number_samples)])"):
        raise TranslateError("the pool must map _helper_unpack over range(self.number_samples) with starmap", w, path)
    if _src(pb[3]) != "return np.array(results)":
        raise TranslateError("expected `return np.array(results)`", pb[3], path)

    out += ["(* " + _src(body[0]) + " *)\n",
            f"Definition gen_jk_delete_n (delete_fraction : Q) (n : Z) : Z :=\n  {dn}.\n",
            f"Definition gen_jk_min_delete : Z := {min_delete}%Z.\n\n",
            "(* " + _src(hb[0]) + " *)\n",
            f"Definition gen_jk_task_seed (seed index : Z) : Z :=\n  {seed}.\n\n",
            "(* explicit carrier parameters (no Section): the signatures do not depend on which operations the source uses *)\n",
            "(* " + _src(loop.body[0]) + " *)\n",
            f"Definition gen_jk_term {SIG} (theta mean : K) : K :=\n  {term}.\n",
            "(* " + " ".join(_src(tail[3]).split()) + " *)\n",
            f"Definition gen_jk_factor {SIG} (n d N : K) (d_int : Z) : K :=\n  {factor}.\n"]
    return "".join(out)


def main(outdir):
    return write_if_changed(outdir + "/GenJackknife.v", generate())

"""Gen/GenJetsRest.v from src/sparkx/JetAnalysis.py: what gen_jets.py leaves out - the two getters, and
perform_jet_finding once more with the `jet_algorithm` argument taken as what it is (a Python value, normally one of the
ints of fastjet.JetAlgorithm) and fastjet's own exception class kept apart.  Runtime: Model/JetsRt.v + Model/JetsRestRt.v.

Translated AS WRITTEN (statements in order, conditions with their operators and constants, argument order, defaults):
  get_jets                    -> gen_get_jets                  : jself -> pyres (list row)
  get_associated_particles    -> gen_get_associated_particles  : jself -> pyres (list (list row))
  perform_jet_finding         -> genx_perform_jet_finding      : ... -> pyalg -> file * xres (jself * unit)
  defaults of its keyword parameters -> genx_default_perform_jet_finding_<parameter>
Proofs/C20_SourceRest.v proves them equal to the hand model (Model/Jets.v get_jets / get_associated_particles / perform)
resp. to a closed form of the dispatch on `jet_algorithm`.

The translation is the one of gen_jets.py (class Tr, reused; read its docstring for the conventions: locals as v_<name>,
loops as folds over the carried variables, `self` and the one file threaded, None-able attributes, `l[i]` -> IndexError ...)
with these additions:
  * `[e for x in l]` whose element may raise (an `l[i]`)            -> mapE (the first failing element ends it)
  * `l[a:]` with an int expression `a` (no upper bound, no step)     -> py_slice_from l a;  every other slice aborts
  * in genx_perform_jet_finding every result is an `xres` (XOk / XErr, loops xloopE / xloopF): the builtin classes are
    wrapped as `XPy cls`, fastjet's class is FastJetError.  The methods it calls (parameter check, PseudoJets, the cone
    scans, hole subtraction, write_jet_output) are NOT translated again: the call is the definition of Gen/GenJets.v
    applied to the oracles it depends on (computed here from the translation of gen_jets.py; a wrong list does not
    type-check), its exception re-raised as `XPy e`
  * `fj.<name>_algorithm` is the constant fj_<name>_algorithm of JetsRestRt.v (an int); as a value (default, argument)
    it is `AInt fj_<name>`; `x == fj.<name>` / `fj.<name> == x` with x the algorithm argument is `alg_is x fj_<name>`
    (both operands variables: not accepted)
  * fj.JetDefinition(a, R) / fj.JetDefinition(a, R, p) -> fjx_JetDefinition a R None / (Some p), may raise;
    fj.ClusterSequence(l, d) -> fjx_ClusterSequence l d, may raise; c.inclusive_jets(b) -> fjx_inclusive_jets o_clusterx c b
  * print(...) of a jet definition evaluates its description, which may raise: fjx_description; string constants and a
    selector print without effect; an `if` whose body only prints is kept with its condition (the exception happens only
    when the condition holds); warnings.warn has no effect
  * an if/else whose branches may raise and assign a local is joined as `match (if c then .. else ..) with XErr e => raise
    | XOk v => rest` (gen_jets.py duplicates the rest of the block in that case)
Oracles (section variables): o_clusterx (the jets fastjet finds for a jet definition and the input momenta), o_perp,
o_eta, o_phi, o_dphi, o_sqrt as in Gen/GenJets.v.  Nothing is pinned textually.
Fail-closed: every statement / expression shape that is not accepted by Tr or by the additions raises TranslateError.
"""
import ast
import re
from .core import *
from . import gen_jets as GJ
from .gen_jets import Tr, Meth, NeedKind, vname, tup, pat, assigned, is_none_test, terminal, only_prints, KINDS, LEV, PAIR

SRC = GJ.SRC
OUTPUTS = ["GenJetsRest"]

ROWS = ("list", "row")
GETTERS = [
    Meth("get_jets", [], ROWS, raises=True),
    Meth("get_associated_particles", [], ("list", ROWS), raises=True),
]
PERFORM = Meth("perform_jet_finding", [LEV, "Q", PAIR, PAIR, "fname", "bool", "alg"], "unit", fs=True, self_w=True)
PERFORM.coq = "genx_perform_jet_finding"
FJ_ALGS = ["kt_algorithm", "cambridge_algorithm", "cambridge_aachen_algorithm", "antikt_algorithm", "genkt_algorithm",
           "cambridge_for_passive_algorithm", "genkt_for_passive_algorithm", "ee_kt_algorithm", "ee_genkt_algorithm",
           "plugin_algorithm", "undefined_jet_algorithm"]
ORACLES = ["o_cluster", "o_perp", "o_eta", "o_phi", "o_dphi", "o_sqrt"]          # declaration order in Gen/GenJets.v


def xcty(t):
    if t == "alg":
        return "pyalg"
    if t == "jetdef":
        return "xjetdef"
    if t == "cseq":
        return "xcseq"
    if t == "algconst":
        return "Z"
    return GJ.cty(t)


# ---------------------------------------------------------------------------------------------------------- getters
class TrG(Tr):
    """Tr + comprehension with a raising element + `l[a:]`"""

    def ex(self, n, env, want=None):
        if "@" + ast.unparse(n) not in env:
            if isinstance(n, ast.ListComp):
                return self.listcomp(n, env)
            if isinstance(n, ast.Subscript) and isinstance(n.slice, ast.Slice):
                return self.slice_from(n, env)
        return super().ex(n, env, want)

    def listcomp(self, n, env):
        if len(n.generators) != 1 or n.generators[0].ifs or n.generators[0].is_async \
                or not isinstance(n.generators[0].target, ast.Name):
            raise self.err("comprehension shape not accepted", n)
        g = n.generators[0]
        it, ity = self.ex(g.iter, env)
        if not (isinstance(ity, tuple) and ity[0] == "list" and ity[1] is not None):
            raise self.err("comprehension over a non-list", n)
        x = vname(g.target.id)
        saved, self.binds = self.binds, []
        try:
            e, ety = self.ex(n.elt, self.bind(env, g.target.id, x, ity[1]))
            inner = self.binds
        finally:
            self.binds = saved
        if ety in ("status?", "fname") or (isinstance(ety, tuple) and ety[0] == "fh"):
            raise self.err("comprehension element not accepted", n)
        if not inner:
            return f"(map (fun {x} => {e}) {it})", ("list", ety)
        if self.kind == "pure":
            raise NeedKind("exn")
        if any(b[0] != "opt" for b in inner):
            raise self.err("comprehension element: only an index may raise here", n)
        body = "(POk " + e + ")"
        for _, var, term, cls in reversed(inner):                 # the element function is a pyres whatever the method is
            body = f"match {term} with\n| None => (PErr {cls})\n| Some {var} =>\n{body}\nend"
        r = self.fresh("l")
        self.binds.append(("res", r, f"(mapE (fun {x} =>\n{body}) {it})"))
        return r, ("list", ety)

    def slice_from(self, n, env):
        sl = n.slice
        if sl.lower is None or sl.upper is not None or sl.step is not None:
            raise self.err("slice not accepted (only l[a:])", n)
        v, tv = self.ex(n.value, env)
        if not (isinstance(tv, tuple) and tv[0] == "list" and tv[1] is not None):
            raise self.err(f"slice of a {tv} not accepted", n)
        i, ti = self.ex(sl.lower, env, "Z")
        if ti != "Z":
            raise self.err("slice start must be an int", n)
        return f"(py_slice_from {v} {i})", tv


# ---------------------------------------------------------------------------------------- perform_jet_finding again
def is_print(s):
    return isinstance(s, ast.Expr) and isinstance(s.value, ast.Call) and isinstance(s.value.func, ast.Name) \
        and s.value.func.id == "print"


class TrX(TrG):
    """perform_jet_finding over xres: own result constructors, fastjet calls that may raise, callee = Gen/GenJets.v"""

    def __init__(self, meth, fdef, table, path, oracle_args):
        super().__init__(meth, fdef, table, path)
        self.oracle_args = oracle_args

    # -------------------------------------------------------------- results
    def raise_(self, cls, x=False):
        if self.kind == "pure":
            raise NeedKind("exn")
        e = cls if x else f"(XPy {cls})"
        return f"(fs, XErr {e})" if self.kind == "fs" else f"(XErr {e})"

    def ok(self, val):
        return val if self.kind == "pure" else f"(XOk {val})" if self.kind == "exn" else f"(fs, XOk {val})"

    def wrap(self, binds, inner):
        for b in reversed(binds):
            if b[0] == "opt":
                _, var, term, cls = b
                inner = f"match {term} with\n| None => {self.raise_(cls)}\n| Some {var} =>\n{inner}\nend"
            elif b[0] == "res":
                _, p, term = b
                inner = f"match {term} with\n| PErr e_ => {self.raise_('e_')}\n| POk {p} =>\n{inner}\nend"
            elif b[0] == "xres":
                _, p, term = b
                inner = f"match {term} with\n| XErr e_ => {self.raise_('e_', x=True)}\n| XOk {p} =>\n{inner}\nend"
            elif b[0] == "fsres":
                _, p, term = b
                if self.kind != "fs":
                    raise NeedKind("fs")
                inner = f"match {term} with\n| (fs, PErr e_) => (fs, XErr (XPy e_))\n| (fs, POk {p}) =>\n{inner}\nend"
            else:
                raise self.err("internal: bind kind " + repr(b[0]))
        return inner

    # -------------------------------------------------------------- fastjet values
    def coerce(self, text, ty, want, node=None):
        if ty == "algconst" and want == "alg":
            return f"(AInt {text})"
        return super().coerce(text, ty, want, node)

    def attribute(self, n, env):
        if isinstance(n.value, ast.Name) and n.value.id == "fj" and "fj" not in env:
            if n.attr in FJ_ALGS:
                return "fj_" + n.attr, "algconst"
            raise self.err("fastjet name not accepted: fj." + n.attr, n)
        return super().attribute(n, env)

    def cmp1(self, op, a, ta, b, tb, node):
        if {ta, tb} == {"alg", "algconst"} and isinstance(op, (ast.Eq, ast.NotEq)):
            if ta == "algconst":
                a, b = b, a
            t = f"(alg_is {a} {b})"
            return t if isinstance(op, ast.Eq) else f"(negb {t})"
        if "alg" in (ta, tb) or "algconst" in (ta, tb):
            raise self.err("comparison on a jet algorithm not accepted", node)
        return super().cmp1(op, a, ta, b, tb, node)

    def call(self, n, env, want):
        f = n.func
        if isinstance(f, ast.Attribute) and isinstance(f.value, ast.Name) and f.value.id == "fj" and "fj" not in env:
            if f.attr == "JetDefinition":
                if len(n.args) == 3:
                    a = self.args(n, env, ["alg", "Q", "Q"], "JetDefinition")
                    extra = f"(Some {a[2]})"
                else:
                    a = self.args(n, env, ["alg", "Q"], "JetDefinition")
                    extra = "None"
                x = self.fresh("d")
                self.binds.append(("xres", x, f"(fjx_JetDefinition {a[0]} {a[1]} {extra})"))
                return x, "jetdef"
            if f.attr == "ClusterSequence":
                a = self.args(n, env, [("list", "vec4"), "jetdef"], "ClusterSequence")
                x = self.fresh("c")
                self.binds.append(("xres", x, f"(fjx_ClusterSequence {a[0]} {a[1]})"))
                return x, "cseq"
        if isinstance(f, ast.Attribute) and f.attr == "inclusive_jets":
            v, tv = self.ex(f.value, env)
            if tv != "cseq":
                raise self.err(f"inclusive_jets of a {tv}", n)
            a = self.args(n, env, ["ext"], "inclusive_jets")
            return f"(fjx_inclusive_jets o_clusterx {v} {a[0]})", ("list", "vec4")
        return super().call(n, env, want)

    def print_binds(self, c, env):
        """what evaluating the arguments of print(...) can raise"""
        if c.keywords:
            raise self.err("print with keyword arguments not accepted", c)
        out = []
        for a in c.args:
            if isinstance(a, ast.Constant) and isinstance(a.value, str):
                continue
            if isinstance(a, ast.Name) and a.id in env and env[a.id][1] == "jetdef":
                out.append(("xres", "_", f"(fjx_description {env[a.id][0]})"))
                continue
            if isinstance(a, ast.Name) and a.id in env and env[a.id][1] == "selector":
                continue
            raise self.err("print argument not accepted: " + ast.unparse(a)[:60], a)
        return out

    def method_call(self, n, env):
        name = n.func.attr
        if name not in self.table:
            raise self.err("call of an unknown method self." + name, n)
        callee, cdef = self.table[name]
        pnames = [a.arg for a in cdef.args.args[1:]]
        given = dict(zip(pnames, n.args))
        if len(n.args) > len(pnames):
            raise self.err("too many arguments for self." + name, n)
        for kw in n.keywords:
            if kw.arg is None or kw.arg not in pnames or kw.arg in given:
                raise self.err("keyword argument not accepted for self." + name, n)
            given[kw.arg] = kw.value
        ndef = len(cdef.args.defaults)
        out = []
        for i, (p, ty) in enumerate(zip(pnames, callee.ptypes)):
            if p in given:
                t, tt_ = self.ex(given[p], env, ty if ty != "fname" else None)
                if ty == "fname":
                    if tt_ != "fname":
                        raise self.err("file name argument expected", n)
                    continue
                out.append(self.coerce(t, tt_, ty, given[p]))
            elif i >= len(pnames) - ndef:
                out.append(f"gen_default_{callee.coq[4:]}_{p}")
            else:
                raise self.err(f"argument {p} of self.{name} missing", n)
        if "self" not in env:
            raise self.err("self is not available here", n)
        if callee.py not in self.oracle_args:
            raise self.err("call of a method that Gen/GenJets.v does not define: self." + name, n)
        head = [callee.coq] + self.oracle_args[callee.py] + (["self"] if callee.uses_self else []) + (["fs"] if callee.fs else [])
        text = "(" + " ".join(head + out) + ")"
        if callee.kind == "pure":
            return text, callee.ret
        x = self.fresh("r")
        p = f"(self, {x})" if callee.self_w else x
        if callee.self_w:
            self.self_rebound = True
        self.binds.append(("fsres" if callee.fs else "res", p, text))
        if callee.fs and self.kind != "fs":
            raise NeedKind("fs")
        return x, callee.ret

    # -------------------------------------------------------------- statements
    def blk(self, stmts, env, k, loop):
        if stmts and is_print(stmts[0]):
            binds = self.print_binds(stmts[0].value, env)
            return self.wrap(binds, self.blk(stmts[1:], env, k, loop))
        return super().blk(stmts, env, k, loop)

    def if_(self, s, rest, env, k, loop):
        body, orelse = s.body, s.orelse
        if only_prints(body) and not orelse:
            c, binds = self.simple(lambda: self.truth(s.test, env))
            pb = []
            for st in body:
                pb += self.print_binds(st.value, env)
            if not pb:
                return self.wrap(binds, self.blk(rest, env, k, loop))
            if self.kind == "pure":
                raise NeedKind("exn")
            saved_kind, self.kind = self.kind, "exn"
            try:
                a = self.wrap(pb, self.ok("tt"))
            finally:
                self.kind = saved_kind
            after = self.blk(rest, env, k, loop)
            return self.wrap(binds, f"match (if {c}\nthen {a}\nelse (XOk tt)) with\n| XErr e_ => {self.raise_('e_', x=True)}\n"
                                    f"| XOk _ =>\n{after}\nend")
        # guards that narrow
        nt = is_none_test(s.test)
        guard = None
        if nt is not None and nt[1] and terminal(body):
            src = self.option_source(nt[0], env)
            if src is not None:
                guard = (src[0], nt[0], src[1])
        if guard is not None:
            v = self.fresh("x")
            a = self.blk(body, env, k, loop)
            b = self.blk(orelse + rest, self.narrow(env, guard[1], v, guard[2]), k, loop)
            return f"match {guard[0]} with\n| None => {a}\n| Some {v} =>\n{b}\nend"
        c, binds = self.simple(lambda: self.truth(s.test, env))
        if terminal(body):
            a = self.blk(body, env, k, loop)
            b = self.blk(orelse + rest, env, k, loop)
            return self.wrap(binds, f"if {c}\nthen {a}\nelse\n{b}")
        if terminal(orelse):
            a = self.blk(body + rest, env, k, loop)
            b = self.blk(orelse, env, k, loop)
            return self.wrap(binds, f"if {c}\nthen\n{a}\nelse {b}")
        # both branches fall through: join on the variables they assign - as a plain value, else as a value that may
        # raise; else duplicate the rest
        av, bv = assigned(body), assigned(orelse)
        names = [x for x in av + [y for y in bv if y not in av] if x in env or x == "self" or (x in av and x in bv)]
        outer_kind, outer_n = self.kind, self.n
        for jk in [j for j in ("pure", "exn") if KINDS.index(j) <= KINDS.index(outer_kind)]:
            if jk == "exn" and outer_kind == "pure":
                continue
            self.kind, self.n = jk, outer_n
            seen = []
            try:
                def kj(e):
                    seen.append(e)
                    return self.ok(tup([("self" if x == "self" else e[x][0]) for x in names]))
                a = self.blk(body, env, kj, None)
                b = self.blk(orelse, env, kj, None)
            except NeedKind:
                continue
            finally:
                self.kind = outer_kind
            e2 = dict(env)
            if "self" in names:
                e2 = {kk: v for kk, v in e2.items() if not (kk.startswith("@") and v[2] == "self")}
            for x in names:
                if x == "self":
                    continue
                tys = [e[x][1] for e in seen]
                ty = tys[0]
                for o in tys[1:]:
                    _, _, ty = self.unify("a", ty, "b", o, s)
                e2 = self.bind(e2, x, vname(x), ty)
            cnames = [("self" if x == "self" else vname(x)) for x in names]
            after = self.blk(rest, e2, k, loop)
            if jk == "pure":
                return self.wrap(binds, f"let {pat(cnames)} := (if {c}\nthen {a}\nelse {b}) in\n" + after)
            return self.wrap(binds, f"match (if {c}\nthen {a}\nelse {b}) with\n| XErr e_ => {self.raise_('e_', x=True)}\n"
                                    f"| XOk {tup(cnames) if cnames else '_'} =>\n{after}\nend")
        self.kind, self.n = outer_kind, outer_n
        a = self.blk(body + rest, env, k, loop)
        b = self.blk(orelse + rest, env, k, loop)
        return self.wrap(binds, f"if {c}\nthen\n{a}\nelse\n{b}")

    def for_(self, s, rest, env, k, loop):
        if s.orelse:
            raise self.err("for-else not accepted", s)
        it = s.iter
        start = None
        if isinstance(it, ast.Call) and isinstance(it.func, ast.Name) and it.func.id == "enumerate" and "enumerate" not in env:
            if not (isinstance(s.target, ast.Tuple) and len(s.target.elts) == 2 and all(isinstance(e, ast.Name) for e in s.target.elts)):
                raise self.err("enumerate needs a target `i, x`", s)
            if len(it.args) == 2 and not it.keywords:
                start = it.args[1]
            elif len(it.args) == 1 and len(it.keywords) == 1 and it.keywords[0].arg == "start":
                start = it.keywords[0].value
            elif len(it.args) == 1 and not it.keywords:
                start = ast.Constant(value=0)
            else:
                raise self.err("enumerate arguments not accepted", s)
            seq_node = it.args[0]
        else:
            if not isinstance(s.target, ast.Name):
                raise self.err("loop target not accepted", s)
            seq_node = it

        def comp():
            l, tl = self.ex(seq_node, env)
            st = self.ex(start, env, "Z") if start is not None else None
            return l, tl, st
        (l, tl, st), binds = self.simple(comp)
        if not (isinstance(tl, tuple) and tl[0] == "list" and tl[1] is not None):
            raise self.err(f"loop over a {tl}", s)
        if start is not None:
            if st[1] != "Z":
                raise self.err("enumerate start must be an int", s)
            i, x = s.target.elts[0].id, s.target.elts[1].id
            seq = f"(enumerate_from {st[0]} {l})"
            ebody = self.bind(self.bind(env, i, vname(i), "Z"), x, vname(x), tl[1])
            targets = [i, x]
        else:
            x = s.target.id
            seq = l
            ebody = self.bind(env, x, vname(x), tl[1])
            targets = [x]
        asg = assigned(s.body)
        if "self" in asg:
            raise self.err("attribute store inside a loop not accepted", s)
        carried = [n for n in env if not n.startswith("@") and n in asg and n not in targets]
        cn = [vname(n) for n in carried]
        st0 = tup([env[n][0] for n in carried])
        for kind in KINDS[:KINDS.index(self.kind) + 1]:
            saved_kind, saved_n = self.kind, self.n
            self.kind = kind
            envs = []
            try:
                def kb(e):
                    envs.append(e)
                    return self.ok(tup([e[n][0] for n in carried]))
                btext = self.blk(s.body, ebody, kb, kb)
            except NeedKind:
                self.n = saved_n
                continue
            finally:
                self.kind = saved_kind
            e2 = dict(env)
            for n in carried:
                ty = env[n][1]
                for e in envs:
                    _, _, ty = self.unify("a", ty, "b", e[n][1], s)
                e2 = self.bind(e2, n, vname(n), ty)
            after = self.blk(rest, e2, k, loop)
            if not cn:
                sp = "(_ : unit)"
            elif len(cn) == 1:
                sp = f"({cn[0]} : {xcty(e2[carried[0]][1])})"
            else:
                sp = "'((" + ", ".join(cn) + ") : " + " * ".join(xcty(e2[n][1]) for n in carried) + ")"
            xa = f"'(({vname(targets[0])}, {vname(targets[1])}) : Z * {xcty(tl[1])})" if start is not None \
                else f"({vname(targets[0])} : {xcty(tl[1])})"
            if kind == "pure":
                txt = f"let {pat(cn)} := fold_left (fun {sp} {xa} =>\n{btext}) {seq} {st0} in\n{after}"
            elif kind == "exn":
                txt = (f"match xloopE (fun {sp} {xa} =>\n{btext}) {seq} {st0} with\n"
                       f"| XErr e_ => {self.raise_('e_', x=True)}\n| XOk {tup(cn) if cn else '_'} =>\n{after}\nend")
            else:
                txt = (f"match xloopF (fun fs {sp} {xa} =>\n{btext}) {seq} fs {st0} with\n"
                       f"| (fs, XErr e_) => (fs, XErr e_)\n| (fs, XOk {tup(cn) if cn else '_'}) =>\n{after}\nend")
            return self.wrap(binds, txt)
        raise NeedKind("fs")

    # -------------------------------------------------------------- the whole method
    def method(self):
        f, m = self.f, self.m
        a = f.args
        if a.vararg or a.kwarg or a.kwonlyargs or a.posonlyargs or not a.args or a.args[0].arg != "self":
            raise self.err("parameter list shape not accepted", f)
        pn = [x.arg for x in a.args[1:]]
        if len(pn) != len(m.ptypes):
            raise self.err(f"expected {len(m.ptypes)} parameters, found {len(pn)}: {pn}", f)
        env = {"self": ("self", "self")}
        hdr = []
        for p, ty in zip(pn, m.ptypes):
            env[p] = (vname(p), ty)
            if ty != "fname":
                hdr.append(f"({vname(p)} : {xcty(ty)})")
        body = self.blk(strip_doc(f.body), env, lambda e: self.ret("tt", "unit", f), None)
        head = ["(self : jself)", "(fs : file)"] + hdr
        defs = []
        nd = len(a.defaults)
        for p, ty, d in zip(pn[len(pn) - nd:], m.ptypes[len(pn) - nd:], a.defaults):
            saved, self.binds = self.binds, []
            t, tt_ = self.ex(d, {}, ty)
            if self.binds:
                raise self.err("default value not accepted", d)
            self.binds = saved
            defs.append(f"(* {p} = {ast.unparse(d)} *)\nDefinition genx_default_{m.py}_{p} : {xcty(ty)} := {self.coerce(t, tt_, ty, d)}.\n")
        return "".join(defs) + f"Definition {m.coq} {' '.join(head)} : (file * (xres (jself * unit))) :=\n{body}.\n"


def oracle_usage(cls, path):
    """for every method of Gen/GenJets.v: the oracles its definition is abstracted over when the section is closed
    (those that occur in its text or in the text of a definition it uses), in declaration order"""
    table = {}
    for m in GJ.METHODS:
        fdef = find_func(cls, m.py)
        m.uses_self = any(isinstance(x, ast.Name) and x.id == "self" for b in fdef.body for x in ast.walk(b))
        table[m.py] = (m, fdef)
    direct, uses = {}, {}
    for m in GJ.METHODS:
        text = Tr(m, table[m.py][1], table, path).method()
        toks = set(re.findall(r"[A-Za-z_][A-Za-z_0-9']*", text))
        direct[m.py] = {o for o in ORACLES if o in toks}
        uses[m.py] = {o.py for o in GJ.METHODS if o is not m and o.coq in toks}
    closed = {}
    for m in GJ.METHODS:
        seen, todo = set(), [m.py]
        while todo:
            x = todo.pop()
            if x in seen:
                continue
            seen.add(x)
            todo += list(uses[x])
        got = set().union(*[direct[x] for x in seen])
        closed[m.py] = [o for o in ORACLES if o in got]
    return table, closed


def generate():
    tree, path = parse(SRC)
    cls = find_class(tree, "JetAnalysis")
    gj_table, usage = oracle_usage(cls, path)
    out = [HEADER,
           "(* JetAnalysis.py: the getters and perform_jet_finding with the algorithm argument as a Python value, as written,\n"
           "   over Model/JetsRt.v + Model/JetsRestRt.v; see tools/py2coq/gen_jets_rest.py for the conventions *)\n"
           "From Coq Require Import List ZArith QArith Bool String.\n"
           "From SX Require Import Model.Jets Model.JetsRt Model.JetsRestRt Gen.GenJets.\nImport ListNotations.\n\n"]
    for m in GETTERS:
        fdef = find_func(cls, m.py)
        m.uses_self = True
        out.append(f"(* ---- {m.py} ---- *)\n" + TrG(m, fdef, {}, path).method() + "\n")
    out.append("Section GenX.\nVariable o_clusterx : xjetdef -> list vec4 -> list vec4.\nVariables o_perp o_eta o_phi : vec4 -> Q.\n"
               "Variable o_dphi : vec4 -> vec4 -> Q.\nVariable o_sqrt : Q -> Q.\n\n")
    fdef = find_func(cls, PERFORM.py)
    PERFORM.uses_self = True
    callees = {k: v for k, v in gj_table.items() if k != PERFORM.py and k != "read_jet_data"}
    if "o_cluster" in set().union(*[set(usage[k]) for k in callees]):
        raise TranslateError("a method called by perform_jet_finding clusters itself: not accepted", fdef, path)
    out.append(f"(* ---- {PERFORM.py} ---- *)\n" + TrX(PERFORM, fdef, callees, path, usage).method() + "\n")
    out.append("End GenX.\n")
    return "".join(out)


def main(outdir):
    return write_if_changed(outdir + "/GenJetsRest.v", generate())

"""`ratexpr` extractor: scalar arithmetic over named quantities, with division  ->  a Coq term.

Accepted grammar (everything else aborts, fail-closed):
  e ::= e + e | e - e | e * e | e / e | -e | +e | e ** c     (c an integral literal 0..64)
      | <atom>                                               (source text listed in `env`, e.g. `len(data)`,
                                                              `self.seed`, `number_events`, `bins[i]`)
      | c                                                     (int / float literal; a float literal is the exact
                                                              rational it denotes)
      | int(e)                                                (only when the ops table has `trunc`)

`env` maps the *unparsed source text* of an atom to the Coq term that stands for it.
Two ops tables: FIELD (abstract carrier K with kadd/ksub/kmul/kdiv/kopp, constants through kz) and
QOPS (stdlib Q, `int()` = Qtrunc of Lib/Py.v) and ZOPS (Python ints: + - * only).
"""
import ast
from fractions import Fraction
from .core import TranslateError, int_const


class Ops:
    def __init__(self, add, sub, mul, div, opp, const, pow_=None, trunc=None):
        self.add, self.sub, self.mul, self.div, self.opp = add, sub, mul, div, opp
        self.const, self.pow_, self.trunc = const, pow_, trunc


def _kconst(fr, node, path):
    if fr.denominator != 1:
        raise TranslateError(f"non-integral constant {float(fr)!r} over an abstract field", node, path)
    n = fr.numerator
    return f"(kz k0 k1 kadd kmul kopp {n}%Z)" if n >= 0 else f"(kopp (kz k0 k1 kadd kmul kopp {-n}%Z))"


def _qconst(fr, node, path):
    n, d = fr.numerator, fr.denominator
    return f"({n} # {d})%Q" if n >= 0 else f"(({n}) # {d})%Q"


def _zconst(fr, node, path):
    if fr.denominator != 1:
        raise TranslateError("non-integral constant in an integer expression", node, path)
    n = fr.numerator
    return f"{n}%Z" if n >= 0 else f"({n})%Z"


FIELD = Ops("kadd", "ksub", "kmul", "kdiv", "kopp", _kconst, pow_=lambda b, n: f"(kpow k1 kmul {b} {n}%nat)")
QOPS = Ops("Qplus", "Qminus", "Qmult", "Qdiv", "Qopp", _qconst,
           pow_=lambda b, n: f"(Qpower {b} {n}%Z)", trunc=lambda e: f"(inject_Z (Qtrunc {e}))")
ZOPS = Ops("Z.add", "Z.sub", "Z.mul", None, "Z.opp", _zconst)


def _literal(node):
    """exact value of a numeric literal (bool excluded) or None"""
    if isinstance(node, ast.Constant) and isinstance(node.value, (int, float)) and not isinstance(node.value, bool):
        v = node.value
        if isinstance(v, float) and (v != v or v in (float("inf"), float("-inf"))):
            return None
        return Fraction(v)
    return None


def expr(node, env, path, ops):
    src = ast.unparse(node)
    if src in env:
        return env[src]
    if isinstance(node, ast.BinOp):
        if isinstance(node.op, ast.Pow):
            if ops.pow_ is None:
                raise TranslateError("power not accepted here", node, path)
            n = int_const(node.right, path)
            if n < 0 or n > 64:
                raise TranslateError("exponent out of range", node, path)
            return ops.pow_(expr(node.left, env, path, ops), n)
        table = {ast.Add: ops.add, ast.Sub: ops.sub, ast.Mult: ops.mul, ast.Div: ops.div}
        for t, name in table.items():
            if isinstance(node.op, t):
                if name is None:
                    raise TranslateError("operator not accepted here: " + type(node.op).__name__, node, path)
                return f"({name} {expr(node.left, env, path, ops)} {expr(node.right, env, path, ops)})"
        raise TranslateError("operator not accepted: " + type(node.op).__name__, node, path)
    if isinstance(node, ast.UnaryOp) and isinstance(node.op, ast.USub):
        return f"({ops.opp} {expr(node.operand, env, path, ops)})"
    if isinstance(node, ast.UnaryOp) and isinstance(node.op, ast.UAdd):
        return expr(node.operand, env, path, ops)
    if isinstance(node, ast.Call) and isinstance(node.func, ast.Name) and node.func.id == "int" \
            and len(node.args) == 1 and not node.keywords:
        if ops.trunc is None:
            raise TranslateError("int() not accepted here", node, path)
        return ops.trunc(expr(node.args[0], env, path, ops))
    lit = _literal(node)
    if lit is not None:
        return ops.const(lit, node, path)
    raise TranslateError("expression not accepted: " + src[:80], node, path)


def compare(node, env, path, ops_name="Z"):
    """`a OP b` (single comparison, OP in < <= > >= ==) over Python ints -> Coq bool term"""
    if not (isinstance(node, ast.Compare) and len(node.ops) == 1):
        raise TranslateError("expected a single comparison", node, path)
    a = expr(node.left, env, path, ZOPS)
    b = expr(node.comparators[0], env, path, ZOPS)
    op = node.ops[0]
    if isinstance(op, ast.Lt):
        return f"({a} <? {b})%Z"
    if isinstance(op, ast.LtE):
        return f"({a} <=? {b})%Z"
    if isinstance(op, ast.Gt):
        return f"({b} <? {a})%Z"
    if isinstance(op, ast.GtE):
        return f"({b} <=? {a})%Z"
    if isinstance(op, ast.Eq):
        return f"({a} =? {b})%Z"
    raise TranslateError("comparison not accepted: " + type(op).__name__, node, path)


def is_inf(node):
    """np.inf / numpy.inf / math.inf / float('inf') / float("inf")"""
    s = ast.unparse(node)
    return s in ("np.inf", "numpy.inf", "math.inf", "float('inf')", 'float("inf")', "np.Inf", "np.infty")

"""`npvec` extractor: straight-line numpy code over per-event vectors  ->  Coq terms.

A value has a SHAPE (S scalar, V one entry per event) and a TYPE (R real, C complex).  Real values are terms
over the abstract carrier K, complex values are pairs (Lib/Cpx.v).  A V-shaped value is a term with the free
variable `e` (the event); a let-bound V name is `fun e => ...` and is used as `(name e)`.

Accepted expressions (anything else raises TranslateError - fail closed):
  names bound earlier, integral numeric literals, + - * / ** (integral exponent), unary -,
  x.real x.imag x.conj(), np.real/np.imag/np.conj/np.conjugate/np.square/np.power(x,c)/np.multiply/np.array(x),
  np.sum(v), np.inner(a,b) = sum a*b, np.vdot(a,b) = sum conj(a)*b,
  self.__Qn(<particle list>, self.n_ | c*self.n_)           -> Q-vector of harmonic c*n of that list
  np.array([float(len(i)) for i in <particle list>]), np.array([len(i) ...]), [len(i) for i in ...]
                                                               -> multiplicity of that list
  <table name>[c]                                              -> value bound by the caller (resolved symbolically)
Statements: `name = expr`, `a, b, c = self.__calculate_corr(<list>, k=c)`; a backward slice from the
requested result keeps only the statements the result depends on (sequential lets, later assignments shadow
earlier ones exactly as in Python); every other statement must still be a plain assignment.
"""
import ast
from .core import TranslateError, int_const

KZ = "(kz k0 k1 kadd kmul kopp {}%Z)"


class Val:
    def __init__(self, shape, typ, code):
        self.shape, self.typ, self.code = shape, typ, code

    def __repr__(self):
        return f"Val({self.shape},{self.typ},{self.code})"


def kconst(c):
    return KZ.format(c) if c >= 0 else f"(kopp {KZ.format(-c)})"


def to_c(v):
    """coerce real -> complex"""
    if v.typ == "C":
        return v
    return Val(v.shape, "C", f"(ofK k0 {v.code})")


def join_shape(a, b):
    return "V" if "V" in (a.shape, b.shape) else "S"


class Tr:
    """expression translator with an environment name -> Val | ('list', id) | ('table', [Val...])"""

    def __init__(self, path, env):
        self.path = path
        self.env = dict(env)

    def err(self, msg, node):
        raise TranslateError(msg, node, self.path)

    # ------------------------------------------------------------------ helpers
    def plist(self, node):
        if isinstance(node, ast.Name) and isinstance(self.env.get(node.id), tuple) and self.env[node.id][0] == "list":
            return self.env[node.id][1]
        self.err("expected a particle-list name, got " + ast.unparse(node)[:60], node)

    def harmonic(self, node):
        s = ast.unparse(node)
        if s == "self.n_":
            return 1
        if isinstance(node, ast.BinOp) and isinstance(node.op, ast.Mult):
            if ast.unparse(node.right) == "self.n_":
                return int_const(node.left, self.path)
            if ast.unparse(node.left) == "self.n_":
                return int_const(node.right, self.path)
        self.err("expected `self.n_` or `c * self.n_`", node)

    def is_np(self, f, name):
        return isinstance(f, ast.Attribute) and isinstance(f.value, ast.Name) and f.value.id == "np" and f.attr == name

    def len_comp(self, node):
        """[len(i) for i in L] / [float(len(i)) for i in L]  ->  list id of L, else None"""
        if not (isinstance(node, ast.ListComp) and len(node.generators) == 1):
            return None
        g = node.generators[0]
        if g.ifs or g.is_async or not isinstance(g.target, ast.Name):
            return None
        v = g.target.id
        if ast.unparse(node.elt) not in (f"len({v})", f"float(len({v}))"):
            return None
        return self.plist(g.iter)

    # ------------------------------------------------------------------ arithmetic
    def binop(self, op, a, b, node):
        shape = join_shape(a, b)
        if isinstance(op, (ast.Add, ast.Sub)):
            nm = "add" if isinstance(op, ast.Add) else "sub"
            if a.typ == b.typ == "R":
                return Val(shape, "R", f"(k{nm} {a.code} {b.code})")
            return Val(shape, "C", f"(c{nm} {to_c(a).code} {to_c(b).code})")
        if isinstance(op, ast.Mult):
            if a.typ == b.typ == "R":
                return Val(shape, "R", f"(kmul {a.code} {b.code})")
            if a.typ == "R":
                return Val(shape, "C", f"(cscale {a.code} {b.code})")
            if b.typ == "R":
                return Val(shape, "C", f"(cscale {b.code} {a.code})")
            return Val(shape, "C", f"(cmul {a.code} {b.code})")
        if isinstance(op, ast.Div):
            if b.typ != "R":
                self.err("division by a complex value is not accepted", node)
            if a.typ == "R":
                return Val(shape, "R", f"(kdiv {a.code} {b.code})")
            return Val(shape, "C", f"(cdivr {a.code} {b.code})")
        self.err("operator not accepted: " + type(op).__name__, node)

    def power(self, a, n, node):
        if n < 0 or n > 16:
            self.err("exponent out of range", node)
        if a.typ == "R":
            return Val(a.shape, "R", f"(kpow k1 kmul {a.code} {n}%nat)")
        return Val(a.shape, "C", f"(cpow {a.code} {n}%nat)")

    def real(self, a):
        return a if a.typ == "R" else Val(a.shape, "R", f"(re {a.code})")

    def imag(self, a, node):
        if a.typ == "R":
            self.err(".imag of a real value", node)
        return Val(a.shape, "R", f"(im {a.code})")

    def conj(self, a):
        return a if a.typ == "R" else Val(a.shape, "C", f"(conj {a.code})")

    def vsum(self, a, node):
        if a.shape != "V":
            self.err("np.sum of a scalar", node)
        if a.typ == "R":
            return Val("S", "R", f"(vsumR (fun e => {a.code}))")
        return Val("S", "C", f"(vsumC (fun e => {a.code}))")

    # ------------------------------------------------------------------ expressions
    def expr(self, node):
        if isinstance(node, ast.Name):
            v = self.env.get(node.id)
            if isinstance(v, Val):
                return v
            self.err(f"name `{node.id}` is not a known value", node)
        if isinstance(node, ast.Constant):
            if isinstance(node.value, complex):
                self.err("complex literal", node)
            return Val("S", "R", kconst(int_const(node, self.path)))
        if isinstance(node, ast.UnaryOp):
            if isinstance(node.op, ast.USub):
                if isinstance(node.operand, ast.Constant):
                    return Val("S", "R", kconst(-int_const(node.operand, self.path)))
                a = self.expr(node.operand)
                return Val(a.shape, a.typ, f"({'kopp' if a.typ == 'R' else 'copp'} {a.code})")
            if isinstance(node.op, ast.UAdd):
                return self.expr(node.operand)
            self.err("unary operator not accepted", node)
        if isinstance(node, ast.BinOp):
            if isinstance(node.op, ast.Pow):
                return self.power(self.expr(node.left), int_const(node.right, self.path), node)
            return self.binop(node.op, self.expr(node.left), self.expr(node.right), node)
        if isinstance(node, ast.Attribute):
            if node.attr == "real":
                return self.real(self.expr(node.value))
            if node.attr == "imag":
                return self.imag(self.expr(node.value), node)
            self.err("attribute not accepted: " + node.attr, node)
        if isinstance(node, ast.Subscript):
            if isinstance(node.value, ast.Name) and isinstance(self.env.get(node.value.id), tuple) \
                    and self.env[node.value.id][0] == "table":
                tab = self.env[node.value.id][1]
                i = int_const(node.slice, self.path)
                if not (0 <= i < len(tab)) or tab[i] is None:
                    self.err(f"table entry {i} is not available", node)
                return tab[i]
            self.err("subscript not accepted: " + ast.unparse(node)[:60], node)
        if isinstance(node, ast.ListComp):
            lid = self.len_comp(node)
            if lid is None:
                self.err("list comprehension not accepted", node)
            return Val("V", "R", f"(M_{lid} e)")
        if isinstance(node, ast.Call):
            return self.call(node)
        self.err("expression not accepted: " + ast.dump(node)[:80], node)

    def call(self, node):
        f = node.func
        if node.keywords:
            self.err("keyword arguments not accepted here", node)
        # x.conj()
        if isinstance(f, ast.Attribute) and f.attr == "conj" and not node.args \
                and not (isinstance(f.value, ast.Name) and f.value.id == "np"):
            return self.conj(self.expr(f.value))
        # self.__Qn(list, harmonic)
        if isinstance(f, ast.Attribute) and ast.unparse(f) == "self.__Qn":
            if len(node.args) != 2:
                self.err("self.__Qn takes two arguments", node)
            return Val("V", "C", f"(Q_{self.plist(node.args[0])} {self.harmonic(node.args[1])}%nat e)")
        for nm in ("real", "imag", "conj", "conjugate", "square", "array", "asarray", "sum"):
            if self.is_np(f, nm):
                if len(node.args) != 1:
                    self.err(f"np.{nm} takes one argument here", node)
                if nm in ("array", "asarray") and isinstance(node.args[0], ast.ListComp):
                    return self.expr(node.args[0])
                a = self.expr(node.args[0])
                if nm == "real":
                    return self.real(a)
                if nm == "imag":
                    return self.imag(a, node)
                if nm in ("conj", "conjugate"):
                    return self.conj(a)
                if nm == "square":
                    return self.binop(ast.Mult(), a, a, node)
                if nm in ("array", "asarray"):
                    return a
                return self.vsum(a, node)
        if self.is_np(f, "power"):
            if len(node.args) != 2:
                self.err("np.power takes two arguments", node)
            return self.power(self.expr(node.args[0]), int_const(node.args[1], self.path), node)
        if self.is_np(f, "multiply"):
            if len(node.args) != 2:
                self.err("np.multiply takes two arguments", node)
            return self.binop(ast.Mult(), self.expr(node.args[0]), self.expr(node.args[1]), node)
        if self.is_np(f, "inner") or self.is_np(f, "vdot"):
            if len(node.args) != 2:
                self.err("np.inner/np.vdot take two arguments", node)
            a, b = self.expr(node.args[0]), self.expr(node.args[1])
            if a.shape != "V" or b.shape != "V":
                self.err("np.inner/np.vdot of scalars", node)
            if f.attr == "vdot":
                a = self.conj(a)
            return self.vsum(self.binop(ast.Mult(), a, b, node), node)
        self.err("call not accepted: " + ast.unparse(f)[:60], node)


# ---------------------------------------------------------------------------------------- statements
def assigned_names(st, path):
    """names bound by a statement of the accepted straight-line language"""
    if isinstance(st, ast.Assign) and len(st.targets) == 1:
        t = st.targets[0]
        if isinstance(t, ast.Name):
            return [t.id]
        if isinstance(t, ast.Tuple) and all(isinstance(x, ast.Name) for x in t.elts):
            return [x.id for x in t.elts]
    raise TranslateError("statement outside the straight-line language: " + ast.unparse(st)[:70], st, path)


def loads(node):
    return {n.id for n in ast.walk(node) if isinstance(n, ast.Name) and isinstance(n.ctx, ast.Load)}


def slice_stmts(stmts, result_node, path):
    """backward slice: indices of the statements `result_node` (an expression evaluated after them) depends on"""
    live = loads(result_node)
    keep = []
    for i in range(len(stmts) - 1, -1, -1):
        st = stmts[i]
        names = assigned_names(st, path)
        if any(n in live for n in names):
            keep.append(i)
            live -= set(names)
            live |= loads(st.value)
    return sorted(keep)


def flatten_k(stmts, kvar, kval, path):
    """partial evaluation of `if <kvar> == c:` blocks (no else) for kvar = kval"""
    out = []
    for st in stmts:
        if isinstance(st, ast.If):
            t = st.test
            if not (isinstance(t, ast.Compare) and len(t.ops) == 1 and isinstance(t.ops[0], ast.Eq)
                    and ast.unparse(t.left) == kvar and not st.orelse):
                raise TranslateError(f"expected `if {kvar} == <const>:` without else", st, path)
            if int_const(t.comparators[0], path) == kval:
                out += flatten_k(st.body, kvar, kval, path)
        else:
            out.append(st)
    return out


def let_chain(tr, stmts, keep, call_hook=None):
    """translate the kept statements in order into `let` bindings; returns the list of binding lines"""
    lines = []
    for i in keep:
        st = stmts[i]
        names = assigned_names(st, tr.path)
        if len(names) > 1:
            if call_hook is None:
                raise TranslateError("tuple assignment not accepted here", st, tr.path)
            vals = call_hook(tr, st)
            if vals is None or len(vals) != len(names):
                raise TranslateError("tuple assignment not accepted: " + ast.unparse(st)[:70], st, tr.path)
            for n, v in zip(names, vals):
                if v is not None:
                    tr.env[n] = v
                else:
                    tr.env.pop(n, None)
            continue
        v = None
        if call_hook is not None and isinstance(st.value, ast.Call):
            r = call_hook(tr, st)
            if r is not None:
                v = r[0]
        if v is None:
            v = tr.expr(st.value)
        n = names[0]
        if v.shape == "V":
            lines.append(f"let v_{n} := (fun e : E => {v.code}) in")
            tr.env[n] = Val("V", v.typ, f"(v_{n} e)")
        else:
            lines.append(f"let v_{n} := {v.code} in")
            tr.env[n] = Val("S", v.typ, f"v_{n}")
    return lines

"""Gen/GenQCumulant.v from src/sparkx/flow/QCumulantFlow.py (npvec + dtree extractors).

Generated (regenerated on every run, fail closed):
  gen_k_allowed, gen_imag_allowed, gen_factor      constructor validation lists, cumulant_factor_ dict
  gen_Qh                                           __Qn (the harmonic multiple h of `h * self.n_`; z = exp(i n phi))
  gen_corr_2/4/6                                   __calculate_corr, value `corr` of each branch
  gen_cumulant_2/4/6, gen_integrated               __cumulant_flow: the cumulant combination passed to
                                                   __flow_from_cumulant and the returned flow value
  gen_ffc, gen_ffcd                                __flow_from_cumulant, __flow_from_cumulant_differential
  gen_dcorr2, gen_dcorr4, gen_dn4, gen_cn4, gen_diff_2/4   __compute_differential_flow_bin
The glue that is modelled by hand in Model/QCumulant.v (integrated_flow's phi loop, differential_flow's binning
loops and the empty-bin guard) is pinned by its normalised source text: a change there aborts the translator.
"""
import ast, hashlib
from .core import *
from . import npvec
from .npvec import Val, Tr
from .dtree import DTree

SRC = "src/sparkx/flow/QCumulantFlow.py"
OUTPUTS = ["GenQCumulant"]

SECTION_BASE = """Section GenBase.
  Variable K : Type.
  Variables (k0 k1 : K) (kadd kmul ksub : K -> K -> K) (kopp : K -> K) (kdiv : K -> K -> K).
  Variables (kleb kltb : K -> K -> bool).
  (* krpow c k x  stands for  x ** (c / k)  (root oracle) *)
  Variable krpow : nat -> nat -> K -> K.
  (* every definition takes all of the above as arguments, used or not *)
  Let USE := (k0, k1, kadd, kmul, ksub, kopp, kdiv, kleb, kltb, krpow).
  Let copp := copp K kopp. Let cscale := cscale K kmul. Let cdivr := cdivr K kdiv.
  Let cmul := cmul K kadd kmul ksub. Let cpow := cpow K k0 k1 kadd kmul ksub.
"""

SECTION = """Section Gen.
  Variable K : Type.
  Variables (k0 k1 : K) (kadd kmul ksub : K -> K -> K) (kopp : K -> K) (kdiv : K -> K -> K).
  Variables (kleb kltb : K -> K -> bool).
  Variable krpow : nat -> nat -> K -> K.
  (* E: an event; evs: the sample; M_l e / Q_l h e: multiplicity and Q-vector of harmonic h*n of the particle
     list l of event e, l in all (whole event), bin (particles in the bin), poi (particles of interest in the bin) *)
  Variable E : Type.
  Variable evs : list E.
  Variables M_all M_bin M_poi : E -> K.
  Variables Q_all Q_bin Q_poi : nat -> E -> cpx K.
  (* every definition takes all of the above as arguments, used or not *)
  Let USE := (k0, k1, kadd, kmul, ksub, kopp, kdiv, kleb, kltb, krpow, evs, M_all, M_bin, M_poi, Q_all, Q_bin, Q_poi).
  Let cadd := cadd K kadd. Let csub := csub K ksub. Let copp := copp K kopp.
  Let cmul := cmul K kadd kmul ksub. Let cscale := cscale K kmul. Let cdivr := cdivr K kdiv.
  Let cpow := cpow K k0 k1 kadd kmul ksub. Let conj := @conj K kopp.
  Let vsumR (f : E -> K) : K := ksum k0 kadd (map f evs).
  Let vsumC (f : E -> cpx K) : cpx K := csum K k0 kadd (map f evs).
  Let gen_ffc := gen_ffc K k0 k1 kadd kmul ksub kopp kdiv kleb kltb krpow.
  Let gen_ffcd := gen_ffcd K k0 k1 kadd kmul ksub kopp kdiv kleb kltb krpow.
"""


def body_of(f):
    return strip_doc(f.body)


def text(nodes):
    return "\n".join(ast.unparse(n) for n in nodes)


def expect_text(nodes, want, what, node, path):
    got = text(nodes)
    if got != want:
        raise TranslateError(f"{what}: hand-modelled glue changed; got\n{got}\nexpected\n{want}\n", node, path)


def validation_list(func, attr_text, path):
    """`elif <x> not in [literals]: raise` -> literals"""
    for n in ast.walk(func):
        if isinstance(n, ast.Compare) and len(n.ops) == 1 and isinstance(n.ops[0], ast.NotIn) \
                and ast.unparse(n.left) == attr_text and isinstance(n.comparators[0], ast.List):
            return [ast.literal_eval(x) for x in n.comparators[0].elts]
    raise TranslateError(f"validation `{attr_text} not in [...]` not found", func, path)


def lets(lines, result, indent="    "):
    return "".join(indent + l + "\n" for l in lines) + indent + result


def generate():
    tree, path = parse(SRC)
    cls = find_class(tree, "QCumulantFlow")
    head = [HEADER, "From Coq Require Import ZArith List String.\nFrom SX Require Import Lib.KRing Lib.Cpx.\nImport ListNotations.\n\n"]
    tabs, base, out = [], [SECTION_BASE], [SECTION]
    wt, wb, w = tabs.append, base.append, out.append

    # ---- constructor ------------------------------------------------------------------
    init = find_func(cls, "__init__")
    ks = validation_list(init, "k", path)
    ims = validation_list(init, "imaginary", path)
    if not all(isinstance(k, int) for k in ks) or not all(isinstance(s, str) for s in ims):
        raise TranslateError("validation lists have unexpected element types", init, path)
    fac = None
    for st in ast.walk(init):
        if isinstance(st, (ast.Assign, ast.AnnAssign)):
            tgt = st.targets[0] if isinstance(st, ast.Assign) else st.target
            if ast.unparse(tgt) == "self.cumulant_factor_":
                fac = st.value
    if not isinstance(fac, ast.Dict):
        raise TranslateError("self.cumulant_factor_ = {...} not found", init, path)
    tr0 = Tr(path, {})
    wt("Definition gen_k_allowed : list nat := [" + "; ".join(f"{k}%nat" for k in ks) + "].\n")
    wt("Definition gen_imag_allowed : list string := [" + "; ".join(f'"{s}"%string' for s in ims) + "].\n")
    wb("  Definition gen_factor (kk : nat) : K := let _ := USE in\n    match kk with\n")
    for kn, vn in zip(fac.keys, fac.values):
        v = tr0.expr(vn)
        if v.shape != "S" or v.typ != "R":
            raise TranslateError("cumulant factor must be a real scalar", vn, path)
        wb(f"    | {int_const(kn, path)}%nat => {v.code}\n")
    wb("    | _ => k0\n    end.\n")
    defaults = {a.arg: ast.literal_eval(d) for a, d in zip(init.args.args[-len(init.args.defaults):], init.args.defaults)}
    wt(f"Definition gen_default_k : nat := {defaults['k']}%nat.\n")
    wt(f'Definition gen_default_imag : string := "{defaults["imaginary"]}"%string.\n')

    # ---- __Qn --------------------------------------------------------------------------
    fq = find_func(cls, "__Qn")
    expect_text(body_of(fq),
                "Q_vector = []\n"
                "for event in range(len(phi)):\n"
                "    phi_event = np.array([i for i in phi[event]])\n"
                "    Q_vector_val = np.sum(np.exp(1j * float(n) * phi_event))\n"
                "    Q_vector.append(Q_vector_val)\n"
                "return np.array(Q_vector)", "__Qn", fq, path)
    wb("  (* __Qn(phi, h * n): with z = exp(i n phi),  exp(i (h n) phi) = z^h *)\n")
    wb("  Definition gen_Qh (h : nat) (zs : list (cpx K)) : cpx K := let _ := USE in\n"
      "    csum K k0 kadd (map (fun z => cpow z h) zs).\n")

    # ---- __calculate_corr ------------------------------------------------------------------
    fc = find_func(cls, "__calculate_corr")
    if [a.arg for a in fc.args.args] != ["self", "phi", "k"]:
        raise TranslateError("__calculate_corr signature changed", fc, path)
    body = body_of(fc)
    prefix, branches = [], []
    for st in body:
        if isinstance(st, ast.If):
            t = st.test
            if not (isinstance(t, ast.Compare) and ast.unparse(t.left) == "k" and isinstance(t.ops[0], ast.Eq)):
                raise TranslateError("expected `if k == <c>:`", st, path)
            if st.orelse and not (len(st.orelse) == 1 and isinstance(st.orelse[0], ast.Raise)):
                raise TranslateError("expected `else: raise`", st, path)
            branches.append((int_const(t.comparators[0], path), st.body))
        elif branches:
            raise TranslateError("statement after the k-branches", st, path)
        else:
            prefix.append(st)
    if sorted(k for k, _ in branches) != sorted(ks):
        raise TranslateError("k-branches differ from the accepted k values", fc, path)
    corr_names = {}
    for k, b in branches:
        if not (isinstance(b[-1], ast.Return) and isinstance(b[-1].value, ast.Tuple)
                and len(b[-1].value.elts) == 3 and isinstance(b[-1].value.elts[0], ast.Name)):
            raise TranslateError("expected `return corr, corr_err, ebe_corr`", b[-1], path)
        stmts = prefix + b[:-1]
        res = b[-1].value.elts[0]
        tr = Tr(path, {"phi": ("list", "all")})
        keep = npvec.slice_stmts(stmts, res, path)
        lines = npvec.let_chain(tr, stmts, keep)
        v = tr.expr(res)
        if v.shape != "S" or v.typ != "R":
            raise TranslateError("corr must be a real scalar", res, path)
        w(f"  Definition gen_corr_{k} : K := let _ := USE in\n{lets(lines, v.code)}.\n")
        corr_names[k] = f"gen_corr_{k}"

    # ---- __flow_from_cumulant -------------------------------------------------------------
    ff = find_func(cls, "__flow_from_cumulant")
    if [a.arg for a in ff.args.args] != ["self", "cnk"]:
        raise TranslateError("__flow_from_cumulant signature changed", ff, path)
    wb("  Definition gen_ffc (kk : nat) (imag : string) (v_cnk : K) : option K := let _ := USE in\n    "
      + DTree(ff, path, {"cnk": "R"}, False).code() + ".\n")
    fd = find_func(cls, "__flow_from_cumulant_differential")
    if [a.arg for a in fd.args.args] != ["self", "cnk", "dnk"]:
        raise TranslateError("__flow_from_cumulant_differential signature changed", fd, path)
    wb("  Definition gen_ffcd (kk : nat) (imag : string) (v_cnk : K) (v_dnk : cpx K) : option (cpx K) := let _ := USE in\n    "
      + DTree(fd, path, {"cnk": "R", "dnk": "C"}, True).code() + ".\n")

    # ---- __cumulant_flow ------------------------------------------------------------------
    fcf = find_func(cls, "__cumulant_flow")
    from .poly import if_chain
    b0 = body_of(fcf)
    if len(b0) != 1:
        raise TranslateError("__cumulant_flow: expected a single if-chain", fcf, path)
    cur, chain = b0[0], []
    while True:
        t = cur.test
        if not (isinstance(cur, ast.If) and isinstance(t, ast.Compare) and ast.unparse(t.left) == "self.k_"
                and isinstance(t.ops[0], ast.Eq)):
            raise TranslateError("expected `self.k_ == <c>`", cur, path)
        chain.append((int_const(t.comparators[0], path), cur.body))
        if len(cur.orelse) == 1 and isinstance(cur.orelse[0], ast.If):
            cur = cur.orelse[0]
            continue
        if not (len(cur.orelse) == 1 and isinstance(cur.orelse[0], ast.Raise)):
            raise TranslateError("expected final `else: raise`", cur, path)
        break
    if sorted(k for k, _ in chain) != sorted(ks):
        raise TranslateError("__cumulant_flow branches differ from the accepted k values", fcf, path)

    def corr_call(tr, st):
        """n_corr, n_err, ebe = self.__calculate_corr(<list>, k=c)  ->  [gen_corr_c, None, None]"""
        c = st.value
        if isinstance(c, ast.Call) and ast.unparse(c.func) == "self.__calculate_corr":
            if not (len(c.args) == 1 and len(c.keywords) == 1 and c.keywords[0].arg == "k"):
                raise TranslateError("expected self.__calculate_corr(<list>, k=<c>)", st, path)
            if tr.plist(c.args[0]) != "all":
                raise TranslateError("__calculate_corr must be applied to the whole events", st, path)
            kc = int_const(c.keywords[0].value, path)
            if kc not in corr_names:
                raise TranslateError("unknown correlator order", st, path)
            return [Val("S", "R", corr_names[kc]), None, None]
        return None

    for k, b in chain:
        if not (isinstance(b[-1], ast.Return) and isinstance(b[-1].value, ast.Tuple) and len(b[-1].value.elts) == 2
                and isinstance(b[-1].value.elts[0], ast.Name)):
            raise TranslateError("expected `return avg_vn, err`", b[-1], path)
        stmts = b[:-1]
        resname = b[-1].value.elts[0].id
        # the returned value must be `self.__flow_from_cumulant(<cumulant>)`
        defs = [s for s in stmts if isinstance(s, ast.Assign) and ast.unparse(s.targets[0]) == resname]
        if not (len(defs) == 1 and isinstance(defs[0].value, ast.Call)
                and ast.unparse(defs[0].value.func) == "self.__flow_from_cumulant" and len(defs[0].value.args) == 1):
            raise TranslateError("flow value must be self.__flow_from_cumulant(<cumulant>)", b[-1], path)
        arg = defs[0].value.args[0]
        upto = stmts[:stmts.index(defs[0])]
        tr = Tr(path, {"phi": ("list", "all")})
        keep = npvec.slice_stmts(upto, arg, path)
        lines = npvec.let_chain(tr, upto, keep, corr_call)
        v = tr.expr(arg)
        if v.shape != "S" or v.typ != "R":
            raise TranslateError("cumulant must be a real scalar", arg, path)
        w(f"  Definition gen_cumulant_{k} : K := let _ := USE in\n{lets(lines, v.code)}.\n")
    w("  (* __cumulant_flow: flow value for cumulant order kk (None = NaN); orders outside the table raise ValueError *)\n")
    w("  Definition gen_integrated (kk : nat) (imag : string) : option (option K) := let _ := USE in\n    match kk with\n")
    for k, _ in chain:
        w(f"    | {k}%nat => Some (gen_ffc {k}%nat imag gen_cumulant_{k})\n")
    w("    | _ => None\n    end.\n")

    # ---- integrated_flow (hand-modelled glue, pinned) ---------------------------------------
    fi = find_func(cls, "integrated_flow")
    expect_text(body_of(fi),
                "number_events = len(particle_data)\n"
                "self.__sample_random_reaction_planes(number_events)\n"
                "phi = []\n"
                "for event in range(number_events):\n"
                "    event_phi = []\n"
                "    for particle in particle_data[event]:\n"
                "        event_phi.append(particle.phi() + self.rand_reaction_planes_[event])\n"
                "    phi.extend([event_phi])\n"
                "vnk, vnk_err = self.__cumulant_flow(phi)\n"
                "return (vnk, vnk_err)", "integrated_flow", fi, path)

    # ---- differential_flow --------------------------------------------------------------------
    fdf = find_func(cls, "differential_flow")
    bd = body_of(fdf)
    sels = validation_list(fdf, "flow_as_function_of", path)
    disp = []
    for n in ast.walk(fdf):
        if isinstance(n, ast.Compare) and ast.unparse(n.left) == "flow_as_function_of" and isinstance(n.ops[0], ast.Eq) \
                and isinstance(n.comparators[0], ast.Constant):
            disp.append(n.comparators[0].value)
    wt("Definition gen_selectors_validated : list string := [" + "; ".join(f'"{s}"%string' for s in sels) + "].\n")
    wt("Definition gen_selectors_dispatched : list string := [" + "; ".join(f'"{s}"%string' for s in disp) + "].\n")
    # the k == 6 rejection
    rej = [int_const(n.test.comparators[0], path) for n in bd
           if isinstance(n, ast.If) and ast.unparse(n.test.left if isinstance(n.test, ast.Compare) else n.test) == "self.k_"
           and any(isinstance(x, ast.Raise) for x in n.body)]
    wt("Definition gen_diff_rejected_k : list nat := [" + "; ".join(f"{k}%nat" for k in rej) + "].\n")
    # glue: everything from `number_events = ...` on, with the full-event table cut out
    start = [i for i, s in enumerate(bd) if ast.unparse(s).startswith("number_events = ")]
    if len(start) != 1:
        raise TranslateError("differential_flow: `number_events = ...` not found", fdf, path)
    glue = bd[start[0]:]
    i_q = [i for i, s in enumerate(glue) if ast.unparse(s).startswith("Qn = self.__Qn(phi_all")]
    i_fb = [i for i, s in enumerate(glue) if ast.unparse(s).startswith("flow_bins = []")]
    if len(i_q) != 1 or len(i_fb) != 1 or i_q[0] > i_fb[0]:
        raise TranslateError("differential_flow: full-event quantities block not found", fdf, path)
    expect_text(glue[:i_q[0]] + glue[i_fb[0]:], GLUE_DIFF, "differential_flow", fdf, path)
    # full-event quantities, resolved symbolically
    table_stmts = glue[i_q[0]:i_fb[0]]

    def table_for(kval):
        stmts = npvec.flatten_k(table_stmts, "self.k_", kval, path)
        tr = Tr(path, {"phi_all": ("list", "all")})
        entries = None
        for st in stmts:
            names = npvec.assigned_names(st, path)
            if names == ["full_event_quantities"]:
                if not isinstance(st.value, ast.List):
                    raise TranslateError("full_event_quantities must be a list literal", st, path)
                entries = []
                for el in st.value.elts:
                    if isinstance(el, ast.Name) and isinstance(tr.env.get(el.id), Val):
                        entries.append(tr.env[el.id])
                    else:
                        entries.append(None)        # error terms etc.: not available to the value slice
            elif len(names) == 3:
                r = corr_call(tr, st)
                if r is None:
                    raise TranslateError("unexpected tuple assignment", st, path)
                for n, v in zip(names, r):
                    if v is not None:
                        tr.env[n] = v
                    else:
                        tr.env.pop(n, None)
            else:
                tr.env[names[0]] = tr.expr(st.value)
        if entries is None:
            raise TranslateError("full_event_quantities not assigned", fdf, path)
        return entries

    fb = find_func(cls, "__compute_differential_flow_bin")
    if [a.arg for a in fb.args.args] != ["self", "full_event_quantities", "phi_bin", "phi_bin_poi"]:
        raise TranslateError("__compute_differential_flow_bin signature changed", fb, path)
    bb = body_of(fb)
    if not (isinstance(bb[-1], ast.Return) and isinstance(bb[-1].value, ast.List) and len(bb[-1].value.elts) == 2):
        raise TranslateError("expected `return [vn_bin.real, avg_vn_err.real]`", bb[-1], path)
    ret0 = bb[-1].value.elts[0]
    if not (isinstance(ret0, ast.Attribute) and ret0.attr == "real" and isinstance(ret0.value, ast.Name)):
        raise TranslateError("expected `<name>.real` as flow value", ret0, path)

    def diff_call(kval):
        def hook(tr, st):
            c = st.value
            if isinstance(c, ast.Call) and ast.unparse(c.func) == "self.__flow_from_cumulant_differential":
                if len(c.args) != 2 or c.keywords:
                    raise TranslateError("expected two positional arguments", st, path)
                a, b = tr.expr(c.args[0]), npvec.to_c(tr.expr(c.args[1]))
                if a.shape != "S" or a.typ != "R" or b.shape != "S":
                    raise TranslateError("cumulant arguments have unexpected shape", st, path)
                return [Val("S", "OC", f"(gen_ffcd {kval}%nat imag {a.code} {b.code})")]
            return None
        return hook

    for kval in (2, 4):
        if kval not in ks or kval in rej:
            continue
        stmts = npvec.flatten_k(bb[:-1], "self.k_", kval, path)
        env = {"phi_bin": ("list", "bin"), "phi_bin_poi": ("list", "poi"), "full_event_quantities": ("table", table_for(kval))}
        # named intermediate quantities (for the theorems) and the flow value
        wanted = [("dcorr2", "corr2", "C")] if kval == 2 else [("dcorr4", "corr4", "C"), ("dn4", "dn4", "C"), ("cn4", "cn4", "R")]
        for defname, pyname, typ in wanted:
            node = ast.Name(id=pyname, ctx=ast.Load())
            tr = Tr(path, env)
            keep = npvec.slice_stmts(stmts, node, path)
            lines = npvec.let_chain(tr, stmts, keep, diff_call(kval))
            v = tr.expr(node)
            if v.shape != "S":
                raise TranslateError(f"{pyname} must be a scalar", fb, path)
            if typ == "C":
                v = npvec.to_c(v)
            elif v.typ != "R":
                raise TranslateError(f"{pyname} must be real", fb, path)
            ty = "cpx K" if typ == "C" else "K"
            w(f"  Definition gen_{defname} : {ty} := let _ := USE in\n{lets(lines, v.code)}.\n")
        tr = Tr(path, env)
        keep = npvec.slice_stmts(stmts, ret0.value, path)
        lines = npvec.let_chain(tr, stmts, keep, diff_call(kval))
        v = tr.env.get(ret0.value.id)
        if not (isinstance(v, Val) and v.typ == "OC"):
            raise TranslateError("flow value must come from __flow_from_cumulant_differential", ret0, path)
        w(f"  Definition gen_diff_{kval} (imag : string) : option K := let _ := USE in\n"
          f"{lets(lines, '(option_map re ' + v.code + ')')}.\n")
    w("End Gen.\n")
    wb("End GenBase.\n\n")
    return "".join(head + tabs + ["\n"] + base + out)


GLUE_DIFF = '''number_events = len(particle_data)
self.__sample_random_reaction_planes(number_events)
phi_all = []
for event in range(number_events):
    event_phi = []
    for particle in particle_data[event]:
        event_phi.append(particle.phi() + self.rand_reaction_planes_[event])
    phi_all.extend([event_phi])
phi_bin = []
phi_bin_poi = []
for bin in range(len(bins) - 1):
    events_bin = []
    events_bin_poi = []
    for event in range(len(particle_data)):
        particles_event = []
        particles_event_poi = []
        for particle in particle_data[event]:
            val = 0.0
            if flow_as_function_of == 'pT':
                val = particle.pT_abs()
            elif flow_as_function_of == 'rapidity':
                val = particle.rapidity()
            elif flow_as_function_of == 'pseudorapidity':
                val = particle.pseudorapidity()
            if val >= bins[bin] and val < bins[bin + 1]:
                particles_event.append(particle.phi() + self.rand_reaction_planes_[event])
                if poi_pdg is None or particle.pdg in poi_pdg:
                    particles_event_poi.append(particle.phi() + self.rand_reaction_planes_[event])
        events_bin.extend([particles_event])
        events_bin_poi.extend([particles_event_poi])
    phi_bin.extend([events_bin])
    phi_bin_poi.extend([events_bin_poi])
if poi_pdg is None:
    phi_bin_poi = phi_bin
flow_bins = []
for bin in range(len(phi_bin)):
    total_elements_bin = sum((len(sublist) for sublist in phi_bin[bin]))
    total_elements_bin_poi = sum((len(sublist) for sublist in phi_bin_poi[bin]))
    if len(phi_bin[bin]) > 0 and total_elements_bin > 0 and (total_elements_bin_poi > 0):
        flow_bins.append(self.__compute_differential_flow_bin(full_event_quantities, phi_bin[bin], phi_bin_poi[bin]))
    else:
        flow_bins.append([])
return flow_bins'''


def main(outdir):
    return write_if_changed(outdir + "/GenQCumulant.v", generate())

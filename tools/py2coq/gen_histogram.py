"""Gen/GenHistogram.v from src/sparkx/Histogram.py: whole method bodies of class Histogram as Gallina functions over
the state of the hand model coq/Model/Histogram.v (record `hist`, shaped arrays `arr`, cells `option Qc`, `result`).

Every accepted Python / numpy construct is rendered by one function of coq/Lib/HistRt.v (the runtime vocabulary);
statements are translated in order, `self.<attr> = e` becomes a functional update of the state `h`, exceptions are
`Err cls`, an `if isinstance(x, ...)` on an argument becomes a `match` on the argument's constructor (None / number /
list), loops are `fold_leftM`, the recursive calls of add_value are tied by unrolling the body twice (the elements of a
1-D list are numbers).  Proofs/C09_Source.v and C10_Source.v prove the hand model's functions equal to these.

Not translated (accepted and skipped as statements without effect on the modelled state): the `if self.<attr> is None:
raise TypeError` guards (no attribute is None after a successful constructor), warning texts / warnings.warn, the
legacy alias `self.histogram_raw_count_ = self.histograms_raw_count_[0]`, the file/comment handling of write_to_file
(`open`, `csv.writer`, `f.write`): the rows handed to `writer.writerow` are the output.
Fail-closed: any statement or expression outside the grammar below raises TranslateError with the source line.
"""
import ast
from fractions import Fraction
from .core import *
from .pyfrag import loads, terminates

SRC = "src/sparkx/Histogram.py"
OUTPUTS = ["GenHistogram"]

ATTR = {"number_of_bins_": ("nbins", "int"), "bin_edges_": ("edges", "qrow"), "number_of_histograms_": ("nhist", "int"),
        "histograms_": ("hH", "arr"), "histograms_raw_count_": ("hRAW", "arr"), "error_": ("hERR", "arr"),
        "scaling_": ("hSCAL", "arr"), "systematic_error_": ("hSYS", "arr")}
COQ_TY = {"arg": "pyarg", "arr": "arr", "row": "list cell", "cell": "cell", "int": "Z", "q": "Qc", "qrow": "list Qc",
          "labels": "list ldict", "cols": "list nat", "optcols": "option (list nat)", "ldict": "ldict", "col": "nat",
          "labrow": "list nat", "nat": "nat", "bool": "bool"}
SCALAR_T = ("int", "float", "np.number")
LIST_T = ("list", "np.ndarray")
EXN = {"TypeError", "ValueError", "IndexError", "KeyError"}

# name -> (kind, [(param, type)], defaults {param: coq term}, return type for value methods)
METHODS = {
    "histogram": ("value", [], {}, "arr"),
    "bin_centers": ("value", [], {}, "qrow"),
    "bin_width": ("value", [], {}, "qrow"),
    "bin_bounds_left": ("value", [], {}, "qrow"),
    "bin_bounds_right": ("value", [], {}, "qrow"),
    "bin_boundaries": ("value", [], {}, "qrow"),
    "add_histogram": ("state", [], {}, None),
    "statistical_error": ("state", [], {}, None),
    "scale_histogram": ("state", [("value", "arg")], {}, None),
    "set_error": ("state", [("own_error", "row")], {}, None),
    "set_systematic_error": ("state", [("own_error", "row")], {}, None),
    "add_value": ("state", [("value", "arg"), ("weight", "arg")], {"weight": "PNone"}, None),
    "make_density": ("state", [], {}, None),
    "average_weighted": ("state", [("weights", "row")], {}, None),
    "average": ("state", [], {}, None),
    "average_weighted_by_error": ("state", [], {}, None),
    "add_bin": ("state", [("index", "int"), ("bin_edge", "q")], {}, None),
    "remove_bin": ("state", [("index", "int")], {}, None),
}
ORDER = list(METHODS)
USES_SQRT = set()          # filled while translating (methods whose body mentions the sqrt oracle, transitively)


class Var:
    def __init__(self, name, ty, isint=None):
        self.name, self.ty, self.isint = name, ty, isint


def vname(py):
    return "v_" + py


def qfrac(fr):
    n, d = fr.numerator, fr.denominator
    return f"({n} # {d})%Q" if n >= 0 else f"(({n}) # {d})%Q"


def assigned(stmts):
    """local names (re)bound by the statements"""
    out = set()
    for st in stmts:
        if isinstance(st, ast.Assign):
            for t in st.targets:
                if isinstance(t, ast.Name):
                    out.add(t.id)
        elif isinstance(st, ast.AugAssign) and isinstance(st.target, ast.Name):
            out.add(st.target.id)
        elif isinstance(st, ast.If):
            out |= assigned(st.body) | assigned(st.orelse)
        elif isinstance(st, ast.For):
            out |= assigned(st.body)
    return out


class Tr:
    def __init__(self, path, done):
        self.path, self.done, self.n = path, done, 0
        self.sqrt = False
        self.linspace = False

    def err(self, msg, node):
        raise TranslateError(msg, node, self.path)

    def fresh(self, base="t"):
        self.n += 1
        return f"{base}{self.n}_"

    # ------------------------------------------------------------------ monadic plumbing
    def lift(self, parts, f):
        names, binds = [], []
        for term, mon in parts:
            if mon:
                v = self.fresh()
                binds.append((v, term))
                names.append(v)
            else:
                names.append(term)
        inner, imon = f(names)
        if not binds:
            return inner, imon
        if not imon:
            inner = f"Ok {inner}"
        for v, term in reversed(binds):
            inner = f"(do {v} <- {term}; {inner})"
        return inner, True

    @staticmethod
    def m(t):
        term, mon = t
        return term if mon else f"(Ok {term})"

    # ------------------------------------------------------------------ coercions
    def lit(self, fr, want, node):
        if want == "int":
            if fr.denominator != 1:
                self.err("non-integral literal where a Python int is needed", node)
            return f"{fr.numerator}" if fr >= 0 else f"({fr.numerator})"
        if want == "cell":
            if fr == 0:
                return "c0"
            if fr == 1:
                return "c1"
            return f"(Some (Q2Qc {qfrac(fr)}))"
        if want == "q":
            return f"(Q2Qc {qfrac(fr)})"
        if want == "arg":
            return f"(PScalar {self.lit(fr, 'cell', node)})"
        self.err(f"numeric literal where {want} is needed", node)

    def co(self, t, ty, want, node):
        if ty == want:
            return t
        if ty == "lit":
            return self.lit(t, want, node)
        if (ty, want) == ("q", "cell"):
            return f"(Some {t})"
        if (ty, want) == ("qrow", "row"):
            return f"(qcells {t})"
        if (ty, want) == ("cell", "arg"):
            return f"(PScalar {t})"
        if (ty, want) == ("row", "arg"):
            return f"(PList {t})"
        if (ty, want) == ("q", "arg"):
            return f"(PScalar (Some {t}))"
        self.err(f"value of type {ty} where {want} is needed", node)

    def part(self, t, ty, mon, want, node):
        """(term, mon) of the value coerced to `want` (a monadic term is bound first)"""
        if not mon or ty == want:
            return self.co(t, ty, want, node), mon
        x = self.fresh()
        return f"(do {x} <- {t}; Ok {self.co(x, ty, want, node)})", True

    # ------------------------------------------------------------------ expressions -> (term, type, mon)
    def numlit(self, node):
        if isinstance(node, ast.Constant) and isinstance(node.value, (int, float)) and not isinstance(node.value, bool):
            v = node.value
            if isinstance(v, float) and (v != v or v in (float("inf"), float("-inf"))):
                self.err("non-finite literal", node)
            return Fraction(v)
        if isinstance(node, ast.UnaryOp) and isinstance(node.op, ast.USub):
            v = self.numlit(node.operand)
            return None if v is None else -v
        return None

    def is_msg(self, node):
        if isinstance(node, ast.Constant) and isinstance(node.value, str):
            return True
        if isinstance(node, ast.JoinedStr):
            return True
        if isinstance(node, ast.BinOp) and isinstance(node.op, ast.Add):
            return self.is_msg(node.left) and self.is_msg(node.right)
        if isinstance(node, ast.Call) and isinstance(node.func, ast.Name) and node.func.id == "str" and len(node.args) == 1:
            return True
        if isinstance(node, ast.Call) and isinstance(node.func, ast.Attribute) and node.func.attr == "join" \
                and isinstance(node.func.value, ast.Constant) and isinstance(node.func.value.value, str):
            return True
        if isinstance(node, ast.Name) and node.id in self.msgs:
            return True
        return False

    def self_attr(self, node):
        if isinstance(node, ast.Attribute) and isinstance(node.value, ast.Name) and node.value.id == "self":
            return node.attr
        return None

    def E(self, node, env):
        fr = self.numlit(node)
        if fr is not None:
            return fr, "lit", False
        if isinstance(node, ast.Constant) and node.value is None:
            return "PNone", "arg", False
        if isinstance(node, ast.Name):
            if node.id not in env:
                self.err(f"name {node.id} is not bound here", node)
            v = env[node.id]
            return v.name, v.ty, False
        a = self.self_attr(node)
        if a is not None:
            if a not in ATTR:
                self.err(f"attribute self.{a} is not part of the modelled state", node)
            f, ty = ATTR[a]
            return (f"(Z.of_nat ({f} h))" if ty == "int" else f"({f} h)"), ty, False
        if isinstance(node, ast.Attribute) and node.attr == "ndim":
            t, ty, mon = self.E(node.value, env)
            if ty != "arr":
                self.err(".ndim of a non-array", node)
            term, mon = self.lift([(t, mon)], lambda x: (f"(arr_ndim {x[0]})", False))
            return term, "int", mon
        if isinstance(node, ast.BinOp):
            return self.binop(node, env)
        if isinstance(node, ast.Subscript):
            return self.subscript(node, env)
        if isinstance(node, ast.List):
            return self.listlit(node, env)
        if isinstance(node, ast.ListComp):
            return self.listcomp(node, env)
        if isinstance(node, ast.Call):
            return self.call(node, env)
        self.err("expression not accepted: " + type(node).__name__ + " " + ast.unparse(node)[:70], node)

    QOP = {ast.Add: "Qcplus", ast.Sub: "Qcminus", ast.Mult: "Qcmult", ast.Div: "Qcdiv"}
    COP = {ast.Add: "cadd", ast.Sub: "csub", ast.Mult: "cmul", ast.Div: "cdiv"}
    ZOP = {ast.Add: "Z.add", ast.Sub: "Z.sub", ast.Mult: "Z.mul"}

    def binop(self, node, env):
        op = type(node.op)
        lt, lty, lmon = self.E(node.left, env)
        if op is ast.Pow:
            e = self.numlit(node.right)
            if e != 2:
                self.err("only ** 2 / ** 2.0 is accepted", node)
            if lty == "arr":
                term, mon = self.lift([(lt, lmon)], lambda a: (f"(np_sq {a[0]})", False))
                return term, "arr", mon
            if lty == "row":
                term, mon = self.lift([(lt, lmon)], lambda a: (f"(map csq {a[0]})", False))
                return term, "row", mon
            if lty == "cell":
                term, mon = self.lift([(lt, lmon)], lambda a: (f"(csq {a[0]})", False))
                return term, "cell", mon
            self.err("power of this type not accepted", node)
        rt, rty, rmon = self.E(node.right, env)
        if op not in self.COP:
            self.err("operator not accepted: " + op.__name__, node)
        tys = (lty, rty)
        if tys == ("lit", "lit"):
            self.err("arithmetic on two literals", node)
        if op is ast.Mult and lty == "labels" and rty in ("int", "lit"):
            term, mon = self.lift([(lt, lmon), self.part(rt, rty, rmon, "int", node)], lambda x: (f"(py_list_repeat {x[0]} {x[1]})", False))
            return term, "labels", mon
        if all(t in ("int", "lit") for t in tys):
            if op not in self.ZOP:
                self.err("division of Python ints not accepted", node)
            term, mon = self.lift([self.part(lt, lty, lmon, "int", node), self.part(rt, rty, rmon, "int", node)],
                                  lambda x: (f"({self.ZOP[op]} {x[0]} {x[1]})", False))
            return term, "int", mon
        if all(t in ("q", "qrow", "lit") for t in tys):
            f = self.QOP[op]
            if "qrow" not in tys:
                term, mon = self.lift([self.part(lt, lty, lmon, "q", node), self.part(rt, rty, rmon, "q", node)],
                                      lambda x: (f"({f} {x[0]} {x[1]})", False))
                return term, "q", mon
            if tys == ("qrow", "qrow"):
                term, mon = self.lift([(lt, lmon), (rt, rmon)], lambda x: (f"(zipq {f} {x[0]} {x[1]})", True))
                return term, "qrow", mon
            if lty == "qrow":
                term, mon = self.lift([(lt, lmon), self.part(rt, rty, rmon, "q", node)], lambda x: (f"(map (fun x_ => {f} x_ {x[1]}) {x[0]})", False))
            else:
                term, mon = self.lift([self.part(lt, lty, lmon, "q", node), (rt, rmon)], lambda x: (f"(map (fun x_ => {f} {x[0]} x_) {x[1]})", False))
            return term, "qrow", mon
        if "arr" in tys:
            if op is ast.Sub and tys == ("arr", "arr"):
                term, mon = self.lift([(lt, lmon), (rt, rmon)], lambda x: (f"(np_sub_rows {x[0]} {x[1]})", True))
                return term, "arr", mon
            if op is ast.Div and rty == "arr" and lty in ("lit", "cell", "q"):
                term, mon = self.lift([self.part(lt, lty, lmon, "cell", node), (rt, rmon)], lambda x: (f"(np_rdiv {x[0]} {x[1]})", False))
                return term, "arr", mon
            self.err("array arithmetic of this shape not accepted", node)
        f = self.COP[op]

        def lvl(t, ty, mon):
            if ty in ("lit", "q", "cell"):
                return self.part(t, ty, mon, "cell", node), "cell"
            if ty in ("qrow", "row"):
                return self.part(t, ty, mon, "row", node), "row"
            self.err(f"arithmetic on a value of type {ty}", node)
        (pa, aty), (pb, bty) = lvl(lt, lty, lmon), lvl(rt, rty, rmon)
        if (aty, bty) == ("cell", "cell"):
            term, mon = self.lift([pa, pb], lambda x: (f"({f} {x[0]} {x[1]})", False))
            return term, "cell", mon
        if (aty, bty) == ("row", "row"):
            term, mon = self.lift([pa, pb], lambda x: (f"(zipw {f} {x[0]} {x[1]})", True))
        elif aty == "row":
            term, mon = self.lift([pa, pb], lambda x: (f"(map (fun x_ => {f} x_ {x[1]}) {x[0]})", False))
        else:
            term, mon = self.lift([pa, pb], lambda x: (f"(map (fun x_ => {f} {x[0]} x_) {x[1]})", False))
        return term, "row", mon

    def index_term(self, node, env):
        t, ty, mon = self.E(node, env)
        if ty not in ("int", "lit"):
            self.err("index is not a Python int", node)
        return self.part(t, ty, mon, "int", node)

    def subscript(self, node, env):
        sl = node.slice
        # np.atleast_1d(x).shape[0]
        if isinstance(node.value, ast.Attribute) and node.value.attr == "shape" and self.numlit(sl) == 0 \
                and isinstance(node.value.value, ast.Call) and ast.unparse(node.value.value.func) == "np.atleast_1d" \
                and len(node.value.value.args) == 1 and not node.value.value.keywords:
            t, ty, mon = self.E(node.value.value.args[0], env)
            term, mon = self.lift([self.part(t, ty, mon, "arg", node)], lambda x: (f"(py_atleast1d_len {x[0]})", False))
            return term, "int", mon
        # tuple parameter of the constructor
        if isinstance(node.value, ast.Name) and node.value.id in env and env[node.value.id].ty == "tuple3":
            k = self.numlit(sl)
            if k not in (0, 1, 2):
                self.err("tuple element index", node)
            v = env[node.value.id].name[int(k)]
            return v.name, v.ty, False
        if isinstance(sl, ast.Slice):
            bt, bty, bmon = self.E(node.value, env)
            if bty not in ("qrow", "row") or sl.step is not None:
                self.err("slice of this type not accepted", node)
            lo = self.numlit(sl.lower) if sl.lower is not None else None
            hi = self.numlit(sl.upper) if sl.upper is not None else None
            if (lo, hi) == (1, None):
                f = "py_tail"
            elif (lo, hi) == (None, -1):
                f = "py_init"
            else:
                self.err("only [1:] and [:-1] are accepted", node)
            term, mon = self.lift([(bt, bmon)], lambda x: (f"({f} {x[0]})", False))
            return term, bty, mon
        # a[idx][i] on a 2-D array
        if isinstance(node.value, ast.Subscript):
            inner = node.value
            bt, bty, bmon = self.E(inner.value, env)
            if bty == "arr":
                i1, m1 = self.index_term(inner.slice, env)
                i2, m2 = self.index_term(sl, env)
                term, mon = self.lift([(bt, bmon), (i1, m1), (i2, m2)], lambda x: (f"(np_cell2 {x[0]} {x[1]} {x[2]})", True))
                return term, "cell", mon
        bt, bty, bmon = self.E(node.value, env)
        if bty == "ldict":
            kt, kty, kmon = self.E(sl, env)
            if kty != "col":
                self.err("dictionary key is not a column name", node)
            term, mon = self.lift([(bt, bmon), (kt, kmon)], lambda x: (f"(lookup {x[0]} {x[1]})", True))
            return term, "lab", mon
        if bty == "row":
            kt, kty, kmon = self.E(sl, env)
            if kty == "nat":
                term, mon = self.lift([(bt, bmon), (kt, kmon)], lambda x: (f"(nth_res {x[0]} {x[1]})", True))
                return term, "cell", mon
        it, imon = self.index_term(sl, env)
        if bty == "arr":
            if self.numlit(sl) == -1:
                term, mon = self.lift([(bt, bmon)], lambda x: (f"(np_last_row {x[0]})", True))
                return term, "row", mon
            term, mon = self.lift([(bt, bmon), (it, imon)], lambda x: (f"(np_getitem {x[0]} {x[1]})", True))
            return term, "arr", mon
        elt = {"qrow": "q", "row": "cell", "labels": "ldict"}.get(bty)
        if elt is None:
            self.err(f"subscript of a value of type {bty}", node)
        term, mon = self.lift([(bt, bmon), (it, imon)], lambda x: (f"(py_get {x[0]} {x[1]})", True))
        return term, elt, mon

    def listlit(self, node, env):
        if node.elts and all(isinstance(e, ast.Constant) and isinstance(e.value, str) for e in node.elts):
            names = [e.value for e in node.elts]
            if len(set(names)) != len(names) or any('"' in s or not s.isascii() for s in names):
                self.err("column-name table with duplicates / unusual characters", node)
            self.tables.append(names)
            return f"(colkeys gen_column_names_{len(self.tables)})", "cols", False
        parts = []
        for e in node.elts:
            t, ty, mon = self.E(e, env)
            parts.append(self.part(t, ty, mon, "cell", e))
        if not parts:
            self.err("empty list literal", node)
        term, mon = self.lift(parts, lambda x: ("[" + "; ".join(x) + "]", False))
        return term, "row", mon

    def gen_of(self, node):
        if len(node.generators) != 1 or node.generators[0].is_async or not isinstance(node.generators[0].target, ast.Name):
            self.err("exactly one generator with a simple target expected", node)
        return node.generators[0]

    def iter_of(self, node, env):
        """-> (items term, mon, element type)"""
        if isinstance(node, ast.Call) and isinstance(node.func, ast.Name) and node.func.id == "range":
            if len(node.args) != 1 or node.keywords:
                self.err("range(n) only", node)
            t, mon = self.index_term(node.args[0], env)
            term, mon = self.lift([(t, mon)], lambda x: (f"(py_range {x[0]})", False))
            return term, mon, "int"
        t, ty, mon = self.E(node, env)
        if ty == "arr":
            term, mon = self.lift([(t, mon)], lambda x: (f"(np_rows {x[0]})", True))
            return term, mon, "row"
        if ty == "arg":
            term, mon = self.lift([(t, mon)], lambda x: (f"(py_iter {x[0]})", True))
            return term, mon, "cell"
        elt = {"row": "cell", "qrow": "q", "cols": "col", "labels": "ldict"}.get(ty)
        if elt is None:
            self.err(f"iteration over a value of type {ty}", node)
        return t, mon, elt

    def listcomp(self, node, env):
        g = self.gen_of(node)
        if g.ifs:
            self.err("filtered list comprehension", node)
        items, imon, elty = self.iter_of(g.iter, env)
        env2 = dict(env)
        x = vname(g.target.id)
        env2[g.target.id] = Var(x, elty)
        et, ety, emon = self.E(node.elt, env2)
        outty = {"lab": "labrow", "cell": "row", "q": "row"}.get(ety)
        if outty is None:
            self.err(f"list comprehension of elements of type {ety}", node)
        if ety == "q":
            et, emon = self.part(et, ety, emon, "cell", node)
        term, mon = self.lift([(items, imon)], lambda a: (f"(mapM (fun {x} => {self.m((et, emon))}) {a[0]})", True))
        return term, outty, mon

    def call(self, node, env):
        f = node.func
        fn = ast.unparse(f)
        kw = {k.arg: k.value for k in node.keywords}
        if None in kw:
            self.err("**kwargs", node)

        def args(n, allowed_kw=()):
            if len(node.args) != n or set(kw) - set(allowed_kw):
                self.err(f"{fn}: unexpected arguments", node)

        # self.method(...)
        if isinstance(f, ast.Attribute) and isinstance(f.value, ast.Name) and f.value.id == "self":
            name = f.attr
            if name not in METHODS:
                self.err(f"call of self.{name} is not accepted", node)
            kind, params, defaults, ret = METHODS[name]
            if kind != "value":
                self.err(f"self.{name}() used as a value", node)
            if name not in self.done:
                self.err(f"self.{name} is used before it is translated", node)
            args(0)
            return f"(gen_{name} h)", ret, True
        if fn == "len":
            args(1)
            t, ty, mon = self.E(node.args[0], env)
            if ty == "arg":
                term, mon = self.lift([(t, mon)], lambda x: (f"(py_len {x[0]})", True))
            elif ty in ("row", "qrow", "labels", "cols"):
                term, mon = self.lift([(t, mon)], lambda x: (f"(zlen {x[0]})", False))
            else:
                self.err(f"len of a value of type {ty}", node)
            return term, "int", mon
        if fn in ("np.zeros", "np.ones"):
            args(1)
            t, mon = self.index_term(node.args[0], env)
            term, mon = self.lift([(t, mon)], lambda x: (f"({fn.replace('.', '_')} {x[0]})", True))
            return term, "row", mon
        if fn == "np.asarray":
            args(1)
            a = node.args[0]
            if isinstance(a, ast.ListComp):
                g = self.gen_of(a)
                if g.ifs:
                    self.err("filtered comprehension", node)
                it, ity, imon = self.E(g.iter, env)
                if ity != "arr":
                    self.err("np.asarray([... for row in <2-D array>]) expected", node)
                env2 = dict(env)
                x = vname(g.target.id)
                env2[g.target.id] = Var(x, "row")
                et, ety, emon = self.E(a.elt, env2)
                if ety != "row":
                    self.err("comprehension must build rows", node)
                term, mon = self.lift([(it, imon)], lambda z: (f"(np_rows_map {z[0]} (fun {x} => {self.m((et, emon))}))", True))
                return term, "arr", mon
            if isinstance(a, ast.List) and len(a.elts) == 1:
                t, ty, mon = self.E(a.elts[0], env)
                if ty == "row":
                    term, mon = self.lift([(t, mon)], lambda z: (f"(A2 [{z[0]}])", False))
                    return term, "arr", mon
            t, ty, mon = self.E(a, env)
            if ty in ("row", "qrow", "arr"):
                return t, ty, mon
            self.err("np.asarray of this argument not accepted", node)
        if fn == "np.linspace":
            args(2, ("num",))
            if "num" not in kw:
                self.err("np.linspace without num=", node)
            parts = []
            for a in node.args:
                t, ty, mon = self.E(a, env)
                parts.append(self.part(t, ty, mon, "q", a))
            parts.append(self.index_term(kw["num"], env))
            self.linspace = True
            term, mon = self.lift(parts, lambda z: (f"(np_linspace ulinspace {z[0]} {z[1]} {z[2]})", False))
            return term, "qrow", mon
        if fn == "np.digitize":
            args(2)
            vt, vty, vmon = self.E(node.args[0], env)
            et, ety, emon = self.E(node.args[1], env)
            if ety != "qrow":
                self.err("np.digitize: bins must be the bin edges", node)
            term, mon = self.lift([self.part(vt, vty, vmon, "cell", node), (et, emon)], lambda z: (f"(np_digitize {z[0]} {z[1]})", True))
            return term, "int", mon
        if fn == "np.sqrt":
            args(1)
            t, ty, mon = self.E(node.args[0], env)
            self.sqrt = True
            form = {"row": "(map (csqrt usqrt) {0})", "arr": "(arr_map (csqrt usqrt) {0})", "cell": "(csqrt usqrt {0})"}.get(ty)
            if form is None:
                self.err(f"np.sqrt of a value of type {ty}", node)
            term, mon = self.lift([(t, mon)], lambda z: (form.format(z[0]), False))
            return term, ty, mon
        if fn == "np.square":
            args(1)
            t, ty, mon = self.E(node.args[0], env)
            if ty != "arr":
                self.err("np.square of a non-array", node)
            term, mon = self.lift([(t, mon)], lambda z: (f"(np_sq {z[0]})", False))
            return term, "arr", mon
        if fn == "np.sum":
            args(1, ("axis",))
            t, ty, mon = self.E(node.args[0], env)
            if "axis" in kw:
                if self.numlit(kw["axis"]) != 0 or ty != "arr":
                    self.err("np.sum(<2-D array>, axis=0) expected", node)
                term, mon = self.lift([(t, mon)], lambda z: (f"(np_sum0 {z[0]})", True))
                return term, "arr", mon
            if ty != "row":
                self.err("np.sum(<1-D array>) expected", node)
            term, mon = self.lift([(t, mon)], lambda z: (f"(csum {z[0]})", False))
            return term, "cell", mon
        if fn == "np.average":
            args(1, ("axis", "weights"))
            if set(kw) != {"axis", "weights"} or self.numlit(kw["axis"]) != 0:
                self.err("np.average(a, axis=0, weights=w) expected", node)
            t, ty, mon = self.E(node.args[0], env)
            wt, wty, wmon = self.E(kw["weights"], env)
            if ty != "arr" or wty not in ("row", "arr"):
                self.err("np.average: argument types", node)
            fnm = "np_average0" if wty == "row" else "np_average0_2d"
            term, mon = self.lift([(t, mon), (wt, wmon)], lambda z: (f"({fnm} {z[0]} {z[1]})", True))
            return term, "arr", mon
        if fn == "np.vstack":
            args(1)
            tup = node.args[0]
            if not (isinstance(tup, ast.Tuple) and len(tup.elts) == 2):
                self.err("np.vstack((a, row)) expected", node)
            at, aty, amon = self.E(tup.elts[0], env)
            rt, rty, rmon = self.E(tup.elts[1], env)
            if aty != "arr" or rty != "row":
                self.err("np.vstack: argument types", node)
            term, mon = self.lift([(at, amon), (rt, rmon)], lambda z: (f"(np_vstack {z[0]} {z[1]})", True))
            return term, "arr", mon
        if fn in ("np.insert", "np.delete"):
            args(3 if fn == "np.insert" else 2)
            t, ty, mon = self.E(node.args[0], env)
            if ty not in ("row", "qrow"):
                self.err(fn + " of a value of type " + ty, node)
            parts = [(t, mon), self.index_term(node.args[1], env)]
            if fn == "np.insert":
                xt, xty, xmon = self.E(node.args[2], env)
                parts.append(self.part(xt, xty, xmon, "cell" if ty == "row" else "q", node))
            term, mon = self.lift(parts, lambda z: (f"({fn.replace('.', '_')} {' '.join(z)})", True))
            return term, ty, mon
        if fn == "sum":
            args(1)
            ge = node.args[0]
            if not isinstance(ge, ast.GeneratorExp) or self.numlit(ge.elt) != 1:
                self.err("sum(1 for x in l if cond) expected", node)
            g = self.gen_of(ge)
            items, imon, elty = self.iter_of(g.iter, env)
            env2 = dict(env)
            x = vname(g.target.id)
            env2[g.target.id] = Var(x, elty)
            if len(g.ifs) != 1:
                self.err("sum(1 for x in l if cond) expected", node)
            ct, cmon = self.C(g.ifs[0], env2)
            if cmon:
                self.err("condition of the counting sum may raise", node)
            term, mon = self.lift([(items, imon)], lambda z: (f"(zlen (filter (fun {x} => {ct}) {z[0]}))", False))
            return term, "int", mon
        if isinstance(f, ast.Attribute):
            # x.reshape(1, -1), x.astype(float), x.tolist(), l.index(c)
            if f.attr == "reshape":
                if len(node.args) != 2 or kw or self.numlit(node.args[0]) != 1 or self.numlit(node.args[1]) != -1:
                    self.err("only reshape(1, -1) is accepted", node)
                t, ty, mon = self.E(f.value, env)
                if ty != "arr":
                    self.err("reshape of a non-array", node)
                term, mon = self.lift([(t, mon)], lambda z: (f"(np_reshape_row {z[0]})", False))
                return term, "arr", mon
            if f.attr == "astype":
                if len(node.args) != 1 or kw or ast.unparse(node.args[0]) != "float":
                    self.err("only astype(float) is accepted", node)
                t, ty, mon = self.E(f.value, env)
                if ty not in ("row", "qrow"):
                    self.err("astype of this value", node)
                return t, ty, mon
            if f.attr == "tolist":
                args(0)
                t, ty, mon = self.E(f.value, env)
                if ty != "row":
                    self.err("tolist of this value", node)
                return t, ty, mon
            if f.attr == "index":
                args(1)
                lt, lty, lmon = self.E(f.value, env)
                ct, cty, cmon = self.E(node.args[0], env)
                if lty != "cols" or cty != "col":
                    self.err(".index: argument types", node)
                term, mon = self.lift([(lt, lmon), (ct, cmon)], lambda z: (f"(col_index {z[0]} {z[1]})", True))
                return term, "nat", mon
        self.err("call not accepted: " + fn, node)

    # ------------------------------------------------------------------ conditions -> (term, mon)
    def type_names(self, node):
        elts = node.elts if isinstance(node, ast.Tuple) else [node]
        return tuple(ast.unparse(e) for e in elts)

    def isinstance_parts(self, node):
        if isinstance(node, ast.Call) and isinstance(node.func, ast.Name) and node.func.id == "isinstance" \
                and len(node.args) == 2 and not node.keywords:
            return node.args[0], self.type_names(node.args[1])
        return None

    def static_isinstance(self, v, tys, node):
        """isinstance on a value whose Python type is fixed by the model's input domain"""
        ok = {"int": [("int",), ("int", "float")], "q": [("int", "float")], "row": [LIST_T], "qrow": [LIST_T],
              "labels": [("list",)], "ldict": [("dict",)], "cols": [("list",)], "col": [("str",)], "cell": [SCALAR_T]}
        no = {"row": [SCALAR_T], "cell": [LIST_T], "tuple3": [LIST_T], "qrow": [("tuple",)]}
        if v.ty == "tuple3" and tys == ("tuple",):
            return "true"
        if tys in ok.get(v.ty, []):
            if v.ty == "int" and v.isint is not None:
                if tys != ("int",):
                    self.err("isinstance of the bin count against " + str(tys), node)
                return v.isint
            return "true"
        if tys in no.get(v.ty, []):
            return "false"
        self.err(f"isinstance of a {v.ty} value against {tys} is not accepted", node)

    def refine(self, node, env):
        """a test that narrows a variable: -> (scrutinee, pattern, binder type, positive?) or None"""
        p = self.isinstance_parts(node)
        if p and isinstance(p[0], ast.Name) and p[0].id in env and env[p[0].id].ty == "arg":
            v = env[p[0].id]
            if p[1] == SCALAR_T:
                return p[0].id, v.name, f"PScalar {v.name}", "cell", True
            if p[1] == LIST_T:
                return p[0].id, v.name, f"PList {v.name}", "row", True
            self.err(f"isinstance of an argument against {p[1]} is not accepted", node)
        if isinstance(node, ast.Compare) and len(node.ops) == 1 and isinstance(node.ops[0], (ast.Is, ast.IsNot)) \
                and isinstance(node.comparators[0], ast.Constant) and node.comparators[0].value is None \
                and isinstance(node.left, ast.Name) and node.left.id in env and env[node.left.id].ty == "optcols":
            v = env[node.left.id]
            return node.left.id, v.name, f"Some {v.name}", "cols", isinstance(node.ops[0], ast.IsNot)
        return None

    def C(self, node, env):
        if isinstance(node, ast.BoolOp):
            if isinstance(node.op, ast.And):
                return self.conj(list(node.values), env)
            parts = [self.C(v, env) for v in node.values]
            if all(not mon for _, mon in parts):
                return "(" + " || ".join(t for t, _ in parts) + ")", False
            term = self.m(parts[-1])
            for p in reversed(parts[:-1]):
                term = f"(orM {self.m(p)} {term})"
            return term, True
        if isinstance(node, ast.UnaryOp) and isinstance(node.op, ast.Not):
            t, mon = self.C(node.operand, env)
            return (f"(notM {t})", True) if mon else (f"(negb {t})", False)
        r = self.refine(node, env)
        if r is not None:
            py, scrut, pat, ty, pos = r
            if ty == "cols":
                return (f"(negb (opt_is_none {scrut}))" if pos else f"(opt_is_none {scrut})"), False
            return (f"(is_scalar {scrut})" if ty == "cell" else f"(is_list {scrut})"), False
        if isinstance(node, ast.Compare):
            return self.compare(node, env)
        p = self.isinstance_parts(node)
        if p:
            if not (isinstance(p[0], ast.Name) and p[0].id in env):
                self.err("isinstance of an expression", node)
            return self.static_isinstance(env[p[0].id], p[1], node), False
        if isinstance(node, ast.Call):
            fn = ast.unparse(node.func)
            if fn == "np.isnan" and len(node.args) == 1 and not node.keywords:
                t, ty, mon = self.E(node.args[0], env)
                if ty == "int":
                    return "false", False
                if ty != "cell":
                    self.err(f"np.isnan of a value of type {ty}", node)
                return self.lift([(t, mon)], lambda z: (f"(c_nan {z[0]})", False))
            if fn == "np.any" and len(node.args) == 1 and not node.keywords:
                a = node.args[0]
                if isinstance(a, ast.Compare) and len(a.ops) == 1 and isinstance(a.ops[0], ast.Eq) and self.numlit(a.comparators[0]) == 0:
                    t, ty, mon = self.E(a.left, env)
                    if ty == "arr":
                        return self.lift([(t, mon)], lambda z: (f"(np_any_eq0 {z[0]})", True))
                self.err("np.any(<array> == 0) expected", node)
            if isinstance(node.func, ast.Attribute) and node.func.attr == "any" and not node.args and not node.keywords \
                    and isinstance(node.func.value, ast.Call) and ast.unparse(node.func.value.func) == "np.isnan" \
                    and len(node.func.value.args) == 1:
                t, ty, mon = self.E(node.func.value.args[0], env)
                if ty == "arg":
                    return self.lift([(t, mon)], lambda z: (f"(py_isnan_any {z[0]})", True))
                if ty == "row":
                    return self.lift([(t, mon)], lambda z: (f"(existsb c_nan {z[0]})", False))
                if ty == "cell":
                    return self.lift([(t, mon)], lambda z: (f"(c_nan {z[0]})", False))
                self.err(f"np.isnan(x).any() of a value of type {ty}", node)
            if fn == "all" and len(node.args) == 1 and not node.keywords and isinstance(node.args[0], ast.GeneratorExp):
                ge = node.args[0]
                g = self.gen_of(ge)
                if g.ifs:
                    self.err("filtered generator in all()", node)
                items, imon, elty = self.iter_of(g.iter, env)
                env2 = dict(env)
                x = vname(g.target.id)
                env2[g.target.id] = Var(x, elty)
                ct, cmon = self.C(ge.elt, env2)
                if cmon:
                    return self.lift([(items, imon)], lambda z: (f"(forallM (fun {x} => {ct}) {z[0]})", True))
                return self.lift([(items, imon)], lambda z: (f"(forallb (fun {x} => {ct}) {z[0]})", False))
        self.err("condition not accepted: " + ast.unparse(node)[:70], node)

    def conj(self, values, env):
        """a and b and ...: left to right, a narrowing test becomes a match around the remaining conjuncts"""
        if len(values) == 1:
            return self.C(values[0], env)
        first, rest = values[0], values[1:]
        r = self.refine(first, env)
        if r is not None and r[4]:
            py, scrut, pat, ty, _ = r
            env2 = dict(env)
            env2[py] = Var(scrut, ty)
            rt, rmon = self.conj(rest, env2)
            other = "None" if ty == "cols" else "_"
            return f"(match {scrut} with {pat} => {rt} | {other} => {'Ok false' if rmon else 'false'} end)", rmon
        ft, fmon = self.C(first, env)
        rt, rmon = self.conj(rest, env)
        if not fmon and not rmon:
            return f"({ft} && {rt})", False
        return f"(andM {self.m((ft, fmon))} {self.m((rt, rmon))})", True

    def compare(self, node, env):
        if len(node.ops) != 1:
            self.err("chained comparison", node)
        op, l, r = node.ops[0], node.left, node.comparators[0]
        if isinstance(op, (ast.Is, ast.IsNot)):
            if not (isinstance(r, ast.Constant) and r.value is None):
                self.err("`is` accepted only against None", node)
            t, ty, mon = self.E(l, env)
            if ty != "arg" or mon:
                self.err("`is None` of this value", node)
            return (f"(is_none {t})" if isinstance(op, ast.Is) else f"(negb (is_none {t}))"), False
        if isinstance(op, (ast.In, ast.NotIn)):
            ct, cty, cmon = self.E(l, env)
            if cty != "col":
                self.err("membership test of a non-column", node)
            if isinstance(r, ast.Call) and isinstance(r.func, ast.Attribute) and r.func.attr == "keys" and not r.args and not r.keywords:
                dt, dty, dmon = self.E(r.func.value, env)
                if dty != "ldict":
                    self.err(".keys() of a non-dictionary", node)
                term, mon = self.lift([(ct, cmon), (dt, dmon)], lambda z: (f"(has_key {z[1]} {z[0]})", False))
            else:
                lt, lty, lmon = self.E(r, env)
                if lty != "cols":
                    self.err("membership in this container", node)
                term, mon = self.lift([(ct, cmon), (lt, lmon)], lambda z: (f"(col_in {z[0]} {z[1]})", False))
            if isinstance(op, ast.NotIn):
                return (f"(notM {term})", True) if mon else (f"(negb {term})", False)
            return term, mon
        # np.asarray(l).shape != a[-1].shape
        if isinstance(op, ast.NotEq) and isinstance(l, ast.Attribute) and l.attr == "shape" and isinstance(r, ast.Attribute) and r.attr == "shape":
            if isinstance(l.value, ast.Call) and ast.unparse(l.value.func) == "np.asarray" and len(l.value.args) == 1 \
                    and isinstance(r.value, ast.Subscript) and self.numlit(r.value.slice) == -1:
                lt, lty, lmon = self.E(l.value.args[0], env)
                at, aty, amon = self.E(r.value.value, env)
                if lty == "row" and aty == "arr":
                    return self.lift([(lt, lmon), (at, amon)], lambda z: (f"(np_shape_ne_last {z[0]} {z[1]})", True))
            self.err("shape comparison of this form not accepted", node)
        if isinstance(l, ast.Name) and l.id in env and env[l.id].ty == "str":
            self.err("string comparison", node)
        lt, lty, lmon = self.E(l, env)
        rt, rty, rmon = self.E(r, env)
        tys = (lty, rty)
        if tys == ("lit", "lit"):
            self.err("comparison of two literals", node)
        if all(t in ("int", "lit") for t in tys):
            want, tab = "int", {ast.Lt: "({0} <? {1})%Z", ast.LtE: "({0} <=? {1})%Z", ast.Gt: "({1} <? {0})%Z", ast.GtE: "({1} <=? {0})%Z",
                                ast.Eq: "({0} =? {1})%Z", ast.NotEq: "(negb ({0} =? {1})%Z)"}
        elif all(t in ("q", "lit") for t in tys):
            want, tab = "q", {ast.Lt: "(Qcltb {0} {1})", ast.LtE: "(Qcleb {0} {1})", ast.Gt: "(Qcltb {1} {0})", ast.GtE: "(Qcleb {1} {0})",
                              ast.Eq: "(Qc_eq_bool {0} {1})", ast.NotEq: "(negb (Qc_eq_bool {0} {1}))"}
        elif all(t in ("q", "lit", "cell") for t in tys):
            want, tab = "cell", {ast.Lt: "(c_ltb {0} {1})", ast.LtE: "(c_leb {0} {1})", ast.Gt: "(c_ltb {1} {0})", ast.GtE: "(c_leb {1} {0})",
                                 ast.Eq: "(c_eqb {0} {1})", ast.NotEq: "(negb (c_eqb {0} {1}))"}
        else:
            self.err(f"comparison of values of types {tys}", node)
        if type(op) not in tab:
            self.err("comparison operator not accepted", node)
        return self.lift([self.part(lt, lty, lmon, want, node), self.part(rt, rty, rmon, want, node)],
                         lambda z: (tab[type(op)].format(z[0], z[1]), False))

    # ------------------------------------------------------------------ statements
    def none_guard(self, st):
        if isinstance(st, ast.If) and not st.orelse and len(st.body) == 1 and isinstance(st.body[0], ast.Raise) \
                and isinstance(st.test, ast.Compare) and len(st.test.ops) == 1 and isinstance(st.test.ops[0], ast.Is) \
                and isinstance(st.test.comparators[0], ast.Constant) and st.test.comparators[0].value is None:
            a = self.self_attr(st.test.left)
            if a in ATTR:
                exc = st.body[0].exc
                if isinstance(exc, ast.Call) and isinstance(exc.func, ast.Name) and exc.func.id == "TypeError":
                    return True
        return False

    def state_tuple(self, names, env):
        comps = ["h"]
        for n in names:
            if n not in env:
                self.err(f"variable {n} may be unbound where two paths join", None)
            comps.append(env[n].name)
        return comps[0] if len(comps) == 1 else "(" + ", ".join(comps) + ")"

    @staticmethod
    def bindp(pat, term, cont):
        if pat.startswith("'"):
            return f"(bind {term} (fun {pat} => {cont}))"
        return f"(do {pat} <- {term}; {cont})"

    def state_pat(self, names):
        return "h" if not names else "'(h, " + ", ".join(vname(n) for n in names) + ")"

    def S(self, stmts, env, k, live, in_loop=False):
        if not stmts:
            return k(env)
        st, rest = stmts[0], stmts[1:]
        live_after = loads(rest) | live

        def cont(env2):
            return self.S(rest, env2, k, live, in_loop)

        if isinstance(st, ast.Expr) and isinstance(st.value, ast.Constant) and isinstance(st.value.value, str):
            return cont(env)
        if isinstance(st, ast.Pass):
            return cont(env)
        if self.none_guard(st):
            return cont(env)
        if isinstance(st, ast.Raise):
            if rest:
                self.err("statements after raise", rest[0])
            e = st.exc
            if not (isinstance(e, ast.Call) and isinstance(e.func, ast.Name) and e.func.id in EXN and len(e.args) == 1
                    and self.is_msg(e.args[0]) and not e.keywords and st.cause is None):
                self.err("raise of this form not accepted", st)
            return f"Err {e.func.id}"
        if isinstance(st, ast.Return):
            if rest:
                self.err("statements after return", rest[0])
            if in_loop:
                self.err("return inside a loop", st)
            return self.ret(st, env)
        if isinstance(st, ast.AnnAssign):
            return self.annassign(st, env, cont)
        if isinstance(st, ast.Assign):
            return self.assign(st, env, cont)
        if isinstance(st, ast.AugAssign):
            return self.augassign(st, env, cont)
        if isinstance(st, ast.Expr) and isinstance(st.value, ast.Call):
            c = st.value
            fn = ast.unparse(c.func)
            if fn == "warnings.warn":
                if len(c.args) != 1 or c.keywords or not self.is_msg(c.args[0]):
                    self.err("warnings.warn(<text>) expected", st)
                return cont(env)
            if isinstance(c.func, ast.Attribute) and isinstance(c.func.value, ast.Name) and c.func.value.id == "self":
                return f"(do h <- {self.method_call(c, env)}; {cont(env)})"
            self.err("expression statement not accepted: " + fn, st)
        if isinstance(st, ast.If):
            return self.tr_if(st, rest, env, k, live, live_after, in_loop)
        if isinstance(st, ast.For):
            return self.tr_for(st, rest, env, k, live, live_after, in_loop)
        if isinstance(st, ast.With) and self.with_handler is not None:
            if rest:
                self.err("statements after the with block", rest[0])
            return self.with_handler(st, env)
        self.err("statement not accepted: " + type(st).__name__, st)

    def method_call(self, c, env):
        name = c.func.attr
        if name not in METHODS or METHODS[name][0] != "state":
            self.err(f"call of self.{name} as a statement is not accepted", c)
        kind, params, defaults, _ = METHODS[name]
        given = {}
        if len(c.args) > len(params):
            self.err("too many arguments", c)
        for (pn, _), a in zip(params, c.args):
            given[pn] = a
        for kwd in c.keywords:
            if kwd.arg is None or kwd.arg in given or kwd.arg not in [p for p, _ in params]:
                self.err("keyword argument not accepted", c)
            given[kwd.arg] = kwd.value
        parts = []
        for pn, pty in params:
            if pn in given:
                t, ty, mon = self.E(given[pn], env)
                parts.append(self.part(t, ty, mon, pty, c))
            elif pn in defaults:
                parts.append((defaults[pn], False))
            else:
                self.err(f"missing argument {pn}", c)
        if name == self.fname:
            head = "self_" + name
        else:
            if name not in self.done:
                self.err(f"self.{name} is used before it is translated", c)
            head = "gen_" + name
            if name in USES_SQRT:
                self.sqrt = True
        term, _ = self.lift(parts, lambda z: (f"({head} h{''.join(' ' + a for a in z)})", True))
        return term

    def ret(self, st, env):
        if self.kind == "state":
            v = st.value
            if v is None or (isinstance(v, ast.Name) and v.id == "self") or (self.self_attr(v) in ATTR):
                return self.finish(env)
            self.err("a state-changing method may only return self / one of its arrays / nothing", st)
        if st.value is None:
            self.err("value method without a returned value", st)
        t, ty, mon = self.E(st.value, env)
        t, mon = self.part(t, ty, mon, self.retty, st)
        return t if mon else f"Ok {t}"

    def finish(self, env):
        return "Ok h"

    def annassign(self, st, env, cont):
        a = self.self_attr(st.target)
        if not self.in_init or a not in ATTR or st.value is None:
            self.err("annotated assignment accepted only as `self.<attr>: T = ...` in the constructor", st)
        if isinstance(st.value, ast.Constant) and st.value.value is None:
            return cont(env)
        return self.set_attr(a, st.value, env, cont, st)

    def set_attr(self, a, value, env, cont, st):
        f, aty = ATTR[a]
        t, ty, mon = self.E(value, env)
        if aty == "int":
            term, _ = self.lift([self.part(t, ty, mon, "int", st)], lambda z: (f"(to_count {z[0]})", True))
            n = self.fresh("n")
            self.assigned_attrs.add(a)
            return f"(do {n} <- {term}; let h := set_{f} h {n} in {cont(env)})"
        t, mon = self.part(t, ty, mon, aty, st)
        self.assigned_attrs.add(a)
        if mon:
            x = self.fresh("a")
            return f"(do {x} <- {t}; let h := set_{f} h {x} in {cont(env)})"
        return f"(let h := set_{f} h {t} in {cont(env)})"

    def assign(self, st, env, cont):
        if len(st.targets) != 1:
            self.err("multiple assignment targets", st)
        tg = st.targets[0]
        if isinstance(tg, ast.Name):
            if self.is_msg(st.value):
                self.msgs.add(tg.id)
                return cont(env)
            t, ty, mon = self.E(st.value, env)
            if ty == "lit":
                if t.denominator != 1:
                    self.err("non-integral literal bound to a local", st)
                t, ty = self.lit(t, "int", st), "int"
            name = vname(tg.id)
            env2 = dict(env)
            isint = None
            sv = st.value
            if isinstance(sv, ast.Subscript) and isinstance(sv.value, ast.Name) and sv.value.id in env \
                    and env[sv.value.id].ty == "tuple3" and self.numlit(sv.slice) in (0, 1, 2):
                isint = env[sv.value.id].name[int(self.numlit(sv.slice))].isint
            elif isinstance(sv, ast.Name) and sv.id in env:
                isint = env[sv.id].isint
            env2[tg.id] = Var(name, ty, isint)
            if mon:
                return f"(do {name} <- {t}; {cont(env2)})"
            return f"(let {name} := {t} in {cont(env2)})"
        a = self.self_attr(tg)
        if a is not None:
            if a == "histogram_raw_count_":
                if ast.unparse(st.value) != "self.histograms_raw_count_[0]":
                    self.err("the legacy attribute histogram_raw_count_ is accepted only as an alias of histograms_raw_count_[0]", st)
                return cont(env)
            if a not in ATTR:
                self.err(f"assignment to self.{a}", st)
            return self.set_attr(a, st.value, env, cont, st)
        if isinstance(tg, ast.Subscript) and self.self_attr(tg.value) in ATTR and ATTR[self.self_attr(tg.value)][1] == "arr":
            f = ATTR[self.self_attr(tg.value)][0]
            vt, vty, vmon = self.E(st.value, env)
            if vty != "row":
                self.err("only a row can be stored into a[i]", st)
            if self.numlit(tg.slice) == -1:
                term, _ = self.lift([(vt, vmon)], lambda z: (f"(np_set_last ({f} h) {z[0]})", True))
            else:
                it, imon = self.index_term(tg.slice, env)
                term, _ = self.lift([(vt, vmon), (it, imon)], lambda z: (f"(np_setitem_row ({f} h) {z[1]} {z[0]})", True))
            x = self.fresh("a")
            return f"(do {x} <- {term}; let h := set_{f} h {x} in {cont(env)})"
        self.err("assignment target not accepted", st)

    def augassign(self, st, env, cont):
        tg = st.target
        if isinstance(tg, ast.Name):
            if tg.id not in env or env[tg.id].ty != "int" or type(st.op) not in self.ZOP:
                self.err("augmented assignment of this local", st)
            t, mon = self.index_term(st.value, env)
            name = env[tg.id].name
            term, mon = self.lift([(t, mon)], lambda z: (f"({self.ZOP[type(st.op)]} {name} {z[0]})", False))
            env2 = dict(env)
            env2[tg.id] = Var(vname(tg.id), "int")
            if mon:
                return f"(do {vname(tg.id)} <- {term}; {cont(env2)})"
            return f"(let {vname(tg.id)} := {term} in {cont(env2)})"
        a = self.self_attr(tg)
        if a in ATTR and ATTR[a][1] == "int":
            if type(st.op) not in self.ZOP:
                self.err("augmented assignment operator", st)
            val = ast.BinOp(left=tg, op=st.op, right=st.value)
            ast.copy_location(val, st)
            return self.set_attr(a, val, env, cont, st)
        if isinstance(tg, ast.Subscript) and self.self_attr(tg.value) in ATTR and ATTR[self.self_attr(tg.value)][1] == "arr":
            f = ATTR[self.self_attr(tg.value)][0]
            sl = tg.slice
            x = self.fresh("a")
            if isinstance(st.op, ast.Add) and isinstance(sl, ast.Tuple) and len(sl.elts) == 2 and self.numlit(sl.elts[0]) == -1:
                jt, jmon = self.index_term(sl.elts[1], env)
                wt, wty, wmon = self.E(st.value, env)
                term, _ = self.lift([(jt, jmon), self.part(wt, wty, wmon, "arg", st)], lambda z: (f"(np_iadd_last2 ({f} h) {z[0]} {z[1]})", True))
                return f"(do {x} <- {term}; let h := set_{f} h {x} in {cont(env)})"
            if isinstance(st.op, ast.Mult) and self.numlit(sl) == -1:
                wt, wty, wmon = self.E(st.value, env)
                if wty in ("cell", "lit", "q"):
                    pw, fn = self.part(wt, wty, wmon, "cell", st), "np_imul_last_scalar"
                elif wty == "row":
                    pw, fn = (wt, wmon), "np_imul_last_list"
                else:
                    self.err(f"a[-1] *= <{wty}>", st)
                term, _ = self.lift([pw], lambda z: (f"({fn} ({f} h) {z[0]})", True))
                return f"(do {x} <- {term}; let h := set_{f} h {x} in {cont(env)})"
        self.err("augmented assignment not accepted: " + ast.unparse(st)[:60], st)

    def tr_if(self, st, rest, env, k, live, live_after, in_loop):
        tb, te = terminates(st.body), terminates(st.orelse)
        r = self.refine(st.test, env)
        if r is not None:
            py, scrut, pat, ty, pos = r
            envr = dict(env)
            envr[py] = Var(scrut, ty)
            other = "None" if ty == "cols" else "_"
            if pos:
                envb, enve = envr, env
                mk = lambda b, e: f"(match {scrut} with {pat} => {b} | {other} => {e} end)"
            else:
                envb, enve = env, envr
                mk = lambda b, e: f"(match {scrut} with {pat} => {e} | {other} => {b} end)"
        else:
            ct, cmon = self.C(st.test, env)
            envb = enve = env
            if cmon:
                c = self.fresh("c")
                mk = lambda b, e: f"(do {c} <- {ct}; if {c} then {b} else {e})"
            else:
                mk = lambda b, e: f"(if {ct} then {b} else {e})"

        def cont(env2):
            return self.S(rest, env2, k, live, in_loop)

        def dead(_):
            self.err("internal: continuation of a terminating branch", st)
        if tb and te:
            if rest:
                self.err("statements after an if whose branches all return/raise", rest[0])
            return mk(self.S(st.body, envb, dead, live_after, in_loop), self.S(st.orelse, enve, dead, live_after, in_loop))
        if tb:
            return mk(self.S(st.body, envb, dead, live_after, in_loop), self.S(st.orelse, enve, cont, live_after, in_loop))
        if te:
            return mk(self.S(st.body, envb, cont, live_after, in_loop), self.S(st.orelse, enve, dead, live_after, in_loop))
        jvars = sorted(assigned([st]) & live_after)
        ends = []

        def kend(e):
            ends.append(e)
            return "Ok " + self.state_tuple(jvars, e)
        term = mk(self.S(st.body, envb, kend, live_after, in_loop), self.S(st.orelse, enve, kend, live_after, in_loop))
        env2 = dict(env)
        for j in jvars:
            tys = {e[j].ty for e in ends}
            if len(tys) != 1:
                self.err(f"variable {j} has different types on different paths", st)
            env2[j] = Var(vname(j), tys.pop())
        return self.bindp(self.state_pat(jvars), term, cont(env2))

    def tr_for(self, st, rest, env, k, live, live_after, in_loop):
        if st.orelse:
            self.err("for-else", st)
        for n in ast.walk(st):
            if isinstance(n, (ast.Break, ast.Continue, ast.Return)):
                self.err("break/continue/return inside a loop", n)
        envb = dict(env)
        it = st.iter
        if isinstance(it, ast.Call) and isinstance(it.func, ast.Name) and it.func.id == "zip":
            if len(it.args) != 2 or it.keywords or not (isinstance(st.target, ast.Tuple) and len(st.target.elts) == 2
                                                        and all(isinstance(e, ast.Name) for e in st.target.elts)):
                self.err("zip(a, b) with a pair target expected", st)
            parts, tys = [], []
            for a in it.args:
                t, mon, elty = self.iter_of(a, env)
                parts.append((t, mon))
                tys.append(elty)
            items, imon = self.lift(parts, lambda z: (f"(combine {z[0]} {z[1]})", False))
            names = [e.id for e in st.target.elts]
            for nme, ty in zip(names, tys):
                envb[nme] = Var(vname(nme), ty)
            binder = "'(" + ", ".join(vname(nme) for nme in names) + ")"
            targets = set(names)
        else:
            if not isinstance(st.target, ast.Name):
                self.err("loop target", st)
            items, imon, elty = self.iter_of(it, env)
            envb[st.target.id] = Var(vname(st.target.id), elty)
            binder = vname(st.target.id)
            targets = {st.target.id}
        if targets & live_after:
            self.err("loop variable is read after the loop", st)
        state = sorted((assigned(st.body) - targets) & (live_after | (loads(st.body) & set(env))))
        for s in state:
            if s not in env:
                self.err(f"loop state {s} is unbound before the loop", st)
        body_live = live_after | loads(st.body)
        ends = []

        def kend(e):
            ends.append(e)
            return "Ok " + self.state_tuple(state, e)
        body = self.S(st.body, envb, kend, body_live, True)
        for e in ends:
            for s in state:
                if e[s].ty != env[s].ty:
                    self.err(f"loop state {s} changes type", st)
        env2 = dict(env)
        for s in state:
            env2[s] = Var(vname(s), env[s].ty)
        pat = self.state_pat(state)
        loop, _ = self.lift([(items, imon)],
                            lambda z: (f"(fold_leftM (fun {pat} {binder} => {body}) {z[0]} {self.state_tuple(state, env)})", True))
        return self.bindp(pat, loop, self.S(rest, env2, k, live, in_loop))

    # ------------------------------------------------------------------ functions
    def setup(self, name, kind, retty):
        self.fname, self.kind, self.retty = name, kind, retty
        self.msgs, self.tables, self.assigned_attrs = set(), [], set()
        self.in_init, self.with_handler = False, None

    def method(self, fdef):
        name = fdef.name
        kind, params, defaults, retty = METHODS[name]
        self.setup(name, kind, retty)
        check_params(fdef, [p for p, _ in params], {p: None for p in defaults}, self.path)
        env = {p: Var(vname(p), ty) for p, ty in params}
        body = self.S(strip_doc(fdef.body), env, lambda e: self.finish(e) if kind == "state" else self.err("value method may end without return", fdef), set())
        ps = "".join(f" ({vname(p)} : {COQ_TY[ty]})" for p, ty in params)
        rty = "hist" if kind == "state" else "(" + COQ_TY[retty] + ")"
        recursive = f"self_{name} " in body
        if recursive:
            sig = "hist -> " + " -> ".join(COQ_TY[ty] for _, ty in params) + " -> result hist"
            return (f"Definition gen_{name}_body (self_{name} : {sig}) (h : hist){ps} : result {rty} :=\n  {body}.\n"
                    f"(* the recursive calls act on the elements of a 1-D list, which are numbers: two levels are exact *)\n"
                    f"Definition gen_{name} := gen_{name}_body (gen_{name}_body (fun _ {' '.join('_' for _ in params)} => Err Unmodelled)).\n")
        return f"Definition gen_{name} (h : hist){ps} : result {rty} :=\n  {body}.\n"


def check_params(fdef, names, defaults, path):
    a = fdef.args
    if a.vararg or a.kwarg or a.kwonlyargs or a.posonlyargs:
        raise TranslateError(f"{fdef.name}: parameter kinds not accepted", fdef, path)
    got = [p.arg for p in a.args]
    if got != ["self"] + names:
        raise TranslateError(f"{fdef.name}: parameters are {got[1:]}, expected {names}", fdef, path)
    dn = got[len(got) - len(a.defaults):]
    if sorted(dn) != sorted(defaults):
        raise TranslateError(f"{fdef.name}: defaults on {dn}, expected on {sorted(defaults)}", fdef, path)
    for p, d in zip(dn, a.defaults):
        if not (isinstance(d, ast.Constant) and d.value == defaults[p] and type(d.value) is type(defaults[p])):
            raise TranslateError(f"{fdef.name}: default of {p} is {ast.unparse(d)}, expected {defaults[p]!r}", fdef, path)


# ---------------------------------------------------------------------------------------- the constructor
def constructor(cls, path, done):
    """-> text of gen_init_tuple / gen_init_list: the two accepted argument forms as separate functions"""
    fdef = find_func(cls, "__init__")
    check_params(fdef, ["bin_boundaries"], {}, path)
    body = strip_doc(fdef.body)
    pre = [s for s in body if isinstance(s, ast.AnnAssign)]
    if body[:len(pre)] != pre or len(body) != len(pre) + 1 or not isinstance(body[-1], ast.If):
        raise TranslateError("__init__: expected the attribute declarations followed by one if/elif/else", fdef, path)
    top = body[-1]
    if ast.unparse(top.test) != "isinstance(bin_boundaries, tuple) and len(bin_boundaries) == 3":
        raise TranslateError("__init__: first dispatch test must be `isinstance(bin_boundaries, tuple) and len(bin_boundaries) == 3`", top, path)
    if not (len(top.orelse) == 1 and isinstance(top.orelse[0], ast.If)):
        raise TranslateError("__init__: expected an elif for list / ndarray", top, path)
    second = top.orelse[0]
    if ast.unparse(second.test) != "isinstance(bin_boundaries, (list, np.ndarray))":
        raise TranslateError("__init__: second dispatch test must be `isinstance(bin_boundaries, (list, np.ndarray))`", second, path)
    els = second.orelse
    if not (len(els) == 1 and isinstance(els[0], ast.Raise) and isinstance(els[0].exc, ast.Call)
            and ast.unparse(els[0].exc.func) == "TypeError"):
        raise TranslateError("__init__: any other argument must raise TypeError", second, path)
    out = []
    for name, branch, mkenv, params in (
            ("gen_init_tuple", top.body,
             lambda: {"bin_boundaries": Var([Var("b0", "q"), Var("b1", "q"), Var("b2", "int", isint="b2_is_int")], "tuple3")},
             "(b0 b1 : Qc) (b2_is_int : bool) (b2 : Z)"),
            ("gen_init_list", second.body, lambda: {"bin_boundaries": Var("v_bin_boundaries", "qrow")}, "(v_bin_boundaries : list Qc)")):
        tr = Tr(path, done)
        tr.setup("__init__", "state", None)
        tr.in_init = True
        ends = []

        def fin(e, tr=tr):
            ends.append(set(tr.assigned_attrs))
            return "Ok h"
        tr.finish = fin
        text = tr.S(pre + branch, mkenv(), fin, set())
        # every attribute must have been assigned on the (single, straight-line) path that ends the branch
        if len(ends) != 1 or ends[0] != set(ATTR):
            raise TranslateError(f"__init__ ({name}): a path does not assign every attribute: {sorted(set(ATTR) - (ends[0] if ends else set()))}", fdef, path)
        out.append(f"Definition {name} {params} : result hist :=\n  let h := hist_blank in\n  {text}.\n")
    return "".join(out), "(* else: raise TypeError (neither a 3-tuple nor a list / ndarray) *)\nDefinition gen_init_other : ecls := TypeError.\n"


# ---------------------------------------------------------------------------------------- write_to_file
def write_to_file(cls, path, done):
    fdef = find_func(cls, "write_to_file")
    check_params(fdef, ["filename", "hist_labels", "comment", "columns"], {"comment": "", "columns": None}, path)
    tr = Tr(path, done)
    tr.setup("write_to_file", "value", None)
    env = {"filename": Var("tt", "str"), "comment": Var("tt", "str"), "hist_labels": Var("v_hist_labels", "labels"),
           "columns": Var("v_columns", "optcols")}

    def writerow_arg(st, what):
        if not (isinstance(st, ast.Expr) and isinstance(st.value, ast.Call) and ast.unparse(st.value.func) == "writer.writerow"
                and len(st.value.args) == 1 and not st.value.keywords and isinstance(st.value.args[0], ast.Name)):
            raise TranslateError(f"write_to_file: expected `writer.writerow(<{what}>)`", st, path)
        return st.value.args[0].id

    def handler(st, env):
        if not (len(st.items) == 1 and ast.unparse(st.items[0].context_expr) == 'open(filename, "w")'.replace('"', "'")
                and ast.unparse(st.items[0].optional_vars) == "f"):
            raise TranslateError("write_to_file: expected `with open(filename, \"w\") as f:`", st, path)
        b = st.body
        if not (len(b) == 3 and ast.unparse(b[0]) == "writer = csv.writer(f)"
                and ast.unparse(b[1]) == "if comment != '':\n    f.write(comment)\n    f.write('\\n')" and isinstance(b[2], ast.For)):
            raise TranslateError("write_to_file: expected csv.writer, the comment block and one loop over the histograms", st, path)
        outer = b[2]
        if not (isinstance(outer.target, ast.Name) and not outer.orelse and len(outer.body) >= 4
                and ast.unparse(outer.body[-1]) == "f.write('\\n')" and isinstance(outer.body[-2], ast.For)):
            raise TranslateError("write_to_file: outer loop must end with the loop over the bins and `f.write(\"\\n\")`", outer, path)
        inner = outer.body[-2]
        hname = writerow_arg(outer.body[-3], "header")
        if not (isinstance(inner.target, ast.Name) and not inner.orelse and len(inner.body) >= 2):
            raise TranslateError("write_to_file: inner loop shape", inner, path)
        dname = writerow_arg(inner.body[-1], "data")
        oitems, omon, oty = tr.iter_of(outer.iter, env)
        env1 = dict(env)
        env1[outer.target.id] = Var(vname(outer.target.id), oty)

        def after_header(env2):
            if hname not in env2 or env2[hname].ty != "labrow":
                raise TranslateError("write_to_file: the header row is not a list of labels", outer, path)
            iitems, imon, ity = tr.iter_of(inner.iter, env2)
            env3 = dict(env2)
            env3[inner.target.id] = Var(vname(inner.target.id), ity)

            def after_data(env4):
                if dname not in env4 or env4[dname].ty != "row":
                    raise TranslateError("write_to_file: the data row is not a list of numbers", inner, path)
                return f"Ok {env4[dname].name}"
            ibody = tr.S(inner.body[:-1], env3, after_data, {dname})
            rows, _ = tr.lift([(iitems, imon)], lambda z: (f"(mapM (fun {vname(inner.target.id)} => {ibody}) {z[0]})", True))
            return f"(do rows_ <- {rows}; Ok ({env2[hname].name}, rows_))"
        obody = tr.S(outer.body[:-3], env1, after_header, {hname} | loads(inner.body))
        term, _ = tr.lift([(oitems, omon)], lambda z: (f"(mapM (fun {vname(outer.target.id)} => {obody}) {z[0]})", True))
        return term
    tr.with_handler = handler

    def no_end(e):
        raise TranslateError("write_to_file: must end with the with-block", fdef, path)
    body = tr.S(strip_doc(fdef.body), env, no_end, set())
    if len(tr.tables) != 1:
        raise TranslateError("write_to_file: expected exactly one literal list of column names", fdef, path)
    names = tr.tables[0]
    tab = ("Definition gen_column_names_1 : list string :=\n  [" + "; ".join('"' + s + '"' for s in names) + "]%string.\n")
    return tab + ("Definition gen_write_to_file (h : hist) (v_hist_labels : list ldict) (v_columns : option (list nat)) : result table :=\n"
                  f"  {body}.\n")


def generate():
    tree, path = parse(SRC)
    cls = find_class(tree, "Histogram")
    USES_SQRT.clear()
    done = set()
    defs = []
    for name in ORDER:
        tr = Tr(path, done)
        text = tr.method(find_func(cls, name))
        if tr.sqrt:
            USES_SQRT.add(name)
        if tr.linspace:
            raise TranslateError(f"{name}: np.linspace outside the constructor", None, path)
        defs.append(f"(* {name} *)\n" + text)
        done.add(name)
    init, other = constructor(cls, path, done)
    wtf = write_to_file(cls, path, done)
    out = [HEADER,
           "From Coq Require Import String List ZArith QArith Qcanon Bool Arith.\n"
           "From SX Require Import Model.Histogram Lib.HistRt.\nImport ListNotations.\nLocal Open Scope Z_scope.\n\n",
           "Section Gen.\n  Variable usqrt : Qc -> Qc.\n  Variable ulinspace : Qc -> Qc -> nat -> list Qc.\n\n",
           "\n".join(defs), "\n(* __init__ *)\n", init, "End Gen.\n\n", other, "\n(* write_to_file *)\n", wtf,
           "\n(* which translated methods reach np.sqrt (they take the sqrt oracle as first argument) *)\n",
           "Definition gen_uses_sqrt : list string := [" + "; ".join('"' + n + '"' for n in ORDER if n in USES_SQRT) + "]%string.\n"]
    return "".join(out)


def main(outdir):
    return write_if_changed(outdir + "/GenHistogram.v", generate())

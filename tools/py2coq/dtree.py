"""`dtree` extractor (the `guardexpr` shape of DESIGN.md for the cumulant -> flow conversion):
a method that assigns one result variable along an if/elif/else tree and returns it.

  statements : `name = expr` | `if test: ... [elif ...] [else: ...]` | `return <result name>`
  tests      : `x >= 0.0`, `x > 0.0`, `x < 0.0`, `x <= 0.0` (x real), `self.imaginary_ == "lit"`, `self.k_ == c`
  expr       : parameters / locals, integral literals, `float("nan")`, unary -, * /, `self.cumulant_factor_[self.k_]`,
               `base ** (c / self.k_)`   (real base; emitted as the root oracle `krpow c kk base`)

The result is `option` (None = NaN); sequential assignment is rendered by shadowing lets, an `if` that assigns
the result in some branches becomes `let r := if test then <branch> else <branch or previous r> in`.
"""
import ast
from .core import TranslateError, int_const
from .npvec import kconst


class DTree:
    def __init__(self, func, path, params, result_complex):
        self.f, self.path, self.rc = func, path, result_complex
        self.types = dict(params)          # name -> 'R' | 'C'
        body = [s for s in func.body if not (isinstance(s, ast.Expr) and isinstance(s.value, ast.Constant))]
        if not (body and isinstance(body[-1], ast.Return) and isinstance(body[-1].value, ast.Name)):
            raise TranslateError("expected `return <name>` as last statement", func, path)
        self.res = body[-1].value.id
        self.stmts = body[:-1]

    def err(self, msg, node):
        raise TranslateError(msg, node, self.path)

    # -------------------------------------------------------------- expressions: (type, code), type in R C NAN
    def expr(self, n):
        if isinstance(n, ast.Name):
            if n.id in self.types and n.id != self.res:
                return self.types[n.id], "v_" + n.id
            self.err(f"name `{n.id}` not available", n)
        if isinstance(n, ast.Constant):
            return "R", kconst(int_const(n, self.path))
        if isinstance(n, ast.Call) and ast.unparse(n) in ("float('nan')", 'float("nan")'):
            return "NAN", None
        if isinstance(n, ast.Subscript) and ast.unparse(n) == "self.cumulant_factor_[self.k_]":
            return "R", "(gen_factor kk)"
        if isinstance(n, ast.UnaryOp) and isinstance(n.op, ast.USub):
            if isinstance(n.operand, ast.Constant):
                return "R", kconst(-int_const(n.operand, self.path))
            t, c = self.expr(n.operand)
            if t == "NAN":
                self.err("arithmetic on NaN literal", n)
            return t, f"({'kopp' if t == 'R' else 'copp'} {c})"
        if isinstance(n, ast.BinOp):
            if isinstance(n.op, ast.Pow):
                t, c = self.expr(n.left)
                e = n.right
                if not (t == "R" and isinstance(e, ast.BinOp) and isinstance(e.op, ast.Div)
                        and ast.unparse(e.right) == "self.k_"):
                    self.err("expected `<real> ** (c / self.k_)`", n)
                return "R", f"(krpow {int_const(e.left, self.path)}%nat kk {c})"
            (ta, a), (tb, b) = self.expr(n.left), self.expr(n.right)
            if "NAN" in (ta, tb):
                self.err("arithmetic on NaN literal", n)
            if isinstance(n.op, ast.Mult):
                if ta == tb == "R":
                    return "R", f"(kmul {a} {b})"
                if ta == "R":
                    return "C", f"(cscale {a} {b})"
                if tb == "R":
                    return "C", f"(cscale {b} {a})"
                return "C", f"(cmul {a} {b})"
            if isinstance(n.op, ast.Div):
                if tb != "R":
                    self.err("division by a complex value", n)
                return (ta, f"(kdiv {a} {b})") if ta == "R" else ("C", f"(cdivr {a} {b})")
            self.err("operator not accepted", n)
        self.err("expression not accepted: " + ast.unparse(n)[:60], n)

    def test(self, n):
        if isinstance(n, ast.Compare) and len(n.ops) == 1:
            l, r, op = n.left, n.comparators[0], n.ops[0]
            if ast.unparse(l) == "self.imaginary_" and isinstance(op, ast.Eq) and isinstance(r, ast.Constant) \
                    and isinstance(r.value, str):
                return f'(String.eqb imag "{r.value}")'
            if ast.unparse(l) == "self.k_" and isinstance(op, ast.Eq):
                return f"(Nat.eqb kk {int_const(r, self.path)}%nat)"
            if int_const(r, self.path) == 0:
                t, c = self.expr(l)
                if t != "R":
                    self.err("comparison of a non-real value", n)
                z = kconst(0)
                if isinstance(op, ast.GtE):
                    return f"(kleb {z} {c})"
                if isinstance(op, ast.Gt):
                    return f"(kltb {z} {c})"
                if isinstance(op, ast.Lt):
                    return f"(kltb {c} {z})"
                if isinstance(op, ast.LtE):
                    return f"(kleb {c} {z})"
        self.err("test not accepted: " + ast.unparse(n)[:60], n)

    # -------------------------------------------------------------- statements
    def assigns_res(self, stmts):
        for s in stmts:
            if isinstance(s, ast.Assign) and ast.unparse(s.targets[0]) == self.res:
                return True
            if isinstance(s, ast.If) and (self.assigns_res(s.body) or self.assigns_res(s.orelse)):
                return True
        return False

    def block(self, stmts, bound):
        """-> (code of the value of the result variable after the block, bound?)"""
        lets = []
        for s in stmts:
            if isinstance(s, ast.Assign) and len(s.targets) == 1 and isinstance(s.targets[0], ast.Name):
                nm = s.targets[0].id
                t, c = self.expr(s.value)
                if nm == self.res:
                    if t == "NAN":
                        v = "None"
                    elif self.rc and t == "R":
                        v = f"(Some (ofK k0 {c}))"
                    elif (not self.rc) and t == "C":
                        self.err("complex value assigned to a real result", s)
                    else:
                        v = f"(Some {c})"
                    lets.append(f"let r_res := {v} in")
                    bound = True
                else:
                    if t == "NAN":
                        self.err("NaN assigned to a local", s)
                    self.types[nm] = t
                    lets.append(f"let v_{nm} := {c} in")
            elif isinstance(s, ast.If):
                if not (self.assigns_res(s.body) or self.assigns_res(s.orelse)):
                    self.err("if-statement that does not assign the result", s)
                snapshot = dict(self.types)
                a, ba = self.block(s.body, bound)
                self.types = dict(snapshot)
                b, bb = self.block(s.orelse, bound)
                self.types = snapshot        # locals of branches do not escape
                if not (ba and bb):
                    self.err("result variable may be unbound after this if-statement", s)
                lets.append(f"let r_res := (if {self.test(s.test)} then {a} else {b}) in")
                bound = True
            else:
                self.err("statement not accepted: " + ast.unparse(s)[:60], s)
        if not bound:
            return "ERR", False
        return "(" + " ".join(lets) + " r_res)", True

    def code(self):
        c, ok = self.block(self.stmts, False)
        if not ok:
            raise TranslateError("result variable never assigned", self.f, self.path)
        return c

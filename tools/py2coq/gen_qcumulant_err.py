"""Gen/GenQCumulantErr.v from src/sparkx/flow/QCumulantFlow.py: everything the returned ERROR of the Q-cumulant
estimator depends on (integrated and differential).  Regenerated on every run, fail closed.

Generated definitions (Section GenErr; carrier K, oracles kdiv kleb kltb krpow kcsqrt, sample evs : list E,
per-event accessors M_all/M_bin/M_poi, Q_all/Q_bin/Q_poi exactly as in Gen/GenQCumulant.v):
  gen_ebe_k : E -> K, gen_corr_err_k : K   (k = 2, 4, 6)     __calculate_corr: 3rd and 2nd component of the returned
                                                              tuple (with W_k, sum_W, sum_W_sq, difference, variance,
                                                              variance_sq as inner lets)
  gen_cov_R / gen_cov_C                                       __cov (all-real arguments / complex x, y)
  gen_cov_term_<k1>_<k2>_R                                    __cov_term, one definition per (k1, k2) of the call sites
                                                              (the `for i in range(k1): W1 *= mult - i` loops unrolled)
  gen_cov_term_differential_R / _C                            __cov_term_differential
  gen_int_err_k : K, gen_integrated_err                       __cumulant_flow: 2nd component of the returned tuple
  gen_dsum2_ev, gen_dw2, gen_dsum4_ev, gen_dw4                __compute_differential_flow_bin: numerator A and weight B of
                                                              the 1st / 2nd `np.divide(A, B, out=np.zeros_like(A),
                                                              where=(B != 0))` (the per-event sums and weights)
  gen_diff_err_2, gen_diff_err_4 : K                          __compute_differential_flow_bin: 2nd element of the returned
                                                              list, with the full_event_quantities table resolved through
                                                              differential_flow's table statements

Conventions of the translation (in addition to those of npvec.py):
  * one `let` per Python assignment, in source order, after a backward slice from the requested result; `x op= e` is
    `let x := x op e`; `if a > b: x = e` (no else) is `let x := if kltb b a then e else x`;
    `for i in range(k): body` with k an integer constant of the call site is unrolled.
  * a value that the SAME source statement already defines as another generated definition is used by reference instead
    of being inlined: the returned `corr` (gen_corr_k of Gen/GenQCumulant.v), the returned ebe array (gen_ebe_k), the
    np.divide operands (gen_dsum*_ev, gen_dw*); each such name must be assigned exactly once.
  * method calls self.__cov / __cov_term / __cov_term_differential become calls of the generated definitions; array
    arguments are passed as functions E -> K (or E -> cpx K).  If one of the two ebe arguments is complex the other is
    promoted (x + 0j) as numpy does; weights must be real.
  * x ** c (c integral) = kpow/cpow; x ** (a / b) with integral literals a, b and real x = krpow a b x; np.sqrt(x) =
    krpow 1 2 x for real x and the oracle kcsqrt for complex x; abs(x) = kabs; max(a, b, ..) = left fold of kmax2 (Python
    keeps the first maximal element); `B != 0` = kltb B 0 || kltb 0 B; `.real` of a real value is the value.
  * `np.array([x]) if isinstance(x, float) else x` with x an array = x.
  * float results are exact elements of K: NaN / inf (division by zero with a single event etc.) are not represented,
    kdiv is a total oracle.
Pinned here by shape, not by text: signatures of the four methods, the k-branch skeletons of __calculate_corr and
__cumulant_flow, `return [<name>.real, <name>.real]` of __compute_differential_flow_bin.  The phi / binning glue of
integrated_flow and differential_flow is pinned textually by gen_qcumulant.py (same GEN list).
"""
import ast
from .core import *
from . import npvec
from .npvec import Val, kconst, to_c

SRC = "src/sparkx/flow/QCumulantFlow.py"
OUTPUTS = ["GenQCumulantErr"]

SECTION = """Section GenErr.
  Variable K : Type.
  Variables (k0 k1 : K) (kadd kmul ksub : K -> K -> K) (kopp : K -> K) (kdiv : K -> K -> K).
  Variables (kleb kltb : K -> K -> bool).
  (* krpow c k x  stands for  x ** (c / k)  (root oracle);  kcsqrt for np.sqrt of a complex value *)
  Variable krpow : nat -> nat -> K -> K.
  Variable kcsqrt : cpx K -> cpx K.
  Variable E : Type.
  Variable evs : list E.
  Variables M_all M_bin M_poi : E -> K.
  Variables Q_all Q_bin Q_poi : nat -> E -> cpx K.
  (* every definition takes all of the above as arguments, used or not *)
  Let USE := (k0, k1, kadd, kmul, ksub, kopp, kdiv, kleb, kltb, krpow, kcsqrt, evs, M_all, M_bin, M_poi, Q_all, Q_bin, Q_poi).
  Let cadd := cadd K kadd. Let csub := csub K ksub. Let copp := copp K kopp.
  Let cmul := cmul K kadd kmul ksub. Let cscale := cscale K kmul. Let cdivr := cdivr K kdiv.
  Let cpow := cpow K k0 k1 kadd kmul ksub. Let conj := @conj K kopp.
  Let vsumR (f : E -> K) : K := ksum k0 kadd (map f evs).
  Let vsumC (f : E -> cpx K) : cpx K := csum K k0 kadd (map f evs).
  (* Python abs / max on floats *)
  Let kabs (x : K) : K := if kltb x k0 then kopp x else x.
  Let kmax2 (a b : K) : K := if kltb a b then b else a.
  Let gen_corr_2 := gen_corr_2 K k0 k1 kadd kmul ksub kopp kdiv kleb kltb krpow E evs M_all M_bin M_poi Q_all Q_bin Q_poi.
  Let gen_corr_4 := gen_corr_4 K k0 k1 kadd kmul ksub kopp kdiv kleb kltb krpow E evs M_all M_bin M_poi Q_all Q_bin Q_poi.
  Let gen_corr_6 := gen_corr_6 K k0 k1 kadd kmul ksub kopp kdiv kleb kltb krpow E evs M_all M_bin M_poi Q_all Q_bin Q_poi.
"""

# kinds of the parameters of the translated helper methods: W real per-event weights, X per-event values (real or complex,
# unified), I integer constant of the call site, L particle list (must be the whole events)
METHODS = {"__cov": "WWXX", "__cov_term": "IILXX", "__cov_term_differential": "WWXX"}


def body_of(f):
    return strip_doc(f.body)


class Gen:
    def __init__(self):
        self.tree, self.path = parse(SRC)
        self.cls = find_class(self.tree, "QCumulantFlow")
        self.defs = []            # emitted definitions, in order
        self.inst = {}            # (method, key) -> (name, result typ)

    def err(self, msg, node=None):
        raise TranslateError(msg, node, self.path)

    def emit(self, text):
        self.defs.append(text)

    # ------------------------------------------------------------------------------------------ helper methods
    def call_method(self, tr, node):
        f = node.func
        mname = f.attr
        kinds = METHODS[mname]
        if node.keywords or len(node.args) != len(kinds):
            self.err(f"self.{mname}: expected {len(kinds)} positional arguments", node)
        fn = find_func(self.cls, mname)
        params = [a.arg for a in fn.args.args]
        if len(params) != len(kinds) + 1 or params[0] != "self" or fn.args.defaults or fn.args.kwonlyargs or fn.args.vararg:
            self.err(f"{mname}: signature changed", fn)
        params = params[1:]
        vals, ints = [], []
        for kd, a in zip(kinds, node.args):
            if kd == "I":
                ints.append(int_const(a, self.path))
                vals.append(ints[-1])
            elif kd == "L":
                if tr.plist(a) != "all":
                    self.err(f"self.{mname}: the particle list must be the whole events", a)
                vals.append(("list", "all"))
            else:
                v = tr.expr(a)
                if v.shape != "V":
                    self.err(f"self.{mname}: array argument expected", a)
                if kd == "W" and v.typ != "R":
                    self.err(f"self.{mname}: weights must be real", a)
                vals.append(v)
        xs = [i for i, kd in enumerate(kinds) if kd == "X"]
        xt = "C" if any(vals[i].typ == "C" for i in xs) else "R"
        if xt == "C":
            for i in xs:
                vals[i] = to_c(vals[i])
        key = (mname, tuple(ints), xt)
        if key not in self.inst:
            self.inst[key] = None          # recursion guard
            name = "gen_" + mname.strip("_") + "".join(f"_{i}" for i in ints) + "_" + xt
            env, sig = {}, []
            for kd, p, v in zip(kinds, params, vals):
                if kd == "I":
                    env[p] = Val("S", "R", kconst(v))
                    env["#int:" + p] = v
                elif kd == "L":
                    env[p] = v
                else:
                    ty = "E -> K" if (kd == "W" or xt == "R") else "E -> cpx K"
                    sig.append(f"(p_{p} : {ty})")
                    env[p] = Val("V", "R" if (kd == "W" or xt == "R") else "C", f"(p_{p} e)")
            body = body_of(fn)
            if not isinstance(body[-1], ast.Return) or body[-1].value is None:
                self.err(f"{mname}: expected a final `return <expr>`", fn)
            tr2 = ETr(self, env)
            lines = tr2.chain(body[:-1], body[-1].value)
            r = tr2.expr(body[-1].value)
            if r.shape != "S" or r.typ != "R":
                self.err(f"{mname}: result must be a real scalar", body[-1])
            self.emit(f"  Definition {name} {' '.join(sig)} : K := let _ := USE in\n{lets(lines, r.code)}.\n")
            self.inst[key] = (name, "R")
        elif self.inst[key] is None:
            self.err(f"{mname}: recursive call", node)
        name, _ = self.inst[key]
        args = " ".join(f"(fun e : E => {v.code})" for kd, v in zip(kinds, vals) if kd in "WX")
        return Val("S", "R", f"({name} {args})")

    # ------------------------------------------------------------------------------------------ __calculate_corr
    def calculate_corr(self):
        fc = find_func(self.cls, "__calculate_corr")
        if [a.arg for a in fc.args.args] != ["self", "phi", "k"]:
            self.err("__calculate_corr signature changed", fc)
        prefix, branches = [], []
        for st in body_of(fc):
            if isinstance(st, ast.If):
                t = st.test
                if not (isinstance(t, ast.Compare) and ast.unparse(t.left) == "k" and len(t.ops) == 1 and isinstance(t.ops[0], ast.Eq)):
                    self.err("expected `if k == <c>:`", st)
                if st.orelse and not (len(st.orelse) == 1 and isinstance(st.orelse[0], ast.Raise)):
                    self.err("expected `else: raise`", st)
                branches.append((int_const(t.comparators[0], self.path), st.body))
            elif branches:
                self.err("statement after the k-branches", st)
            else:
                prefix.append(st)
        if sorted(k for k, _ in branches) != [2, 4, 6]:
            self.err("k-branches of __calculate_corr differ from [2, 4, 6]", fc)
        for k, b in branches:
            ret = b[-1]
            if not (isinstance(ret, ast.Return) and isinstance(ret.value, ast.Tuple) and len(ret.value.elts) == 3
                    and all(isinstance(x, ast.Name) for x in ret.value.elts)):
                self.err("expected `return corr, corr_err, ebe_corr` (three names)", ret)
            stmts = prefix + b[:-1]
            n_corr, n_err, n_ebe = [x.id for x in ret.value.elts]
            env = {"phi": ("list", "all")}
            # the event-by-event array
            i_ebe = single_assignment(stmts, n_ebe, self.path)
            tr = ETr(self, env)
            lines = tr.chain(stmts[:i_ebe + 1], ast.Name(id=n_ebe, ctx=ast.Load()))
            v = tr.expr(ast.Name(id=n_ebe, ctx=ast.Load()))
            if v.shape != "V" or v.typ != "R":
                self.err("the event-by-event correlator must be a real array", ret)
            self.emit(f"  Definition gen_ebe_{k} : E -> K := let _ := USE in\n{lets(lines, '(fun e : E => ' + v.code + ')')}.\n")
            # the error
            single_assignment(stmts, n_corr, self.path)
            refs = {n_corr: Val("S", "R", f"gen_corr_{k}"), n_ebe: Val("V", "R", f"(gen_ebe_{k} e)")}
            tr = ETr(self, env, refs)
            res = ast.Name(id=n_err, ctx=ast.Load())
            lines = tr.chain(stmts, res)
            v = tr.expr(res)
            if v.shape != "S" or v.typ != "R":
                self.err("corr_err must be a real scalar", ret)
            self.emit(f"  Definition gen_corr_err_{k} : K := let _ := USE in\n{lets(lines, v.code)}.\n")

    def corr_hook(self, tr, st):
        """a, b, c = self.__calculate_corr(<whole events>, k=c)  ->  [gen_corr_c, gen_corr_err_c, gen_ebe_c e]"""
        c = st.value
        if isinstance(c, ast.Call) and ast.unparse(c.func) == "self.__calculate_corr":
            if not (len(c.args) == 1 and len(c.keywords) == 1 and c.keywords[0].arg == "k"):
                self.err("expected self.__calculate_corr(<list>, k=<c>)", st)
            if tr.plist(c.args[0]) != "all":
                self.err("__calculate_corr must be applied to the whole events", st)
            kc = int_const(c.keywords[0].value, self.path)
            if kc not in (2, 4, 6):
                self.err("unknown correlator order", st)
            return [Val("S", "R", f"gen_corr_{kc}"), Val("S", "R", f"gen_corr_err_{kc}"), Val("V", "R", f"(gen_ebe_{kc} e)")]
        return None

    # ------------------------------------------------------------------------------------------ __cumulant_flow
    def cumulant_flow(self):
        fcf = find_func(self.cls, "__cumulant_flow")
        if [a.arg for a in fcf.args.args] != ["self", "phi"]:
            self.err("__cumulant_flow signature changed", fcf)
        b0 = body_of(fcf)
        if len(b0) != 1:
            self.err("__cumulant_flow: expected a single if-chain", fcf)
        cur, chain = b0[0], []
        while True:
            t = cur.test if isinstance(cur, ast.If) else None
            if not (isinstance(t, ast.Compare) and ast.unparse(t.left) == "self.k_" and len(t.ops) == 1 and isinstance(t.ops[0], ast.Eq)):
                self.err("expected `self.k_ == <c>`", cur)
            chain.append((int_const(t.comparators[0], self.path), cur.body))
            if len(cur.orelse) == 1 and isinstance(cur.orelse[0], ast.If):
                cur = cur.orelse[0]
                continue
            if not (len(cur.orelse) == 1 and isinstance(cur.orelse[0], ast.Raise)):
                self.err("expected final `else: raise`", cur)
            break
        if sorted(k for k, _ in chain) != [2, 4, 6]:
            self.err("__cumulant_flow branches differ from [2, 4, 6]", fcf)
        for k, b in chain:
            ret = b[-1]
            if not (isinstance(ret, ast.Return) and isinstance(ret.value, ast.Tuple) and len(ret.value.elts) == 2):
                self.err("expected `return avg_vn, err`", ret)
            res = ret.value.elts[1]
            tr = ETr(self, {"phi": ("list", "all")}, hook=self.corr_hook)
            lines = tr.chain(b[:-1], res)
            v = tr.expr(res)
            if v.shape != "S" or v.typ != "R":
                self.err("the error must be a real scalar", ret)
            self.emit(f"  Definition gen_int_err_{k} : K := let _ := USE in\n{lets(lines, v.code)}.\n")
        self.emit("  (* __cumulant_flow(...)[1]; orders outside the table raise ValueError *)\n"
                  "  Definition gen_integrated_err (kk : nat) : option K := let _ := USE in\n    match kk with\n"
                  + "".join(f"    | {k}%nat => Some gen_int_err_{k}\n" for k, _ in chain) + "    | _ => None\n    end.\n")

    # ------------------------------------------------------------------------------------------ differential
    def table_for(self, kval):
        fdf = find_func(self.cls, "differential_flow")
        bd = body_of(fdf)
        i_q = [i for i, s in enumerate(bd) if ast.unparse(s).startswith("Qn = self.__Qn(phi_all")]
        i_fb = [i for i, s in enumerate(bd) if ast.unparse(s).startswith("flow_bins = []")]
        if len(i_q) != 1 or len(i_fb) != 1 or i_q[0] > i_fb[0]:
            self.err("differential_flow: full-event quantities block not found", fdf)
        stmts = npvec.flatten_k(bd[i_q[0]:i_fb[0]], "self.k_", kval, self.path)
        tr = ETr(self, {"phi_all": ("list", "all")}, hook=self.corr_hook)
        entries = None
        for st in stmts:
            names = npvec.assigned_names(st, self.path)
            if names == ["full_event_quantities"]:
                if not isinstance(st.value, ast.List):
                    self.err("full_event_quantities must be a list literal", st)
                entries = []
                for el in st.value.elts:
                    if not (isinstance(el, ast.Name) and isinstance(tr.env.get(el.id), Val)):
                        self.err("full_event_quantities: entry is not a known value", el)
                    entries.append(tr.env[el.id])
            elif len(names) == 3:
                r = self.corr_hook(tr, st)
                if r is None:
                    self.err("unexpected tuple assignment", st)
                for n, v in zip(names, r):
                    tr.env[n] = v
            else:
                tr.env[names[0]] = tr.expr(st.value)
        if entries is None:
            self.err("full_event_quantities not assigned", fdf)
        return entries

    def differential(self):
        fb = find_func(self.cls, "__compute_differential_flow_bin")
        if [a.arg for a in fb.args.args] != ["self", "full_event_quantities", "phi_bin", "phi_bin_poi"]:
            self.err("__compute_differential_flow_bin signature changed", fb)
        bb = body_of(fb)
        ret = bb[-1]
        if not (isinstance(ret, ast.Return) and isinstance(ret.value, ast.List) and len(ret.value.elts) == 2):
            self.err("expected `return [vn_bin.real, avg_vn_err.real]`", ret)
        res = ret.value.elts[1]
        if not (isinstance(res, ast.Attribute) and res.attr == "real" and isinstance(res.value, ast.Name)):
            self.err("expected `<name>.real` as error", res)
        for kval in (2, 4):
            stmts = npvec.flatten_k(bb[:-1], "self.k_", kval, self.path)
            env = {"phi_bin": ("list", "bin"), "phi_bin_poi": ("list", "poi"),
                   "full_event_quantities": ("table", self.table_for(kval))}
            # the np.divide(A, B, out=np.zeros_like(A), where=(B != 0)) statements, in order
            divs = []
            for i, st in enumerate(stmts):
                if isinstance(st, ast.Assign) and is_masked_divide(st.value):
                    a, b = st.value.args
                    if not (isinstance(a, ast.Name) and isinstance(b, ast.Name)):
                        self.err("np.divide: operands must be names", st)
                    divs.append((a.id, b.id))
            if len(divs) != kval // 2:
                self.err(f"expected {kval // 2} masked np.divide statement(s) for k = {kval}", fb)
            refs = {}
            for j, (a, b) in enumerate(divs):
                order = 2 * (j + 1)
                for nm, dn, want in ((a, f"gen_dsum{order}_ev", "C"), (b, f"gen_dw{order}", "R")):
                    idx = single_assignment(stmts, nm, self.path)
                    if kval == 2 * (j + 1):      # emitted once (the k = 4 bin repeats the k = 2 statements)
                        tr = ETr(self, env, dict(refs))
                        node = ast.Name(id=nm, ctx=ast.Load())
                        lines = tr.chain(stmts[:idx + 1], node)
                        v = tr.expr(node)
                        if v.shape != "V" or v.typ != want:
                            self.err(f"`{nm}`: expected a {'complex' if want == 'C' else 'real'} array", stmts[idx])
                        ty = "cpx K" if want == "C" else "K"
                        self.emit(f"  Definition {dn} : E -> {ty} := let _ := USE in\n{lets(lines, '(fun e : E => ' + v.code + ')')}.\n")
                    refs[nm] = Val("V", want, f"({dn} e)")
            tr = ETr(self, env, refs)
            lines = tr.chain(stmts, res)
            v = tr.expr(res)
            if v.shape != "S" or v.typ != "R":
                self.err("the differential error must be a real scalar", ret)
            self.emit(f"  Definition gen_diff_err_{kval} : K := let _ := USE in\n{lets(lines, v.code)}.\n")

    def generate(self):
        self.calculate_corr()
        self.cumulant_flow()
        self.differential()
        head = [HEADER, "From Coq Require Import ZArith List String Bool.\nFrom SX Require Import Lib.KRing Lib.Cpx Gen.GenQCumulant.\n"
                        "Import ListNotations.\n\n", SECTION]
        return "".join(head + self.defs + ["End GenErr.\n"])


def lets(lines, result, indent="    "):
    return "".join(indent + l + "\n" for l in lines) + indent + result


def is_masked_divide(c):
    """np.divide(A, B, out=np.zeros_like(A), where=(B != 0))"""
    if not (isinstance(c, ast.Call) and ast.unparse(c.func) == "np.divide" and len(c.args) == 2 and len(c.keywords) == 2):
        return False
    kw = {k.arg: k.value for k in c.keywords}
    if set(kw) != {"out", "where"}:
        return False
    a, b = ast.unparse(c.args[0]), ast.unparse(c.args[1])
    return ast.unparse(kw["out"]) == f"np.zeros_like({a})" and ast.unparse(kw["where"]) == f"{b} != 0"


# ---------------------------------------------------------------------------------------------- statements
def stmt_info(st, path):
    """(names assigned, names read, pure?)  pure: the old values of the assigned names are not needed"""
    if isinstance(st, ast.Assign) and len(st.targets) == 1:
        t = st.targets[0]
        if isinstance(t, ast.Name):
            return [t.id], npvec.loads(st.value), True
        if isinstance(t, ast.Tuple) and all(isinstance(x, ast.Name) for x in t.elts):
            return [x.id for x in t.elts], npvec.loads(st.value), True
    if isinstance(st, ast.AugAssign) and isinstance(st.target, ast.Name):
        return [st.target.id], npvec.loads(st.value) | {st.target.id}, False
    if isinstance(st, ast.If) and not st.orelse:
        names, reads = [], npvec.loads(st.test)
        for s in st.body:
            n, r, _ = stmt_info(s, path)
            names += n
            reads |= r
        return names, reads | set(names), False
    if isinstance(st, ast.For) and not st.orelse and isinstance(st.target, ast.Name):
        names, reads = [], npvec.loads(st.iter)
        for s in st.body:
            n, r, _ = stmt_info(s, path)
            names += n
            reads |= r
        reads.discard(st.target.id)
        return names, reads | set(names), False
    raise TranslateError("statement outside the accepted language: " + ast.unparse(st)[:70], st, path)


def slice_stmts(stmts, result_node, path, refs=()):
    """backward slice; a name defined by reference (refs) needs nothing of its own right-hand side"""
    live = npvec.loads(result_node)
    keep = []
    for i in range(len(stmts) - 1, -1, -1):
        names, reads, pure = stmt_info(stmts[i], path)
        if any(n in live for n in names):
            keep.append(i)
            if pure:
                live -= set(names)
            if not (len(names) == 1 and names[0] in refs):
                live |= reads
    return sorted(keep)


def single_assignment(stmts, name, path):
    """index of the only statement that assigns `name` (which must be a plain `name = expr` at top level)"""
    idx = [i for i, st in enumerate(stmts) if name in stmt_info(st, path)[0]]
    if len(idx) != 1 or not (isinstance(stmts[idx[0]], ast.Assign) and isinstance(stmts[idx[0]].targets[0], ast.Name)):
        raise TranslateError(f"`{name}` must be assigned exactly once by a plain assignment", stmts[idx[0]] if idx else None, path)
    return idx[0]


class ETr(npvec.Tr):
    """npvec expressions + fractional powers, sqrt, abs, max, ones_like, masked divide, helper-method calls"""

    def __init__(self, gen, env, refs=None, hook=None):
        super().__init__(gen.path, env)
        self.gen, self.refs, self.hook = gen, dict(refs or {}), hook

    def frac(self, node):
        """(a / b) with integral literals -> (a, b), else None"""
        if isinstance(node, ast.BinOp) and isinstance(node.op, ast.Div):
            try:
                a, b = int_const(node.left, self.path), int_const(node.right, self.path)
            except TranslateError:
                return None
            if a > 0 and b > 0:
                return a, b
        return None

    def expr(self, node):
        if isinstance(node, ast.BinOp) and isinstance(node.op, ast.Pow):
            fr = self.frac(node.right)
            if fr is not None:
                a = self.expr(node.left)
                if a.typ != "R" or a.shape != "S":
                    self.err("fractional power of a non-real or non-scalar value", node)
                return Val("S", "R", f"(krpow {fr[0]}%nat {fr[1]}%nat {a.code})")
        if isinstance(node, ast.IfExp):
            x = node.orelse
            if isinstance(x, ast.Name) and ast.unparse(node.test) == f"isinstance({x.id}, float)" \
                    and ast.unparse(node.body) == f"np.array([{x.id}])":
                v = self.expr(x)
                if v.shape != "V":
                    self.err("`np.array([x]) if isinstance(x, float) else x`: x must be an array", node)
                return v
            self.err("conditional expression not accepted", node)
        return super().expr(node)

    def call(self, node):
        f = node.func
        if isinstance(f, ast.Attribute) and isinstance(f.value, ast.Name) and f.value.id == "self" and f.attr in METHODS:
            return self.gen.call_method(self, node)
        if is_masked_divide(node):
            a, b = self.expr(node.args[0]), self.expr(node.args[1])
            if b.typ != "R" or "V" not in (a.shape, b.shape):
                self.err("masked np.divide: real array divisor expected", node)
            z = kconst(0)
            test = f"(orb (kltb {b.code} {z}) (kltb {z} {b.code}))"
            if a.typ == "R":
                return Val("V", "R", f"(if {test} then (kdiv {a.code} {b.code}) else {z})")
            return Val("V", "C", f"(if {test} then (cdivr {a.code} {b.code}) else (ofK k0 {z}))")
        if node.keywords:
            self.err("keyword arguments not accepted here", node)
        if self.is_np(f, "sqrt"):
            if len(node.args) != 1:
                self.err("np.sqrt takes one argument", node)
            a = self.expr(node.args[0])
            if a.shape != "S":
                self.err("np.sqrt of an array", node)
            if a.typ == "R":
                return Val("S", "R", f"(krpow 1%nat 2%nat {a.code})")
            return Val("S", "C", f"(kcsqrt {a.code})")
        if self.is_np(f, "ones_like"):
            if len(node.args) != 1:
                self.err("np.ones_like takes one argument", node)
            a = self.expr(node.args[0])
            if a.shape != "V" or a.typ != "R":
                self.err("np.ones_like of a non-real-array", node)
            return Val("V", "R", kconst(1))
        if isinstance(f, ast.Name) and f.id == "abs":
            if len(node.args) != 1:
                self.err("abs takes one argument", node)
            a = self.expr(node.args[0])
            if a.shape != "S" or a.typ != "R":
                self.err("abs of a non-real or non-scalar value", node)
            return Val("S", "R", f"(kabs {a.code})")
        if isinstance(f, ast.Name) and f.id == "max":
            if len(node.args) < 2:
                self.err("max takes at least two arguments here", node)
            vs = [self.expr(a) for a in node.args]
            if any(v.shape != "S" or v.typ != "R" for v in vs):
                self.err("max of non-real or non-scalar values", node)
            code = vs[0].code
            for v in vs[1:]:
                code = f"(kmax2 {code} {v.code})"
            return Val("S", "R", code)
        return super().call(node)

    # ---------------------------------------------------------------- statements -> let lines
    def test(self, node):
        if isinstance(node, ast.Compare) and len(node.ops) == 1:
            a, b = self.expr(node.left), self.expr(node.comparators[0])
            if a.shape == b.shape == "S" and a.typ == b.typ == "R":
                op = node.ops[0]
                if isinstance(op, ast.Gt):
                    return f"(kltb {b.code} {a.code})"
                if isinstance(op, ast.Lt):
                    return f"(kltb {a.code} {b.code})"
                if isinstance(op, ast.GtE):
                    return f"(kleb {b.code} {a.code})"
                if isinstance(op, ast.LtE):
                    return f"(kleb {a.code} {b.code})"
        self.err("test not accepted: " + ast.unparse(node)[:60], node)

    def bind(self, lines, n, v, guard=None):
        """let-bind name n to value v (optionally only where `guard` holds, keeping the old value otherwise)"""
        if guard is not None:
            old = self.env.get(n)
            if not (isinstance(old, Val) and old.shape == v.shape and old.typ == v.typ):
                self.err(f"conditional assignment to `{n}`: no previous value of the same kind", None)
            v = Val(v.shape, v.typ, f"(if {guard} then {v.code} else {old.code})")
        if v.shape == "V":
            ty = "K" if v.typ == "R" else "cpx K"
            lines.append(f"let v_{n} : E -> {ty} := (fun e : E => {v.code}) in")
            self.env[n] = Val("V", v.typ, f"(v_{n} e)")
        else:
            lines.append(f"let v_{n} := {v.code} in")
            self.env[n] = Val("S", v.typ, f"v_{n}")

    def stmt(self, st, lines, guard=None):
        if isinstance(st, ast.Assign):
            names, _, _ = stmt_info(st, self.path)
            if len(names) > 1:
                vals = self.hook(self, st) if self.hook else None
                if vals is None or len(vals) != len(names) or guard is not None:
                    self.err("tuple assignment not accepted: " + ast.unparse(st)[:70], st)
                for n, v in zip(names, vals):
                    self.env[n] = v
                return
            n = names[0]
            if n in self.refs:
                if guard is not None:
                    self.err(f"`{n}` is defined by reference and must not be assigned conditionally", st)
                self.bind(lines, n, self.refs[n])
                return
            self.bind(lines, n, self.expr(st.value), guard)
        elif isinstance(st, ast.AugAssign):
            n = st.target.id
            if n in self.refs:
                self.err(f"`{n}` is defined by reference and must not be updated", st)
            old = self.env.get(n)
            if not isinstance(old, Val):
                self.err(f"`{n}` updated before it is defined", st)
            v = self.binop(st.op, old, self.expr(st.value), st)
            self.bind(lines, n, v, guard)
        elif isinstance(st, ast.If):
            if guard is not None:
                self.err("nested if-statement", st)
            g = self.test(st.test)
            for s in st.body:
                if not isinstance(s, (ast.Assign, ast.AugAssign)):
                    self.err("only assignments are accepted inside an if-statement", s)
                self.stmt(s, lines, g)
        elif isinstance(st, ast.For):
            it = st.iter
            if not (isinstance(it, ast.Call) and isinstance(it.func, ast.Name) and it.func.id == "range" and len(it.args) == 1
                    and isinstance(it.args[0], ast.Name) and ("#int:" + it.args[0].id) in self.env) or guard is not None:
                self.err("expected `for i in range(<integer parameter>):`", st)
            for i in range(self.env["#int:" + it.args[0].id]):
                self.env[st.target.id] = Val("S", "R", kconst(i))
                for s in st.body:
                    self.stmt(s, lines)
            self.env.pop(st.target.id, None)
        else:
            self.err("statement not accepted: " + ast.unparse(st)[:60], st)

    def chain(self, stmts, result_node):
        for st in stmts:
            stmt_info(st, self.path)              # every statement must be inside the accepted language
        lines = []
        for i in slice_stmts(stmts, result_node, self.path, self.refs):
            self.stmt(stmts[i], lines)
        return lines


def main(outdir):
    return write_if_changed(outdir + "/GenQCumulantErr.v", Gen().generate())

"""Gen/GenFlowEst.v from src/sparkx/flow/{ReactionPlaneFlow,ScalarProductFlow,EventPlaneFlow}.py.

Whole method bodies of the three plane-type flow estimators are translated, statement by statement, into Gallina
functions over lists (fail-closed: every statement / expression shape that is not listed here raises TranslateError).

Value types of the fragment
  R real (carrier K)          C complex (Lib/Cpx.v pairs)      B bool        S str
  OR  `particle.weight`       (option K, None = NaN)
  P   a Particle              (u, d): u = exp(i n phi) as a pair, d : D everything else; accessors pT_abs / rapidity /
                              pseudorapidity are the functions pt / rap / eta : D -> K, weight is wt : D -> option K
  L t Python list of t
  symbolic angle types, accepted ONLY in the patterns the hand models abstract the same way:
      np.exp(1j * <n> * X.phi())                     -> u of X          (<n> is self.n_ or float(self.n_))
      1.0 / float(self.n_) * np.arctan2(Z.imag, Z.real)   -> PSI, carried as the vector Z whose direction is taken
      np.cos(<n> * (X.phi() - PSI(Z)))               -> obs u Z         (oracle of the hand model)
      np.cos(<n> * (PSI(A) - PSI(B)))                -> cosAB A B       (oracle of the hand model)
Arithmetic is the exact one of the hand models: a / b is a * kinv b, np.sqrt / np.abs are the oracles ksqrt / kabs,
`x != 0.0` is negb (kis0 x), `a >= b` is kleb b a, `a < b` is kltb a b; numeric literals must be integral
(they become k0, k1, kz c); literal arithmetic (0.0 + 0.0j) is folded.  Non-finite floats are NOT represented here:
the theorems in Proofs/C12_Source.v say which finite results of the hand models equal these functions.

Statements
  name = e | a, b = self.__m(..) | name op= e (+ - * /) | L.append(e) | L.extend([e]) | L[i] = e | L[i] op= e
  if / elif / else (the assigned locations are threaded through) | for ... (below) | return e (last statement)
  argument validation `if not isinstance(..): raise TypeError(..)` / `if x not in [..]: raise ValueError(..)` is skipped
  (the accepted lists are the subject of gen_flowtables.py)
Loops
  for i in range(len(X)):   i may occur only as the index of a subscript `Y[i]`; the loop is a fold_left over X
                            traversed in parallel (`combine`) with every other list Y indexed by i.  Python raises
                            IndexError when such a Y is shorter than X; this is not represented (the hand models pair
                            the samples by construction).  A list assigned through `Y[i] = ..` is rebuilt element-wise.
  for x in X:               fold_left over X
  for bin in range(len(bins) - 1):   the binning loop of differential_flow: its body is emitted as a function of the
                            two edges lo = bins[bin], hi = bins[bin + 1]; the loop header and the way the per-bin
                            result is collected are checked structurally.
Loop-carried variables (assigned in the body, defined before the loop) are the fold state, in order of first assignment.
A variable first assigned inside a loop body / one branch is local to it (a later read aborts with "name not available").

Trusted about the fragment (not checked here): numbers are immutable values (`Q = Q_vector[event]; Q -= ..` rebinds Q and
does not change the list), a list is changed only through append / extend / element assignment on a local name, and a
list that a loop traverses is not changed by that loop (this one IS checked).  The classes keep no state: the constructor
must store n / weight / pseudorapidity_gap unchanged and no other method may assign an attribute of self (checked).
Parts of a method that the hand models do not describe (the event-plane angle outputs psi_*, unused bookkeeping lists) are
named explicitly per method (`ignore=`): statements that assign only such names are dropped, a translated statement that
reads one aborts.  The Bessel-function inversion of EventPlaneFlow.__compute_event_plane_resolution and the statements of
EventPlaneFlow.__calculate_particle_flow / integrated_flow / the per-bin tail of differential_flow (they pass the psi values
along) are compared with their expected text and emitted from it.
"""
import ast
from fractions import Fraction
from .core import *

OUTPUTS = ["GenFlowEst"]

RP = ("ReactionPlaneFlow", "src/sparkx/flow/ReactionPlaneFlow.py", "rp")
SP = ("ScalarProductFlow", "src/sparkx/flow/ScalarProductFlow.py", "sp")
EP = ("EventPlaneFlow", "src/sparkx/flow/EventPlaneFlow.py", "ep")

SIG = ("(K : Type) (k0 k1 : K) (kadd kmul ksub : K -> K -> K) (kopp kinv ksqrt kabs : K -> K) (kis0 : K -> bool) "
       "(kleb kltb : K -> K -> bool) (D : Type) (pt rap eta : D -> K) (wt : D -> option K) "
       "(cosAB obs : cpx K -> cpx K -> K) (res_fun : K -> K) (n : nat) (weight_ : string) (gap : K)")
ARGS = "K k0 k1 kadd kmul ksub kopp kinv ksqrt kabs kis0 kleb kltb D pt rap eta wt cosAB obs res_fun n weight_ gap"

R, C, B, S, OR, P = ("R",), ("C",), ("B",), ("S",), ("OR",), ("P",)
NV, INVN, IUNIT, INU, IPH, ARG, PSI, PHI, DANG, NDANG = (("NV",), ("INVN",), ("IUNIT",), ("INU",), ("IPH",), ("ARG",),
                                                         ("PSI",), ("PHI",), ("DANG",), ("NDANG",))
BINS = ("BINS",)


def L(t):
    return ("L", t)


def TUP(ts):
    return ("T", tuple(ts))


def ctype(t):
    if t == R:
        return "K"
    if t in (C, PSI, PHI):
        return "(cpx K)"
    if t == B:
        return "bool"
    if t == S:
        return "string"
    if t == OR:
        return "(option K)"
    if t == P:
        return "(cpx K * D)%type"
    if t[0] == "L":
        return f"(list {ctype(t[1])})"
    if t[0] == "T":
        return "(" + " * ".join(ctype(x) for x in t[1]) + ")%type"
    raise TranslateError("type has no Coq counterpart: " + repr(t))


class Val:
    def __init__(self, t, c):
        self.t, self.c = t, c


class ListT:
    """type of a list whose element type becomes known with the first append"""
    def __init__(self):
        self.elt = None


def kconst(fr, node=None, path=None):
    if fr.denominator != 1:
        raise TranslateError(f"non-integral constant {float(fr)!r}", node, path)
    c = fr.numerator
    if c == 0:
        return "k0"
    if c == 1:
        return "k1"
    return f"(kz k0 k1 kadd kmul kopp {c}%Z)" if c > 0 else f"(kopp (kz k0 k1 kadd kmul kopp {-c}%Z))"


def cstr(s):
    if any(ord(ch) > 126 or ord(ch) < 32 or ch == '"' for ch in s):
        raise TranslateError("string literal not accepted: " + repr(s))
    return '"' + s + '"%string'


def numlit(node):
    """Python value of a numeric literal (int/float/complex, bool excluded), or None"""
    if isinstance(node, ast.Constant) and isinstance(node.value, (int, float, complex)) and not isinstance(node.value, bool):
        return node.value
    return None


def tuple_pat(names):
    return names[0] if len(names) == 1 else "'(" + ", ".join(names) + ")"


def tuple_val(names):
    return names[0] if len(names) == 1 else "(" + ", ".join(names) + ")"


class Env:
    """locations (local names and `Y[i]` element variables) -> Val; immutable-style copy on branch"""
    def __init__(self, locs=None, ignore=()):
        self.locs = dict(locs or {})
        self.ignore = set(ignore)

    def copy(self):
        return Env(self.locs, self.ignore)


class Fn:
    """translator of one method"""

    def __init__(self, unit, func, path, overrides=None, ignore=(), ret_take=None, params_extra=None):
        self.u, self.f, self.path = unit, func, path
        self.over = overrides or {}
        self.ignore = set(ignore)
        self.ret_take = ret_take
        self.counter = 0
        self.ret = None

    def err(self, msg, node):
        raise TranslateError(f"{self.u.cname}.{self.f.name}: {msg}", node, self.path)

    # ------------------------------------------------------------------------------------------ annotations
    def ann_type(self, a, node):
        s = ast.unparse(a) if a is not None else None
        table = {"float": R, "bool": B, "str": S, "complex": C, "Particle": P}
        if s in table:
            return table[s]
        if s is not None and s.startswith("List[") and s.endswith("]"):
            inner = ast.parse(s[5:-1], mode="eval").body
            return L(self.ann_type(inner, node))
        if s == "Union[np.ndarray, List[float]]":
            return BINS
        self.err(f"parameter annotation not accepted: {s}", node)

    def params(self):
        a = self.f.args
        if a.vararg or a.kwarg or a.kwonlyargs or a.posonlyargs:
            self.err("parameter kinds not accepted", self.f)
        if not a.args or a.args[0].arg != "self":
            self.err("expected a method (first parameter self)", self.f)
        out = []
        for p in a.args[1:]:
            if p.arg in self.ignore:
                continue
            t = self.over.get(p.arg) or self.ann_type(p.annotation, p)
            out.append((p.arg, t))
        return out

    # ------------------------------------------------------------------------------------------ expressions
    def fresh(self, stem):
        self.counter += 1
        return f"{stem}_{self.counter}"

    def coerce(self, v, t, node):
        if v.t == t:
            return v
        if v.t == R and t == C:
            return Val(C, f"(ofK k0 {v.c})")
        self.err(f"value of type {v.t} where {t} is expected", node)

    def is_n(self, node):
        return ast.unparse(node) in ("self.n_", "float(self.n_)")

    def ex(self, n, env):
        src = ast.unparse(n)
        if src in env.locs and not isinstance(n, ast.Name):
            return env.locs[src]
        if isinstance(n, ast.Name):
            if n.id in env.ignore:
                self.err(f"`{n.id}` belongs to the part of the method that is not translated but is read here", n)
            if n.id in env.locs:
                v = env.locs[n.id]
                if isinstance(v.t, ListT):
                    if v.t.elt is None:
                        self.err(f"list `{n.id}` is read before anything was appended", n)
                    return Val(L(v.t.elt), v.c)
                return v
            self.err(f"name `{n.id}` not available", n)
        lit = numlit(n)
        if lit is not None:
            return self.const(lit, n)
        if isinstance(n, ast.Constant) and isinstance(n.value, str):
            return Val(S, cstr(n.value))
        if isinstance(n, ast.Attribute):
            if src == "self.n_":
                return Val(NV, None)
            if src == "self.pseudorapidity_gap_":
                return Val(R, "gap")
            if src == "self.weight_":
                return Val(S, "weight_")
            v = self.ex(n.value, env)
            if n.attr == "real" and v.t == C:
                return Val(R, f"(re {v.c})")
            if n.attr == "imag" and v.t == C:
                return Val(R, f"(im {v.c})")
            if n.attr == "weight" and v.t == P:
                return Val(OR, f"(wt (snd {v.c}))")
            self.err("attribute not accepted: " + src[:60], n)
        if isinstance(n, ast.UnaryOp):
            if isinstance(n.op, ast.Not):
                v = self.ex(n.operand, env)
                if v.t != B:
                    self.err("`not` of a non-boolean", n)
                return Val(B, f"(negb {v.c})")
            v = self.ex(n.operand, env)
            if isinstance(n.op, ast.UAdd) and v.t in (R, C):
                return v
            if isinstance(n.op, ast.USub) and v.t == R:
                return Val(R, f"(kopp {v.c})")
            if isinstance(n.op, ast.USub) and v.t == C:
                return Val(C, f"(copp K kopp {v.c})")
            self.err("unary operator not accepted: " + src[:60], n)
        if isinstance(n, ast.BinOp):
            return self.binop(n, env)
        if isinstance(n, ast.Compare):
            return self.compare(n, env)
        if isinstance(n, ast.BoolOp):
            vs = [self.ex(x, env) for x in n.values]
            if any(v.t != B for v in vs):
                self.err("boolean operator on non-booleans", n)
            op = " && " if isinstance(n.op, ast.And) else " || "
            return Val(B, "(" + op.join(v.c for v in vs) + ")")
        if isinstance(n, ast.IfExp):
            # A if np.isnan(E) else E      (E of type OR)
            t = n.test
            if isinstance(t, ast.Call) and ast.unparse(t.func) == "np.isnan" and len(t.args) == 1 and not t.keywords \
                    and ast.unparse(t.args[0]) == ast.unparse(n.orelse):
                e = self.ex(n.orelse, env)
                a = self.ex(n.body, env)
                if e.t == OR and a.t == R:
                    w = self.fresh("w")
                    return Val(R, f"(match {e.c} with None => {a.c} | Some {w} => {w} end)")
            self.err("conditional expression not accepted (only `A if np.isnan(E) else E`): " + src[:80], n)
        if isinstance(n, ast.Call):
            return self.call(n, env)
        if isinstance(n, ast.ListComp):
            return self.listcomp(n, env)
        if isinstance(n, ast.Tuple):
            vs = [self.ex(x, env) for x in n.elts]
            return Val(TUP([v.t for v in vs]), "(" + ", ".join(v.c for v in vs) + ")")
        if isinstance(n, ast.List) and not n.elts:
            return Val(ListT(), "(@nil _)")
        self.err("expression not accepted: " + src[:80], n)

    def const(self, v, n):
        if isinstance(v, complex):
            if v.real == 0 and v.imag == 1:
                return Val(IUNIT, None)
            return Val(C, f"({kconst(Fraction(v.real), n, self.path)}, {kconst(Fraction(v.imag), n, self.path)})")
        return Val(R, kconst(Fraction(v), n, self.path))

    def binop(self, n, env):
        la, lb = numlit(n.left), numlit(n.right)
        if la is not None and lb is not None and isinstance(n.op, (ast.Add, ast.Sub, ast.Mult)):
            if isinstance(la, float) and (la != la or abs(la) == float("inf")):
                self.err("non-finite literal", n)
            v = la + lb if isinstance(n.op, ast.Add) else la - lb if isinstance(n.op, ast.Sub) else la * lb
            if isinstance(v, complex):
                return Val(C, f"({kconst(Fraction(v.real), n, self.path)}, {kconst(Fraction(v.imag), n, self.path)})")
            return Val(R, kconst(Fraction(v), n, self.path))
        if isinstance(n.op, ast.Pow):
            b = self.ex(n.left, env)
            if b.t != R:
                self.err("power of a non-real value", n)
            if self.is_n(n.right):
                return Val(R, f"(kpow k1 kmul {b.c} n)")
            e = int_const(n.right, self.path)
            if e < 0 or e > 16:
                self.err("exponent out of range", n)
            return Val(R, f"(kpow k1 kmul {b.c} {e}%nat)")
        a = Val(NV, None) if self.is_n(n.left) else self.ex(n.left, env)
        b = Val(NV, None) if self.is_n(n.right) else self.ex(n.right, env)
        op = n.op
        # ---- the symbolic angle patterns
        if isinstance(op, ast.Mult):
            if a.t == IUNIT and b.t == NV:
                return Val(INU, None)
            if a.t == INU and b.t == PHI:
                return Val(IPH, b.c)
            if (a.t == INVN and b.t == ARG) or (a.t == ARG and b.t == INVN):
                return Val(PSI, a.c if a.t == ARG else b.c)
            if (a.t == NV and b.t == DANG) or (a.t == DANG and b.t == NV):
                return Val(NDANG, a.c if a.t == DANG else b.c)
        if isinstance(op, ast.Div) and b.t == NV and numlit(n.left) is not None and numlit(n.left) == 1:
            return Val(INVN, None)
        if isinstance(op, ast.Sub):
            if a.t == PHI and b.t == PSI:
                return Val(DANG, f"(obs {a.c} {b.c})")
            if a.t == PSI and b.t == PSI:
                return Val(DANG, f"(cosAB {a.c} {b.c})")
        if a.t not in (R, C) or b.t not in (R, C):
            self.err(f"arithmetic on values of type {a.t[0]} and {b.t[0]} not accepted: " + ast.unparse(n)[:80], n)
        if isinstance(op, (ast.Add, ast.Sub)):
            if a.t == R and b.t == R:
                return Val(R, f"({'kadd' if isinstance(op, ast.Add) else 'ksub'} {a.c} {b.c})")
            a, b = self.coerce(a, C, n), self.coerce(b, C, n)
            return Val(C, f"(cadd K kadd {a.c} {b.c})" if isinstance(op, ast.Add) else f"(csub K ksub {a.c} {b.c})")
        if isinstance(op, ast.Mult):
            if a.t == R and b.t == R:
                return Val(R, f"(kmul {a.c} {b.c})")
            if a.t == R:
                return Val(C, f"(cscale K kmul {a.c} {b.c})")
            if b.t == R:
                return Val(C, f"(cscale K kmul {b.c} {a.c})")
            return Val(C, f"(cmul K kadd kmul ksub {a.c} {b.c})")
        if isinstance(op, ast.Div):
            if b.t != R:
                self.err("division by a complex value", n)
            if a.t == R:
                return Val(R, f"(kmul {a.c} (kinv {b.c}))")
            return Val(C, f"(cscale K kmul (kinv {b.c}) {a.c})")
        self.err("operator not accepted: " + type(op).__name__, n)

    def compare(self, n, env):
        if len(n.ops) != 1:
            self.err("chained comparison not accepted", n)
        op, l, r = n.ops[0], n.left, n.comparators[0]
        if isinstance(op, (ast.Eq, ast.NotEq)):
            rl = numlit(r)
            if rl is not None:
                if rl != 0:
                    self.err("equality test against a non-zero literal", n)
                a = self.ex(l, env)
                if a.t != R:
                    self.err("zero test of a non-real value", n)
                return Val(B, f"(kis0 {a.c})" if isinstance(op, ast.Eq) else f"(negb (kis0 {a.c}))")
            a, b = self.ex(l, env), self.ex(r, env)
            if a.t == S and b.t == S and isinstance(op, ast.Eq):
                return Val(B, f"(String.eqb {a.c} {b.c})")
            self.err("equality test not accepted: " + ast.unparse(n)[:80], n)
        a, b = self.ex(l, env), self.ex(r, env)
        if a.t != R or b.t != R:
            self.err("ordering test of non-real values", n)
        if isinstance(op, ast.GtE):
            return Val(B, f"(kleb {b.c} {a.c})")
        if isinstance(op, ast.Gt):
            return Val(B, f"(kltb {b.c} {a.c})")
        if isinstance(op, ast.LtE):
            return Val(B, f"(kleb {a.c} {b.c})")
        if isinstance(op, ast.Lt):
            return Val(B, f"(kltb {a.c} {b.c})")
        self.err("comparison not accepted: " + type(op).__name__, n)

    def call(self, n, env):
        f = ast.unparse(n.func)
        if n.keywords:
            self.err("keyword arguments not accepted: " + ast.unparse(n)[:60], n)
        args = n.args
        if f == "float" and len(args) == 1 and ast.unparse(args[0]) == "self.n_":
            return Val(NV, None)
        if f == "len" and len(args) == 1:
            a = self.ex(args[0], env)
            if a.t[0] == "L":
                return Val(R, f"(knat k0 k1 kadd (List.length {a.c}))")
            self.err("len of a non-list", n)
        if f.startswith("np.") and len(args) in (1, 2):
            name = f[3:]
            if name == "exp" and len(args) == 1:
                a = self.ex(args[0], env)
                if a.t == IPH:
                    return Val(C, a.c)
                self.err("np.exp is accepted only as np.exp(1j * n * phi)", n)
            if name == "arctan2" and len(args) == 2:
                y, x = args
                if isinstance(y, ast.Attribute) and isinstance(x, ast.Attribute) and y.attr == "imag" and x.attr == "real" \
                        and ast.unparse(y.value) == ast.unparse(x.value):
                    z = self.ex(y.value, env)
                    if z.t == C:
                        return Val(ARG, z.c)
                self.err("np.arctan2 is accepted only as np.arctan2(Z.imag, Z.real)", n)
            if name == "cos" and len(args) == 1:
                a = self.ex(args[0], env)
                if a.t == NDANG:
                    return Val(R, a.c)
                self.err("np.cos is accepted only as np.cos(n * (angle - angle))", n)
            if len(args) == 1:
                a = self.ex(args[0], env)
                if name in ("conjugate", "conj") and a.t == C:
                    return Val(C, f"(conj kopp {a.c})")
                if name == "abs" and a.t == R:
                    return Val(R, f"(kabs {a.c})")
                if name == "sqrt" and a.t == R:
                    return Val(R, f"(ksqrt {a.c})")
                if name in ("asarray", "array") and a.t[0] == "L":
                    return a
                if name == "square" and a.t == L(R):
                    x = self.fresh("x")
                    return Val(L(R), f"(map (fun {x} => kmul {x} {x}) {a.c})")
                if name == "sum" and a.t == L(R):
                    return Val(R, f"(ksum k0 kadd {a.c})")
                if name == "mean" and a.t == L(R):
                    return Val(R, f"(kmul (ksum k0 kadd {a.c}) (kinv (knat k0 k1 kadd (List.length {a.c}))))")
            self.err("numpy call not accepted: " + ast.unparse(n)[:80], n)
        if isinstance(n.func, ast.Attribute) and not args:
            recv = self.ex(n.func.value, env)
            if recv.t == P:
                acc = {"pT_abs": "pt", "rapidity": "rap", "pseudorapidity": "eta"}
                if n.func.attr in acc:
                    return Val(R, f"({acc[n.func.attr]} (snd {recv.c}))")
                if n.func.attr == "phi":
                    return Val(PHI, f"(fst {recv.c})")
            self.err("method call not accepted: " + ast.unparse(n)[:80], n)
        if isinstance(n.func, ast.Attribute) and isinstance(n.func.value, ast.Name) and n.func.value.id == "self" \
                and n.func.attr in self.u.registry:
            coqname, ptypes, rtype = self.u.registry[n.func.attr]
            if len(args) != len(ptypes):
                self.err("wrong number of arguments in the call of " + n.func.attr, n)
            cs = []
            for a, (pn, pt_) in zip(args, ptypes):
                v = self.ex(a, env)
                if v.t != pt_:
                    self.err(f"argument `{ast.unparse(a)[:40]}` of {n.func.attr} has type {v.t}, parameter {pn} has {pt_}", n)
                cs.append(v.c)
            return Val(rtype, f"({coqname} {ARGS} " + " ".join(cs) + ")")
        self.err("call not accepted: " + ast.unparse(n)[:80], n)

    def listcomp(self, n, env):
        """[E for i in range(len(X))]: map over X traversed in parallel with every list indexed by i"""
        if len(n.generators) != 1 or n.generators[0].ifs or n.generators[0].is_async:
            self.err("comprehension shape not accepted", n)
        g = n.generators[0]
        i, base = self.range_len(g.iter, g.target)
        if i is None:
            self.err("comprehension must iterate over range(len(X))", n)
        env2, lists, pats = self.bind_index(i, base, [n.elt], env, n)
        e = self.ex(n.elt, env2)
        if e.t not in (R, C, PSI):
            self.err("comprehension element type not accepted", n)
        return Val(L(e.t), f"(map (fun {tuple_pat(pats)} => {e.c}) {self.zipped(lists)})")

    # ------------------------------------------------------------------------------------------ loops helpers
    def range_len(self, it, target):
        """`for i in range(len(X))` -> (i, X node) else (None, None)"""
        if isinstance(it, ast.Call) and ast.unparse(it.func) == "range" and len(it.args) == 1 and not it.keywords \
                and isinstance(it.args[0], ast.Call) and ast.unparse(it.args[0].func) == "len" \
                and len(it.args[0].args) == 1 and isinstance(target, ast.Name):
            return target.id, it.args[0].args[0]
        return None, None

    def zipped(self, lists):
        z = lists[0]
        for l in lists[1:]:
            z = f"(combine {z} {l})"
        return z

    def bind_index(self, i, base, body_nodes, env, node):
        """element variables for every `Y[i]` of the body; -> (env', [list codes], [element variable names])"""
        uses, total = [], 0
        body_nodes = [y for bn in body_nodes for y in self.kept_nodes(bn, env)]
        for bn in body_nodes:
            for x in [bn]:
                if isinstance(x, ast.Name) and x.id == i:
                    total += 1
                if isinstance(x, ast.Subscript) and isinstance(x.slice, ast.Name) and x.slice.id == i:
                    s = ast.unparse(x.value)
                    if s not in [u for u, _ in uses]:
                        uses.append((s, x.value))
        nsub = sum(1 for bn in body_nodes for x in [bn]
                   if isinstance(x, ast.Subscript) and isinstance(x.slice, ast.Name) and x.slice.id == i)
        if total != nsub:
            self.err(f"loop index `{i}` is used other than as a subscript", node)
        bsrc = ast.unparse(base)
        order = [(bsrc, base)] + [(s, x) for s, x in uses if s != bsrc]
        env2 = env.copy()
        lists, pats = [], []
        for s, x in order:
            v = self.ex(x, env)
            if v.t[0] != "L":
                self.err(f"`{s}` is indexed by the loop index but is not a list", node)
            var = self.fresh(i)
            env2.locs[f"{s}[{i}]"] = Val(v.t[1], var)
            lists.append(v.c)
            pats.append(var)
        return env2, lists, pats

    def kept_nodes(self, node, env):
        """all AST nodes below `node`, without the simple statements that are dropped (all targets untranslated)"""
        if isinstance(node, ast.stmt) and not isinstance(node, (ast.If, ast.For)):
            keys = self.assigned([node])
            if keys and all(k in env.ignore for k in keys):
                return []
        out = [node]
        for c in ast.iter_child_nodes(node):
            out += self.kept_nodes(c, env)
        return out

    # ------------------------------------------------------------------------------------------ statements
    def assigned(self, stmts):
        """locations assigned by the statements, in order of first assignment (names and `Y[i]` texts)"""
        out = []

        def add(k):
            if k not in out:
                out.append(k)
        for s in stmts:
            if isinstance(s, ast.Assign):
                for t in s.targets:
                    if isinstance(t, ast.Tuple):
                        for e in t.elts:
                            add(ast.unparse(e))
                    else:
                        add(ast.unparse(t))
            elif isinstance(s, ast.AugAssign):
                add(ast.unparse(s.target))
            elif isinstance(s, ast.Expr) and isinstance(s.value, ast.Call) and isinstance(s.value.func, ast.Attribute) \
                    and s.value.func.attr in ("append", "extend"):
                add(ast.unparse(s.value.func.value))
            elif isinstance(s, ast.If):
                for k in self.assigned(s.body) + self.assigned(s.orelse):
                    add(k)
            elif isinstance(s, ast.For):
                for k in self.assigned(s.body):
                    add(k)
        return out

    def is_validation(self, s):
        if not (isinstance(s, ast.If) and not s.orelse and len(s.body) == 1 and isinstance(s.body[0], ast.Raise)):
            return False
        exc = s.body[0].exc
        cls = ast.unparse(exc.func) if isinstance(exc, ast.Call) else None
        t = s.test
        if isinstance(t, ast.UnaryOp) and isinstance(t.op, ast.Not) and isinstance(t.operand, ast.Call) \
                and ast.unparse(t.operand.func) == "isinstance" and cls == "TypeError":
            return True
        if isinstance(t, ast.Compare) and len(t.ops) == 1 and isinstance(t.ops[0], ast.NotIn) and isinstance(t.left, ast.Name) \
                and isinstance(t.comparators[0], ast.List) and cls == "ValueError":
            return True
        return False

    def store(self, key, val, env, node, lets):
        """bind location `key` to val (a let that shadows), coercing real -> complex for an existing complex location"""
        old = env.locs.get(key)
        if old is not None and not isinstance(old.t, ListT) and old.t == C and val.t == R:
            val = self.coerce(val, C, node)
        if old is not None and old.t in (PSI, PHI, P, OR, B, S) and val.t != old.t:
            self.err(f"`{key}` changes its type from {old.t} to {val.t}", node)
        if not isinstance(val.t, ListT) and val.t not in (R, C, B, PSI, PHI) and val.t[0] != "L":
            self.err(f"value of type {val.t} cannot be stored in `{key}`", node)
        if old is not None and key.endswith("]"):
            name = old.c
            if val.t != old.t:
                self.err(f"element `{key}` changes its type", node)
        else:
            name = "v_" + key
        lets.append(f"let {name} := {val.c} in")
        env.locs[key] = Val(val.t, name)

    def block(self, stmts, env):
        """-> (lets, env')"""
        lets = []
        env = env.copy()
        for s in stmts:
            if isinstance(s, ast.Expr) and isinstance(s.value, ast.Constant) and isinstance(s.value.value, str):
                continue
            if isinstance(s, ast.Pass):
                continue
            keys = self.assigned([s])
            if keys and all(k in env.ignore for k in keys):
                continue                                    # belongs to the part that is not translated
            if any(k in env.ignore for k in keys) and not isinstance(s, (ast.If, ast.For)):
                self.err("statement mixes translated and untranslated targets: " + ast.unparse(s)[:60], s)
            if self.is_validation(s):
                continue
            if isinstance(s, ast.Assign):
                if len(s.targets) != 1:
                    self.err("multiple assignment targets", s)
                t = s.targets[0]
                if isinstance(t, ast.Tuple):
                    v = self.ex(s.value, env)
                    if not (v.t[0] == "T" and len(v.t[1]) == len(t.elts) and all(isinstance(e, ast.Name) for e in t.elts)):
                        self.err("tuple assignment not accepted", s)
                    names = ["v_" + e.id for e in t.elts]
                    lets.append(f"let {tuple_pat(names)} := {v.c} in")
                    for e, ty, nm in zip(t.elts, v.t[1], names):
                        env.locs[e.id] = Val(ty, nm)
                    continue
                key = ast.unparse(t)
                if isinstance(t, ast.Name) or (isinstance(t, ast.Subscript) and key in env.locs):
                    self.store(key, self.ex(s.value, env), env, s, lets)
                    continue
                self.err("assignment target not accepted: " + key[:60], s)
            if isinstance(s, ast.AugAssign):
                key = ast.unparse(s.target)
                if key not in env.locs:
                    self.err("augmented assignment to an unknown location: " + key[:60], s)
                fake = ast.BinOp(left=s.target, op=s.op, right=s.value)
                ast.copy_location(fake, s)
                ast.fix_missing_locations(fake)
                self.store(key, self.ex(fake, env), env, s, lets)
                continue
            if isinstance(s, ast.Expr) and isinstance(s.value, ast.Call) and isinstance(s.value.func, ast.Attribute) \
                    and s.value.func.attr in ("append", "extend") and isinstance(s.value.func.value, ast.Name) \
                    and len(s.value.args) == 1 and not s.value.keywords:
                lname = s.value.func.value.id
                cur = env.locs.get(lname)
                if cur is None or not (isinstance(cur.t, ListT) or cur.t[0] == "L"):
                    self.err(f"`{lname}` is not a list here", s)
                a = s.value.args[0]
                if s.value.func.attr == "extend":
                    if not (isinstance(a, ast.List) and len(a.elts) == 1):
                        self.err("extend is accepted only with a one-element list literal", s)
                    a = a.elts[0]
                v = self.ex(a, env)
                if isinstance(v.t, ListT):
                    self.err("appending an empty list literal", s)
                if isinstance(cur.t, ListT):
                    if cur.t.elt is None:
                        cur.t.elt = v.t
                    elt = cur.t.elt
                else:
                    elt = cur.t[1]
                if elt == C and v.t == R:
                    v = self.coerce(v, C, s)
                if v.t != elt:
                    self.err(f"list `{lname}` holds {elt}, appended {v.t}", s)
                lets.append(f"let v_{lname} := (v_{lname} ++ [{v.c}]) in" if cur.c == "v_" + lname
                            else f"let v_{lname} := ({cur.c} ++ [{v.c}]) in")
                env.locs[lname] = Val(cur.t, "v_" + lname)
                continue
            if isinstance(s, ast.If):
                self.do_if(s, env, lets)
                continue
            if isinstance(s, ast.For):
                self.do_for(s, env, lets)
                continue
            self.err("statement not accepted: " + ast.unparse(s)[:80], s)
        return lets, env

    def final_type(self, a, b, node, key):
        ta = a.t if not isinstance(a.t, ListT) else (L(a.t.elt) if a.t.elt is not None else None)
        tb = b.t if not isinstance(b.t, ListT) else (L(b.t.elt) if b.t.elt is not None else None)
        if ta == tb:
            return a.t
        if {ta, tb} == {R, C}:
            return C
        self.err(f"`{key}` has different types after the two branches", node)

    def do_if(self, s, env, lets):
        test = self.ex(s.test, env)
        if test.t != B:
            self.err("condition is not boolean: " + ast.unparse(s.test)[:60], s)
        l1, e1 = self.block(s.body, env)
        l2, e2 = self.block(s.orelse, env)
        keys = []
        for k in self.assigned(s.body) + self.assigned(s.orelse):
            if k in env.ignore or k in keys:
                continue
            if k in env.locs or (k in e1.locs and k in e2.locs):
                keys.append(k)
            # else: a local of one branch (a later read fails with "name not available")
        if not keys:
            self.err("if-statement without effect", s)
        names, outs1, outs2, types = [], [], [], []
        for k in keys:
            a = e1.locs.get(k) or env.locs[k]
            b = e2.locs.get(k) or env.locs[k]
            t = self.final_type(a, b, s, k)
            if not isinstance(t, ListT):
                a = self.coerce(Val(a.t if not isinstance(a.t, ListT) else L(a.t.elt), a.c), t, s)
                b = self.coerce(Val(b.t if not isinstance(b.t, ListT) else L(b.t.elt), b.c), t, s)
            nm = env.locs[k].c if (k in env.locs and k.endswith("]")) else "v_" + k
            names.append(nm)
            outs1.append(a.c)
            outs2.append(b.c)
            types.append(t)
        lets.append(f"let {tuple_pat(names)} := (if {test.c} then {' '.join(l1)} {tuple_val(outs1)} "
                    f"else {' '.join(l2)} {tuple_val(outs2)}) in")
        for k, nm, t in zip(keys, names, types):
            env.locs[k] = Val(t, nm)

    def do_for(self, s, env, lets):
        if s.orelse:
            self.err("for-else not accepted", s)
        i, base = self.range_len(s.iter, s.target)
        env2 = None
        if i is not None:
            env2, lists, pats = self.bind_index(i, base, s.body, env, s)
        elif isinstance(s.target, ast.Name):
            v = self.ex(s.iter, env)
            if v.t[0] != "L":
                self.err("loop over a non-list: " + ast.unparse(s.iter)[:60], s)
            env2 = env.copy()
            var = "v_" + s.target.id
            env2.locs[s.target.id] = Val(v.t[1], var)
            lists, pats = [v.c], [var]
        else:
            self.err("loop header not accepted: " + ast.unparse(s.iter)[:60], s)
        body_keys = [k for k in self.assigned(s.body) if k not in env.ignore]
        # a list that is traversed (or indexed by the loop index) must not be rebound / appended to inside the loop
        roots = set()
        for x in ([base] if i is not None else [s.iter]) + [y for bn in s.body for y in ast.walk(bn)
                                                            if i is not None and isinstance(y, ast.Subscript)
                                                            and isinstance(y.slice, ast.Name) and y.slice.id == i]:
            r = x.value if (isinstance(x, ast.Subscript) and x is not base and x is not s.iter) else x
            while isinstance(r, ast.Subscript):
                r = r.value
            if isinstance(r, ast.Name):
                roots.add(r.id)
        for k in body_keys:
            if k in roots:
                self.err(f"list `{k}` is traversed by this loop and modified in its body", s)
        stored = [k for k in body_keys if k.endswith(f"[{i}]")] if i is not None else []
        for k in stored:
            lname = k[:-(len(i) + 2)]
            if not (lname in env.locs and not lname.endswith("]")):
                self.err(f"element assignment `{k}`: only a local list can be rebuilt", s)
        state = [k for k in body_keys if k in env.locs and k not in stored]
        if not state and not stored:
            self.err("loop without effect on anything defined before it", s)
        for k in state:
            if k.endswith("]"):
                self.err(f"loop assigns the enclosing element `{k}`", s)
        accs = []
        for k in stored:
            acc = self.fresh("acc")
            accs.append((k, acc))
        lb, eb = self.block(s.body, env2)
        # the state after the body
        st_in = [env.locs[k].c for k in state] + [a for _, a in accs]
        st_names = ["v_" + k for k in state] + [a for _, a in accs]
        outs = []
        for k in state:
            a, b0 = eb.locs[k], env.locs[k]
            if not isinstance(b0.t, ListT):
                t = self.final_type(a, b0, s, k)
                if t != b0.t:
                    self.err(f"loop-carried `{k}` changes its type in the body (initialise it with the final type)", s)
                a = self.coerce(a, t, s)
            outs.append(a.c)
        for k, acc in accs:
            outs.append(f"({acc} ++ [{eb.locs[k].c}])")
        # inside the body the state is referred to by v_<name>: rename the incoming bindings
        lets.append(f"let {tuple_pat(st_names)} := fold_left (fun {tuple_pat(st_names)} {tuple_pat(pats)} => "
                    f"{' '.join(lb)} {tuple_val(outs)}) {self.zipped(lists)} "
                    f"{tuple_val(st_in[:len(state)] + ['(@nil _)' for _ in accs])} in")
        for k in state:
            env.locs[k] = Val(eb.locs[k].t if isinstance(env.locs[k].t, ListT) else env.locs[k].t, "v_" + k)
            if isinstance(env.locs[k].t, ListT) and isinstance(eb.locs[k].t, ListT):
                env.locs[k] = Val(eb.locs[k].t, "v_" + k)
        for k, acc in accs:
            lname = k[:-(len(i) + 2)]
            lets.append(f"let v_{lname} := {acc} in")
            env.locs[lname] = Val(env.locs[lname].t, "v_" + lname)

    # ------------------------------------------------------------------------------------------ whole method
    def initial_env(self):
        env = Env(ignore=self.ignore)
        for nm, t in self.params():
            env.locs[nm] = Val(t, "v_" + nm)
        return env

    def binder(self):
        return " ".join(f"(v_{nm} : {ctype(t)})" for nm, t in self.params() if t != BINS)

    def ret_expr(self, node, env):
        if self.ret_take is not None:
            if not (isinstance(node, ast.Tuple) and len(node.elts) >= self.ret_take):
                self.err("return value is not the expected tuple", node)
            node = ast.Tuple(elts=node.elts[:self.ret_take], ctx=ast.Load())
        return self.ex(node, env)

    def translate(self, coqname, body=None, comment=None):
        body = strip_doc(self.f.body) if body is None else body
        if not body or not isinstance(body[-1], ast.Return) or body[-1].value is None:
            self.err("expected `return <expr>` as last statement", self.f)
        for x in body[:-1]:
            for y in ast.walk(x):
                if isinstance(y, (ast.Return, ast.Break, ast.Continue, ast.While, ast.Try, ast.With, ast.FunctionDef,
                                  ast.Lambda, ast.Yield, ast.Global, ast.Nonlocal, ast.Delete, ast.NamedExpr, ast.Starred)):
                    self.err("statement kind not accepted: " + type(y).__name__, y)
        env = self.initial_env()
        lets, env = self.block(body[:-1], env)
        r = self.ret_expr(body[-1].value, env)
        self.ret = r.t
        txt = f"(* {self.u.cname}.{self.f.name}" + (f" - {comment}" if comment else "") + " *)\n"
        txt += f"Definition {coqname} {SIG} {self.binder()} : {ctype(r.t)} :=\n  " + "\n  ".join(lets) + f"\n  {r.c}.\n\n"
        return txt


class Unit:
    """one estimator class"""

    def __init__(self, spec):
        self.cname, self.rel, self.tag = spec
        tree, self.path = parse(self.rel)
        self.cls = find_class(tree, self.cname)
        self.registry = {}
        self.out = []

    def method(self, name, overrides=None, ignore=(), ret_take=None, body=None, comment=None, coq=None):
        f = find_func(self.cls, name)
        if f.decorator_list:
            raise TranslateError(f"{self.cname}.{name}: decorated method", f, self.path)
        fn = Fn(self, f, self.path, overrides, ignore, ret_take)
        coq = coq or f"gen_{self.tag}_{name.strip('_')}"
        self.out.append(fn.translate(coq, body, comment))
        self.registry[name] = (coq, [(p, t) for p, t in fn.params() if t != BINS], fn.ret)
        return fn

    def leaf(self, name, coqname, binders, env_locs, stmts, expr_node, comment, overrides=None):
        """a function of the given binders: the statements, then the value of expr_node"""
        f = find_func(self.cls, name)
        fn = Fn(self, f, self.path, overrides)
        env = Env(env_locs)
        lets, env = fn.block(stmts, env)
        v = fn.ex(expr_node, env)
        self.out.append(f"(* {self.cname}.{name} - {comment} *)\n"
                        f"Definition {coqname} {SIG} {binders} : {ctype(v.t)} :=\n  " + " ".join(lets) + f" {v.c}.\n\n")
        return v.t


def the_only(nodes, what, where, path):
    if len(nodes) != 1:
        raise TranslateError(f"expected exactly one {what}, found {len(nodes)}", where, path)
    return nodes[0]


def for_loops(stmts):
    return [s for s in stmts if isinstance(s, ast.For)]


def binning(u, name):
    """differential_flow: the loop over the bins -> its body as a function of the two edges.
    returns the statements of differential_flow after the binning loop"""
    f = find_func(u.cls, name)
    body = strip_doc(f.body)
    pos = [k for k, s in enumerate(body) if isinstance(s, ast.For) and ast.unparse(s.iter) == "range(len(bins) - 1)"
           and any(isinstance(x, ast.For) for x in s.body)]
    if len(pos) != 1:
        raise TranslateError(f"{u.cname}.{name}: expected one binning loop `for bin in range(len(bins) - 1)`", f, u.path)
    k = pos[0]
    loop = body[k]
    if not (isinstance(loop.target, ast.Name) and not loop.orelse):
        raise TranslateError(f"{u.cname}.{name}: binning loop header", loop, u.path)
    b = loop.target.id
    fn = Fn(u, f, u.path)
    for s in body[:k]:
        if not (fn.is_validation(s) or (isinstance(s, ast.Assign) and ast.unparse(s) == "particles_bin = []")):
            raise TranslateError(f"{u.cname}.{name}: statement before the binning loop not accepted: " + ast.unparse(s)[:60], s, u.path)
    if not any(isinstance(s, ast.Assign) and ast.unparse(s) == "particles_bin = []" for s in body[:k]):
        raise TranslateError(f"{u.cname}.{name}: `particles_bin = []` not found", f, u.path)
    last = loop.body[-1]
    if ast.unparse(last) not in ("particles_bin.extend([events_bin])", "particles_bin.append(events_bin)"):
        raise TranslateError(f"{u.cname}.{name}: the bin's event list must be collected last by "
                             "`particles_bin.extend([events_bin])`", last, u.path)
    # every use of the bin index: bins[bin] and bins[bin + 1]
    uses = [x for s in loop.body for x in ast.walk(s) if isinstance(x, ast.Name) and x.id == b]
    subs = [ast.unparse(x) for s in loop.body for x in ast.walk(s) if isinstance(x, ast.Subscript)
            and any(isinstance(y, ast.Name) and y.id == b for y in ast.walk(x.slice))]
    if len(uses) != len(subs) or any(sx not in (f"bins[{b}]", f"bins[{b} + 1]") for sx in subs):
        raise TranslateError(f"{u.cname}.{name}: the bin index may only occur as bins[{b}] and bins[{b} + 1]: {subs}", loop, u.path)
    params = [(p.arg, ast.unparse(p.annotation)) for p in f.args.args[1:]]
    want = {"particle_data": "List[List[Particle]]", "flow_as_function_of": "str"}
    for nm, an in want.items():
        if (nm, an) not in params:
            raise TranslateError(f"{u.cname}.{name}: parameter {nm}: {an} expected", f, u.path)
    env = {"particle_data": Val(L(L(P)), "v_particle_data"), "flow_as_function_of": Val(S, "v_flow_as_function_of"),
           f"bins[{b}]": Val(R, "lo"), f"bins[{b} + 1]": Val(R, "hi")}
    fake_ret = ast.parse("events_bin", mode="eval").body
    u.leaf(name, f"gen_{u.tag}_bin_events", "(v_flow_as_function_of : string) (lo hi : K) (v_particle_data : list (list (cpx K * D)))",
           env, loop.body[:-1], fake_ret, "body of the loop over the bins: the events restricted to the bin [lo, hi)")
    # the per-particle test as a function of the particle: the innermost loop `for particle in particle_data[event]`
    inner = [x for s in loop.body for x in ast.walk(s) if isinstance(x, ast.For) and not any(isinstance(y, ast.For) for y in x.body)]
    inner = the_only(inner, "innermost particle loop", loop, u.path)
    if not (isinstance(inner.target, ast.Name) and isinstance(inner.body[-1], ast.If) and not inner.body[-1].orelse
            and len(inner.body[-1].body) == 1 and ast.unparse(inner.body[-1].body[0]).endswith(f".append({inner.target.id})")):
        raise TranslateError(f"{u.cname}.{name}: the particle loop must end with `if <test>: <list>.append(<particle>)`", inner, u.path)
    pv = inner.target.id
    env2 = {"flow_as_function_of": Val(S, "v_flow_as_function_of"), f"bins[{b}]": Val(R, "lo"), f"bins[{b} + 1]": Val(R, "hi"),
            pv: Val(P, "v_" + pv)}
    u.leaf(name, f"gen_{u.tag}_in_bin", f"(v_flow_as_function_of : string) (lo hi : K) (v_{pv} : (cpx K * D)%type)",
           env2, inner.body[:-1], inner.body[-1].test, "the test that puts a particle into the bin [lo, hi)")
    return f, body[k + 1:], b


def nan_weight_leaf(u, method):
    """the per-particle weight (`1.0 if np.isnan(X.weight) else X.weight`) of a particle loop as a function of the particle"""
    f = find_func(u.cls, method)
    inner = the_only([x for x in ast.walk(f) if isinstance(x, ast.For) and not any(isinstance(y, ast.For) for y in x.body)],
                     "particle loop", f, u.path)
    wst = [s for s in inner.body if isinstance(s, ast.Assign) and ast.unparse(s.targets[0]) == "weight"]
    wst = the_only(wst, "`weight = ...` in the particle loop", inner, u.path)
    psub = {ast.unparse(x.value) for x in ast.walk(wst.value) if isinstance(x, ast.Attribute) and x.attr == "weight"}
    if len(psub) != 1:
        raise TranslateError(f"{u.cname}.{method}: the weight must be read from one particle", wst, u.path)
    u.leaf(method, f"gen_{u.tag}_weight", "(p : (cpx K * D)%type)", {psub.pop(): Val(P, "p")}, [], wst.value,
           "the weight of a particle (NaN -> literal)")


def rp_unit():
    u = Unit(RP)
    u.method("integrated_flow")
    nan_weight_leaf(u, "integrated_flow")
    u.method("__differential_flow_calculation")
    f, tail, b = binning(u, "differential_flow")
    if [ast.unparse(s) for s in tail] != ["return self.__differential_flow_calculation(particles_bin)"]:
        raise TranslateError("ReactionPlaneFlow.differential_flow: expected `return self.__differential_flow_calculation("
                             "particles_bin)` after the binning loop", f, u.path)
    return u


def weights_leaf(u):
    """__compute_particle_weights: the value appended per particle as a function of the particle"""
    f = find_func(u.cls, "__compute_particle_weights")
    inner = the_only([x for x in ast.walk(f) if isinstance(x, ast.For) and not any(isinstance(y, ast.For) for y in x.body)],
                     "particle loop", f, u.path)
    last = inner.body[-1]
    if not (isinstance(inner.target, ast.Name) and isinstance(last, ast.Expr) and isinstance(last.value, ast.Call)
            and ast.unparse(last.value.func).endswith(".append") and len(last.value.args) == 1):
        raise TranslateError(f"{u.cname}.__compute_particle_weights: the particle loop must end with an append", inner, u.path)
    pv = inner.target.id
    u.leaf("__compute_particle_weights", f"gen_{u.tag}_particle_weight", f"(v_{pv} : (cpx K * D)%type)",
           {pv: Val(P, "v_" + pv)}, inner.body[:-1], last.value.args[0], "the event-plane weight of one particle")


def subevent_leaves(u):
    """the two sub-event tests of __compute_event_angles_sub_events as functions of the particle"""
    f = find_func(u.cls, "__compute_event_angles_sub_events")
    tests = []
    for x in ast.walk(f):
        if isinstance(x, ast.If) and "pseudorapidity" in ast.unparse(x.test):
            tests.append(x.test)
    if len(tests) != 2:
        raise TranslateError(f"{u.cname}.__compute_event_angles_sub_events: expected two sub-event tests", f, u.path)
    for nm, t in zip("AB", tests):
        subs = {ast.unparse(x.func.value) for x in ast.walk(t) if isinstance(x, ast.Call) and isinstance(x.func, ast.Attribute)
                and x.func.attr == "pseudorapidity"}
        if len(subs) != 1:
            raise TranslateError(f"{u.cname}: sub-event test reads more than one particle", t, u.path)
        u.leaf("__compute_event_angles_sub_events", f"gen_{u.tag}_in_{nm}", "(p : (cpx K * D)%type)",
               {subs.pop(): Val(P, "p")}, [], t, f"membership test of sub-event {nm}")


def diff_tail(u, f, tail, b, calls):
    """the statements of SP/EP differential_flow after the binning loop: reference once, then per bin the average"""
    got = [" ".join(ast.unparse(s).split()) for s in tail]
    if got != calls:
        raise TranslateError(f"{u.cname}.differential_flow: the statements after the binning loop changed: {got!r}", f, u.path)


def sp_unit():
    u = Unit(SP)
    weights_leaf(u)
    u.method("__compute_particle_weights")
    u.method("__compute_flow_vectors")
    subevent_leaves(u)
    u.method("__compute_event_angles_sub_events",
             ignore=("relevant_weights_A", "relevant_weights_A_event", "relevant_weights_B", "relevant_weights_B_event"))
    u.method("__compute_u_vectors")
    u.method("__compute_event_plane_resolution")
    u.method("__compute_flow_particles")
    u.method("__calculate_reference")
    u.method("__calculate_particle_flow")
    nan_weight_leaf(u, "__calculate_flow_event_average")
    u.method("__calculate_flow_event_average")
    u.method("integrated_flow")
    f, tail, b = binning(u, "differential_flow")
    # after the binning loop: the reference once, then per bin the event average of the bin's particle flow
    if not (len(tail) == 4 and isinstance(tail[0], ast.Assign) and ast.unparse(tail[1]) == "flow_bin = []"
            and isinstance(tail[2], ast.For) and ast.unparse(tail[2].iter) == "range(len(bins) - 1)" and not tail[2].orelse
            and isinstance(tail[2].target, ast.Name) and len(tail[2].body) == 1 and ast.unparse(tail[3]) == "return flow_bin"):
        raise TranslateError("ScalarProductFlow.differential_flow: statements after the binning loop not accepted", f, u.path)
    bb = tail[2].target.id
    app = tail[2].body[0]
    if not (isinstance(app, ast.Expr) and isinstance(app.value, ast.Call) and ast.unparse(app.value.func) == "flow_bin.append"
            and len(app.value.args) == 1 and not app.value.keywords):
        raise TranslateError("ScalarProductFlow.differential_flow: the per-bin result must be appended to flow_bin", app, u.path)
    uses = [x for x in ast.walk(app) if isinstance(x, ast.Name) and x.id == bb]
    subs = [x for x in ast.walk(app) if isinstance(x, ast.Subscript) and ast.unparse(x) == f"particles_bin[{bb}]"]
    if len(uses) != len(subs) or not subs:
        raise TranslateError("ScalarProductFlow.differential_flow: the bin index may only occur as particles_bin[bin]", app, u.path)
    env = {"particle_data_event_plane": Val(L(L(P)), "v_particle_data_event_plane"), "self_corr": Val(B, "v_self_corr"),
           f"particles_bin[{bb}]": Val(L(L(P)), "v_bin_events")}
    u.leaf("differential_flow", "gen_sp_differential_bin",
           "(v_bin_events v_particle_data_event_plane : list (list (cpx K * D))) (v_self_corr : bool)",
           env, [tail[0]], app.value.args[0],
           "what is appended per bin (v_bin_events = particles_bin[bin]); the reference is computed once from the whole sample")
    return u


EP_RES_TAIL = [
    "def resolution(x: float) -> float: R = np.sqrt(np.pi) / 2.0 * x * np.exp(-0.5 * x * x) * (special.i0(0.5 * x * x) + special.i1(0.5 * x * x)) return R",
    "def f1(x: float, Rn: float) -> float: return resolution(x) - Rn",
    "def f1_wrapper(x: float) -> float: return f1(x, Rn)",
    "try: xi = optimize.root_scalar(f1_wrapper, bracket=[0, 20], method='brentq').root except BaseException: "
    "warnings.warn('Could not find solution of resolution equation. Use approximation instead.') return Rn",
    "xi_new = np.sqrt(2) * xi",
    "return resolution(xi_new)"]


def ep_unit():
    u = Unit(EP)
    weights_leaf(u)
    u.method("__compute_particle_weights")
    u.method("__compute_flow_vectors")
    u.method("__sum_weights")
    subevent_leaves(u)
    u.method("__compute_event_angles_sub_events")
    u.method("__compute_u_vectors")
    # resolution: Rn is translated; the Bessel-function inversion (root finder, fallback `return Rn`) is the oracle res_fun
    f = find_func(u.cls, "__compute_event_plane_resolution")
    body = strip_doc(f.body)
    k = [j for j, s in enumerate(body) if isinstance(s, ast.FunctionDef)]
    if not k:
        raise TranslateError("EventPlaneFlow.__compute_event_plane_resolution: the inversion part was not found", f, u.path)
    got = [" ".join(ast.unparse(s).split()) for s in body[k[0]:]]
    if got != EP_RES_TAIL:
        raise TranslateError("EventPlaneFlow.__compute_event_plane_resolution: the resolution inversion (Bessel function, brentq on "
                             f"[0, 20], fallback to Rn) changed: {got!r}", f, u.path)
    ret = ast.parse("return Rn").body[0]
    u.method("__compute_event_plane_resolution", overrides={"Psi_A": L(PSI), "Psi_B": L(PSI)},
             body=body[:k[0]] + [ret], comment="the argument Rn of the resolution inversion", coq="gen_ep_Rn")
    u.registry["__compute_event_plane_resolution"] = ("gen_ep_resolution", [("Psi_A", L(PSI)), ("Psi_B", L(PSI))], R)
    u.out.append("(* the value returned by __compute_event_plane_resolution: the inversion applied to Rn (oracle res_fun; when the\n"
                 "   root finder fails the method returns Rn itself, which is part of that oracle) *)\n"
                 f"Definition gen_ep_resolution {SIG} (v_Psi_A v_Psi_B : list (cpx K)) : K :=\n"
                 f"  res_fun (gen_ep_Rn {ARGS} v_Psi_A v_Psi_B).\n\n")
    u.method("__compute_flow_particles", ignore=("psi_values", "psi_values_event"), ret_take=1)
    u.method("__calculate_reference")
    # __calculate_particle_flow / integrated_flow pass the psi values along: only the flow values are translated
    f = find_func(u.cls, "__calculate_particle_flow")
    got = [" ".join(ast.unparse(s).split()) for s in strip_doc(f.body)]
    want = ["event_weights = self.__compute_particle_weights(particle_data)",
            "u_vectors = self.__compute_u_vectors(particle_data)",
            "flow_values, psi_values = self.__compute_flow_particles(particle_data, event_weights, Q_vector, u_vectors, resolution, self_corr)",
            "return (flow_values, psi_values)"]
    if got != want:
        raise TranslateError(f"EventPlaneFlow.__calculate_particle_flow changed: {got!r}", f, u.path)
    u.out.append("(* EventPlaneFlow.__calculate_particle_flow (first component; statements compared with the expected text) *)\n"
                 f"Definition gen_ep_calculate_particle_flow {SIG} (v_particle_data : list (list (cpx K * D))) (v_resolution : K) "
                 "(v_Q_vector : list (cpx K)) (v_self_corr : bool) : list (list K) :=\n"
                 f"  let v_event_weights := gen_ep_compute_particle_weights {ARGS} v_particle_data in\n"
                 f"  let v_u_vectors := gen_ep_compute_u_vectors {ARGS} v_particle_data in\n"
                 f"  gen_ep_compute_flow_particles {ARGS} v_particle_data v_event_weights v_Q_vector v_u_vectors v_resolution v_self_corr.\n\n")
    nan_weight_leaf(u, "__calculate_flow_event_average")
    u.method("__calculate_flow_event_average", ret_take=2,
             ignore=("psivalue", "psivalue_squared", "Psi_n", "sigma_Psi", "Psi_n_squared", "std_deviation_Psi", "psi_particle_list"))
    f = find_func(u.cls, "integrated_flow")
    got = [" ".join(ast.unparse(s).split()) for s in strip_doc(f.body) if not Fn(u, f, u.path).is_validation(s)]
    want = ["resolution, Q_vector = self.__calculate_reference(particle_data_event_plane)",
            "flow_values, psi_values = self.__calculate_particle_flow(particle_data, resolution, Q_vector, self_corr)",
            "return self.__calculate_flow_event_average(particle_data, flow_values, psi_values)"]
    if got != want:
        raise TranslateError(f"EventPlaneFlow.integrated_flow changed: {got!r}", f, u.path)
    u.out.append("(* EventPlaneFlow.integrated_flow (first two components; statements compared with the expected text) *)\n"
                 f"Definition gen_ep_integrated_flow {SIG} (v_particle_data v_particle_data_event_plane : list (list (cpx K * D))) "
                 "(v_self_corr : bool) : (K * K)%type :=\n"
                 f"  let '(v_resolution, v_Q_vector) := gen_ep_calculate_reference {ARGS} v_particle_data_event_plane in\n"
                 f"  let v_flow_values := gen_ep_calculate_particle_flow {ARGS} v_particle_data v_resolution v_Q_vector v_self_corr in\n"
                 f"  gen_ep_calculate_flow_event_average {ARGS} v_particle_data v_flow_values.\n\n")
    f, tail, b = binning(u, "differential_flow")
    diff_tail(u, f, tail, b, [
        "resolution, Q_vector = self.__calculate_reference(particle_data_event_plane)",
        "flow_bin = []",
        f"for {b} in range(len(bins) - 1): flow_values, psi_values = self.__calculate_particle_flow(particles_bin[{b}], resolution, "
        f"Q_vector, self_corr) flow_bin.append(self.__calculate_flow_event_average(particles_bin[{b}], flow_values, psi_values))",
        "return flow_bin"])
    u.out.append("(* EventPlaneFlow.differential_flow: what is appended per bin, first two components (statements compared with the "
                 "expected text; v_bin_events = particles_bin[bin]) *)\n"
                 f"Definition gen_ep_differential_bin {SIG} (v_bin_events v_particle_data_event_plane : list (list (cpx K * D))) "
                 "(v_self_corr : bool) : (K * K)%type :=\n"
                 f"  let '(v_resolution, v_Q_vector) := gen_ep_calculate_reference {ARGS} v_particle_data_event_plane in\n"
                 f"  let v_flow_values := gen_ep_calculate_particle_flow {ARGS} v_bin_events v_resolution v_Q_vector v_self_corr in\n"
                 f"  gen_ep_calculate_flow_event_average {ARGS} v_bin_events v_flow_values.\n\n")
    return u


def defaults(u):
    """constructor defaults of n / weight / pseudorapidity_gap and of self_corr"""
    out = []
    init = find_func(u.cls, "__init__")
    # the translated methods read self.n_ / self.weight_ / self.pseudorapidity_gap_ as constants: the constructor must store its
    # arguments unchanged and no other method may assign an attribute of self
    stores = {}
    for x in ast.walk(init):
        if isinstance(x, (ast.Assign, ast.AugAssign, ast.AnnAssign)):
            for t in (x.targets if isinstance(x, ast.Assign) else [x.target]):
                for y in ast.walk(t):
                    if isinstance(y, ast.Attribute) and isinstance(y.value, ast.Name) and y.value.id == "self":
                        if not isinstance(x, ast.Assign) or y.attr in stores:
                            raise TranslateError(f"{u.cname}.__init__: attribute {y.attr} is not stored by one plain assignment", x, u.path)
                        stores[y.attr] = ast.unparse(x.value)
    want = {"n_": "n"} if u.tag == "rp" else {"n_": "n", "weight_": "weight", "pseudorapidity_gap_": "pseudorapidity_gap"}
    if stores != want:
        raise TranslateError(f"{u.cname}.__init__: expected the attributes {want}, found {stores}", init, u.path)
    for m in u.cls.body:
        if isinstance(m, ast.FunctionDef) and m.name != "__init__":
            for x in ast.walk(m):
                tg = x.targets if isinstance(x, ast.Assign) else [x.target] if isinstance(x, (ast.AugAssign, ast.AnnAssign)) else []
                for t in tg:
                    for y in ast.walk(t):
                        if isinstance(y, ast.Attribute) and isinstance(y.value, ast.Name) and y.value.id == "self":
                            raise TranslateError(f"{u.cname}.{m.name}: assigns self.{y.attr} (the estimators are translated as "
                                                 "functions of their arguments and the constructor constants)", x, u.path)
                if isinstance(x, (ast.Global, ast.Nonlocal)):
                    raise TranslateError(f"{u.cname}.{m.name}: global / nonlocal state", x, u.path)
    args = init.args.args
    ds = dict(zip([a.arg for a in args[len(args) - len(init.args.defaults):]], init.args.defaults))
    if "n" in ds:
        out.append(f"Definition gen_{u.tag}_default_n : Z := {int_const(ds['n'], u.path)}%Z.\n")
    if "pseudorapidity_gap" in ds:
        fr = Fraction(ast.literal_eval(ds["pseudorapidity_gap"]))
        out.append(f"Definition gen_{u.tag}_default_gap : Q := ({fr.numerator} # {fr.denominator})%Q.\n")
    # the three constructor guards: n <= 0, gap < 0 reject
    guards = []
    for x in ast.walk(init):
        if isinstance(x, ast.If) and isinstance(x.test, ast.Compare) and len(x.test.ops) == 1 and len(x.body) == 1 \
                and isinstance(x.body[0], ast.Raise) and isinstance(x.test.left, ast.Name) \
                and isinstance(x.test.ops[0], (ast.Lt, ast.LtE, ast.Gt, ast.GtE)):
            guards.append((x.test.left.id, type(x.test.ops[0]).__name__, int_const(x.test.comparators[0], u.path)))
    out.append(f"Definition gen_{u.tag}_ctor_rejects : list (string * string * Z) :=\n  [" +
               "; ".join(f"({cstr(a)}, {cstr(o)}, {c}%Z)" for a, o, c in guards) + "].\n")
    for m in ("integrated_flow", "differential_flow"):
        f = find_func(u.cls, m)
        a = f.args.args
        dd = dict(zip([x.arg for x in a[len(a) - len(f.args.defaults):]], f.args.defaults))
        if "self_corr" in dd:
            v = ast.literal_eval(dd["self_corr"])
            if not isinstance(v, bool):
                raise TranslateError(f"{u.cname}.{m}: default of self_corr is not a bool", f, u.path)
            out.append(f"Definition gen_{u.tag}_default_self_corr_{m.split('_')[0]} : bool := {'true' if v else 'false'}.\n")
    return "".join(out) + "\n"


def generate():
    out = [HEADER, "From Coq Require Import List ZArith QArith Bool String.\nFrom SX Require Import Lib.KRing Lib.Cpx.\n"
           "Import ListNotations.\nLocal Open Scope bool_scope.\n\n"]
    for mk in (rp_unit, sp_unit, ep_unit):
        u = mk()
        out.append(f"(* ======================= {u.cname} ({u.rel}) ======================= *)\n")
        out += u.out
        out.append(defaults(u))
    return "".join(out)


def main(outdir):
    return write_if_changed(outdir + "/GenFlowEst.v", generate())

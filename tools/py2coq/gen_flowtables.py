"""Gen/GenFlowTables.v from src/sparkx/flow/*.py (`tables` extractor): for every flow estimator the selector list
that differential_flow validates, the selector strings its code dispatches on, the accepted-value lists of the
constructor arguments, the constructor defaults of those arguments and the weight strings that are dispatched."""
import ast
from .core import *

OUTPUTS = ["GenFlowTables"]
CLASSES = [("ReactionPlaneFlow", "src/sparkx/flow/ReactionPlaneFlow.py"),
           ("EventPlaneFlow", "src/sparkx/flow/EventPlaneFlow.py"),
           ("ScalarProductFlow", "src/sparkx/flow/ScalarProductFlow.py"),
           ("QCumulantFlow", "src/sparkx/flow/QCumulantFlow.py"),
           ("LeeYangZeroFlow", "src/sparkx/flow/LeeYangZeroFlow.py"),
           ("PCAFlow", "src/sparkx/flow/PCAFlow.py")]


def lit(x, node, path):
    if isinstance(x, bool) or not isinstance(x, (str, int, float)):
        raise TranslateError("unexpected literal type in a table", node, path)
    return str(x)


def cs(s):
    return '"' + s.replace('"', '""') + '"%string'


def clist(xs):
    return "[" + "; ".join(xs) + "]"


def not_in_lists(func, path):
    """all `<name> not in [literals]` tests of a function -> {name: [literals as strings]}"""
    out = {}
    for n in ast.walk(func):
        if isinstance(n, ast.Compare) and len(n.ops) == 1 and isinstance(n.ops[0], ast.NotIn) \
                and isinstance(n.left, ast.Name) and isinstance(n.comparators[0], (ast.List, ast.Tuple)):
            vals = [lit(ast.literal_eval(e), n, path) for e in n.comparators[0].elts]
            if n.left.id in out and out[n.left.id] != vals:
                raise TranslateError(f"two different accepted lists for {n.left.id}", n, path)
            out[n.left.id] = vals
    return out


def eq_strings(scope, left_text):
    out = []
    for n in ast.walk(scope):
        if isinstance(n, ast.Compare) and len(n.ops) == 1 and isinstance(n.ops[0], ast.Eq) \
                and ast.unparse(n.left) == left_text and isinstance(n.comparators[0], ast.Constant) \
                and isinstance(n.comparators[0].value, str):
            if n.comparators[0].value not in out:
                out.append(n.comparators[0].value)
    return out


def generate():
    val, disp, acc, dflt, wdisp = [], [], [], [], []
    for cname, rel in CLASSES:
        tree, path = parse(rel)
        cls = find_class(tree, cname)
        df = find_func(cls, "differential_flow")
        lists = not_in_lists(df, path)
        if "flow_as_function_of" not in lists:
            raise TranslateError(f"{cname}.differential_flow: selector validation not found", df, path)
        val.append(f"({cs(cname)}, {clist([cs(x) for x in lists['flow_as_function_of']])})")
        d = eq_strings(cls, "flow_as_function_of")
        if not d:
            raise TranslateError(f"{cname}: no selector dispatch found", cls, path)
        disp.append(f"({cs(cname)}, {clist([cs(x) for x in d])})")
        init = find_func(cls, "__init__")
        il = not_in_lists(init, path)
        acc.append(f"({cs(cname)}, {clist(['(' + cs(a) + ', ' + clist([cs(v) for v in vs]) + ')' for a, vs in sorted(il.items())])})")
        args = init.args.args
        defaults = dict(zip([a.arg for a in args[len(args) - len(init.args.defaults):]], init.args.defaults))
        ds = []
        for a in sorted(il):
            if a in defaults:
                ds.append(f"({cs(a)}, {cs(lit(ast.literal_eval(defaults[a]), defaults[a], path))})")
        dflt.append(f"({cs(cname)}, {clist(ds)})")
        w = eq_strings(cls, "self.weight_")
        if w or "weight" in il:
            wdisp.append(f"({cs(cname)}, {clist([cs(x) for x in w])})")
    out = [HEADER, "From Coq Require Import String List.\nImport ListNotations.\n\n",
           "(* selector lists validated by differential_flow *)\n",
           f"Definition tab_selectors_validated : list (string * list string) :=\n  {clist(val)}.\n",
           "(* selector strings the code compares flow_as_function_of with *)\n",
           f"Definition tab_selectors_dispatched : list (string * list string) :=\n  {clist(disp)}.\n",
           "(* constructor arguments validated against a list: accepted values *)\n",
           f"Definition tab_ctor_accepted : list (string * list (string * list string)) :=\n  {clist(acc)}.\n",
           "(* defaults of those arguments *)\n",
           f"Definition tab_ctor_defaults : list (string * list (string * string)) :=\n  {clist(dflt)}.\n",
           "(* weight strings the code compares self.weight_ with *)\n",
           f"Definition tab_weight_dispatched : list (string * list string) :=\n  {clist(wdisp)}.\n"]
    return "".join(out)


def main(outdir):
    return write_if_changed(outdir + "/GenFlowTables.v", generate())

"""Gen/GenEcc.v from src/sparkx/EventCharacteristics.py: the table- and formula-shaped parts of the eccentricity.

  * eccentricity_from_particles: weight dispatch                  -> association list  weight string -> what is read
  * both variants: the branch chain that picks the radial power   -> gen_rpow_{particles,lattice} n m  (exponent = E / 2.0)
  * both variants: the loop body (phi, real_eps, imag_eps, norm)  -> three field expressions over (rn, cos(n phi), sin(n phi), w)
  * both variants: the return expression                          -> real and imaginary part of the result
  * both variants: the two argument checks in front of the loop   -> minimal n, minimal m
  * eccentricity: arguments are passed through unchanged          -> checked here (fail-closed)
The accumulation loop itself, the unit vector from arctan2 and numpy's division are modelled by hand (Model/Ecc.v).
"""
import ast
from .core import *
from . import ratexpr

SRC = "src/sparkx/EventCharacteristics.py"
OUTPUTS = ["GenEcc"]

BASE = "x ** 2 + y ** 2"


def _is_none_test(node, name, negate=False):
    """`name is None` / `name is not None`"""
    return (isinstance(node, ast.Compare) and len(node.ops) == 1 and isinstance(node.left, ast.Name) and node.left.id == name
            and isinstance(node.comparators[0], ast.Constant) and node.comparators[0].value is None
            and isinstance(node.ops[0], ast.IsNot if negate else ast.Is))


def _cond(node, path):
    """conditions of the radial-power chain over (harmonic_n : Z) (harmonic_m : option Z) -> Coq bool"""
    if isinstance(node, ast.BoolOp) and isinstance(node.op, ast.And):
        return "(" + " && ".join(_cond(v, path) for v in node.values) + ")"
    if _is_none_test(node, "harmonic_m"):
        return "(is_none m)"
    if _is_none_test(node, "harmonic_m", negate=True):
        return "(negb (is_none m))"
    if (isinstance(node, ast.Compare) and len(node.ops) == 1 and isinstance(node.left, ast.Name) and node.left.id == "harmonic_n"
            and isinstance(node.ops[0], (ast.Eq, ast.NotEq))):
        c = int_const(node.comparators[0], path)
        t = f"(n =? {c})%Z"
        return t if isinstance(node.ops[0], ast.Eq) else f"(negb {t})"
    raise TranslateError("radial-power chain: condition not accepted: " + ast.unparse(node), node, path)


def _power(node, path):
    """`(x**2 + y**2) ** (E / 2.0)` -> E as a Coq Z term over n, m"""
    if not (isinstance(node, ast.BinOp) and isinstance(node.op, ast.Pow) and ast.unparse(node.left) == BASE):
        raise TranslateError("radial power: expected `(x**2 + y**2) ** (E / 2.0)`", node, path)
    e = node.right
    if not (isinstance(e, ast.BinOp) and isinstance(e.op, ast.Div) and int_const(e.right, path) == 2):
        raise TranslateError("radial power: exponent must be `E / 2.0`", node, path)
    num = e.left
    if isinstance(num, ast.Name) and num.id == "harmonic_n":
        return "(Ok n)"
    if isinstance(num, ast.Name) and num.id == "harmonic_m":
        return "(match m with Some v => Ok v | None => Err TypeError end)"
    return f"(Ok {int_const(num, path)}%Z)"


def radial_chain(loop, name, path):
    chain = [st for st in loop.body if isinstance(st, ast.If) and any(
        isinstance(b, ast.Assign) and ast.unparse(b.targets[0]) == "rn" for b in st.body)]
    if len(chain) != 1:
        raise TranslateError("radial-power chain not found", loop, path)
    cur = chain[0]
    rows = []
    while True:
        if not (len(cur.body) == 1 and isinstance(cur.body[0], ast.Assign) and ast.unparse(cur.body[0].targets[0]) == "rn"):
            raise TranslateError("radial-power chain: expected `rn = ...`", cur, path)
        rows.append((_cond(cur.test, path), _power(cur.body[0].value, path), ast.unparse(cur.test)))
        if len(cur.orelse) == 1 and isinstance(cur.orelse[0], ast.If):
            cur = cur.orelse[0]
            continue
        els = cur.orelse
        break
    if not (len(els) == 1 and isinstance(els[0], ast.Raise) and isinstance(els[0].exc, ast.Call)
            and isinstance(els[0].exc.func, ast.Name) and els[0].exc.func.id == "ValueError"):
        raise TranslateError("radial-power chain: expected final `else: raise ValueError`", chain[0], path)
    out = [f"(* numerator E of the exponent in rn = (x**2 + y**2) ** (E / 2.0) *)\nDefinition {name} (n : Z) (m : option Z) : result Z :=\n"]
    for c, p, src in rows:
        out.append(f"  if {c} then {p} else      (* {src} *)\n")
    out.append("  Err ValueError.\n")
    return "".join(out)


def loop_body(loop, wname, suffix, path):
    stmts = {}
    for st in loop.body:
        if isinstance(st, ast.Assign) and ast.unparse(st.targets[0]) == "phi":
            if ast.unparse(st.value) != "np.arctan2(y, x)":
                raise TranslateError("expected `phi = np.arctan2(y, x)`", st, path)
            stmts["phi"] = True
        if isinstance(st, ast.AugAssign):
            if not isinstance(st.op, ast.Add):
                raise TranslateError("accumulators must use +=", st, path)
            stmts[ast.unparse(st.target)] = st.value
    if set(stmts) != {"phi", "real_eps", "imag_eps", "norm"}:
        raise TranslateError("loop body: expected phi, real_eps +=, imag_eps +=, norm +=; found " + repr(sorted(stmts)), loop, path)
    env = {"rn": "rn", "np.cos(harmonic_n * phi)": "cn", "np.sin(harmonic_n * phi)": "sn", wname: "w"}
    out = []
    for key, nm in (("real_eps", "real"), ("imag_eps", "imag"), ("norm", "norm")):
        e = ratexpr.expr(stmts[key], env, path, ratexpr.FIELD)
        out.append(f"  (* {key} += {ast.unparse(stmts[key])} *)\n  Definition gen_{nm}_term_{suffix} (rn cn sn w : K) : K := {e}.\n")
    return "".join(out)


def ret_expr(f, suffix, path):
    rets = [n for n in ast.walk(f) if isinstance(n, ast.Return)]
    if len(rets) != 1:
        raise TranslateError("expected exactly one return", f, path)
    v = rets[0].value
    neg = False
    if isinstance(v, ast.UnaryOp) and isinstance(v.op, ast.USub):
        neg, v = True, v.operand
    if not (isinstance(v, ast.BinOp) and isinstance(v.op, ast.Add)):
        raise TranslateError("return: expected `[-](RE + IM * 1j)`", rets[0], path)
    re_, im = v.left, v.right
    if not (isinstance(im, ast.BinOp) and isinstance(im.op, ast.Mult) and isinstance(im.right, ast.Constant) and im.right.value == 1j):
        raise TranslateError("return: imaginary part must be `<expr> * 1j`", rets[0], path)
    env = {"real_eps": "re", "imag_eps": "im", "norm": "nrm"}
    a = ratexpr.expr(re_, env, path, ratexpr.FIELD)
    b = ratexpr.expr(im.left, env, path, ratexpr.FIELD)
    if neg:
        a, b = f"(kopp {a})", f"(kopp {b})"
    return (f"  (* return {ast.unparse(rets[0].value)} *)\n"
            f"  Definition gen_result_re_{suffix} (re im nrm : K) : K := {a}.\n"
            f"  Definition gen_result_im_{suffix} (re im nrm : K) : K := {b}.\n")


def arg_checks(f, path):
    """`if harmonic_n < C: raise ValueError` and `if harmonic_m is not None and harmonic_m < C: raise ValueError`"""
    nmin = mmin = None
    for st in strip_doc(f.body):
        if isinstance(st, ast.If) and len(st.body) == 1 and isinstance(st.body[0], ast.Raise):
            t = st.test
            exc = st.body[0].exc
            cls = exc.func.id if isinstance(exc, ast.Call) and isinstance(exc.func, ast.Name) else None
            if (isinstance(t, ast.Compare) and len(t.ops) == 1 and isinstance(t.ops[0], ast.Lt)
                    and ast.unparse(t.left) == "harmonic_n" and cls == "ValueError"):
                nmin = int_const(t.comparators[0], path)
            if (isinstance(t, ast.BoolOp) and isinstance(t.op, ast.And) and len(t.values) == 2
                    and _is_none_test(t.values[0], "harmonic_m", negate=True)
                    and isinstance(t.values[1], ast.Compare) and isinstance(t.values[1].ops[0], ast.Lt)
                    and ast.unparse(t.values[1].left) == "harmonic_m" and cls == "ValueError"):
                mmin = int_const(t.values[1].comparators[0], path)
    if nmin is None or mmin is None:
        raise TranslateError("argument checks on harmonic_n / harmonic_m not recognised", f, path)
    return nmin, mmin


def weight_table(loop, path):
    chain = None
    for st in loop.body:
        if isinstance(st, ast.If) and isinstance(st.test, ast.Compare) and ast.unparse(st.test.left) == "weight_quantity":
            chain = st
            break
    if chain is None:
        raise TranslateError("weight dispatch not found", loop, path)
    rows, cur = [], chain
    while True:
        t = cur.test
        if not (isinstance(t, ast.Compare) and len(t.ops) == 1 and isinstance(t.ops[0], ast.Eq)
                and ast.unparse(t.left) == "weight_quantity" and isinstance(t.comparators[0], ast.Constant)
                and isinstance(t.comparators[0].value, str)):
            raise TranslateError("weight dispatch: expected `weight_quantity == \"...\"`", cur, path)
        if not (len(cur.body) == 1 and isinstance(cur.body[0], ast.Assign) and ast.unparse(cur.body[0].targets[0]) == "weight"):
            raise TranslateError("weight dispatch: expected `weight = ...`", cur, path)
        v = cur.body[0].value
        if isinstance(v, ast.Attribute) and isinstance(v.value, ast.Name) and v.value.id == "particle":
            sel = f'WAttr "{v.attr}"'
        elif isinstance(v, ast.Constant) and isinstance(v.value, (int, float)) and not isinstance(v.value, bool) and v.value == 1:
            sel = "WOne"
        else:
            raise TranslateError("weight dispatch: value must be `particle.<attr>` or 1.0", cur, path)
        rows.append((t.comparators[0].value, sel))
        if len(cur.orelse) == 1 and isinstance(cur.orelse[0], ast.If):
            cur = cur.orelse[0]
            continue
        els = cur.orelse
        break
    if not (len(els) == 1 and isinstance(els[0], ast.Raise) and isinstance(els[0].exc, ast.Call)
            and isinstance(els[0].exc.func, ast.Name) and els[0].exc.func.id == "ValueError"):
        raise TranslateError("weight dispatch: expected final `else: raise ValueError`", chain, path)
    if len({k for k, _ in rows}) != len(rows):
        raise TranslateError("weight dispatch: duplicate key", chain, path)
    return ("Inductive wsel := WAttr (name : string) | WOne.\nDefinition gen_weight_table : list (string * wsel) :=\n  ["
            + ";\n   ".join(f'("{k}", {s})' for k, s in rows) + "].\n")


def the_loop(f, iter_src, path):
    loops = [n for n in strip_doc(f.body) if isinstance(n, ast.For)]
    if len(loops) != 1 or ast.unparse(loops[0].iter) != iter_src:
        raise TranslateError(f"expected one loop over {iter_src}", f, path)
    return loops[0]


def dispatch(cls, path):
    f = find_func(cls, "eccentricity")
    body = strip_doc(f.body)
    want = ("if self.has_lattice_:\n    return self.eccentricity_from_lattice(harmonic_n=harmonic_n, harmonic_m=harmonic_m)\n"
            "else:\n    return self.eccentricity_from_particles(harmonic_n=harmonic_n, harmonic_m=harmonic_m, "
            "weight_quantity=weight_quantity)")
    if len(body) != 1 or ast.unparse(body[0]) != want:
        raise TranslateError("eccentricity(): the arguments are no longer passed through unchanged", f, path)
    d = f.args.defaults
    if [ast.unparse(x) for x in d] != ["None", "'energy'"]:
        raise TranslateError("eccentricity(): defaults changed", f, path)


def generate():
    tree, path = parse(SRC)
    cls = find_class(tree, "EventCharacteristics")
    fp = find_func(cls, "eccentricity_from_particles")
    fl = find_func(cls, "eccentricity_from_lattice")
    lp = the_loop(fp, "self.event_data_", path)
    ll = the_loop(fl, "np.ndindex(self.event_data_.grid_.shape)", path)
    coords = [st for st in ll.body if isinstance(st, ast.Assign) and ast.unparse(st) == "x, y, z = self.event_data_.get_coordinates(i, j, k)"]
    dens = [st for st in ll.body if isinstance(st, ast.Assign) and ast.unparse(st) == "lattice_density = self.event_data_.get_value_by_index(i, j, k)"]
    if len(coords) != 1 or len(dens) != 1:
        raise TranslateError("lattice loop: coordinates / density are not read as expected", ll, path)
    xy = [ast.unparse(st) for st in lp.body if isinstance(st, ast.Assign) and ast.unparse(st.targets[0]) in ("x", "y")]
    if xy != ["x = particle.x", "y = particle.y"]:
        raise TranslateError("particle loop: x / y are not read as expected", lp, path)
    dispatch(cls, path)
    out = [HEADER, "From Coq Require Import List ZArith Bool String.\nFrom SX Require Import Lib.KRing Lib.Py.\n"
           "Import ListNotations.\nLocal Open Scope string_scope.\n\n"
           "Definition is_none {A} (o : option A) : bool := match o with None => true | Some _ => false end.\n"]
    out.append(weight_table(lp, path))
    out.append(radial_chain(lp, "gen_rpow_particles", path))
    out.append(radial_chain(ll, "gen_rpow_lattice", path))
    np_, mp = arg_checks(fp, path)
    nl, ml = arg_checks(fl, path)
    out.append(f"Definition gen_n_min_particles : Z := {np_}%Z.\nDefinition gen_m_min_particles : Z := {mp}%Z.\n"
               f"Definition gen_n_min_lattice : Z := {nl}%Z.\nDefinition gen_m_min_lattice : Z := {ml}%Z.\n")
    out.append("Section Body.\n  Variable K : Type.\n  Variables (k0 k1 : K) (kadd kmul ksub kdiv : K -> K -> K) (kopp : K -> K).\n")
    out.append(loop_body(lp, "weight", "particles", path))
    out.append(loop_body(ll, "lattice_density", "lattice", path))
    out.append(ret_expr(fp, "particles", path))
    out.append(ret_expr(fl, "lattice", path))
    out.append("End Body.\n")
    return "".join(out)


def main(outdir):
    return write_if_changed(outdir + "/GenEcc.v", generate())

"""Gen/GenJets.v from src/sparkx/JetAnalysis.py: the method bodies of JetAnalysis as Gallina over Model/JetsRt.v.

Translated AS WRITTEN (statements in order, conditions with their operators and constants, argument order, defaults):
  __init__                              -> gen_new                               : jself
  __initialize_and_check_parameters     -> gen_initialize_and_check_parameters   : ... -> pyres (jself * unit)
  create_fastjet_PseudoJets             -> gen_create_fastjet_PseudoJets         : list particle -> list vec4
  fill_associated_particles             -> gen_fill_associated_particles         : ... -> pyres (list particle)
  jet_hole_subtraction                  -> gen_jet_hole_subtraction              : vec4 -> list particle -> vec4
  write_jet_output                      -> gen_write_jet_output                  : ... -> file * pyres bool
  perform_jet_finding                   -> gen_perform_jet_finding               : ... -> file * pyres (jself * unit)
  read_jet_data                         -> gen_read_jet_data                     : ... -> file * pyres (jself * unit)
  defaults of keyword parameters        -> gen_default_<method>_<parameter>
Proofs/C20_Source.v proves each of them equal to the hand model Model/Jets.v.

Conventions of the translation (the proofs and the hand model rely on them):
  * a Python local `x` is the Coq variable `v_x`, rebinding is shadowing; `self` and the one file `fs` are threaded;
    a loop carries the variables that its body assigns and that exist before it, in order of first definition
    (fold_left / loopE / loopF of Model/JetsRt.v: plain, with exceptions, with the file);
  * `a < b` on floats is `qlt a b`, `a <= b` is `Qle_bool a b`, `>`/`>=` are the same with swapped operands, on
    +-inf values ext_lt / ext_le, on ints Z.ltb / Z.leb / Z.eqb; a float is coerced to `Fin` where an extended
    value is expected; `x ** 2.0` is `Qpower x 2`;
  * reading an attribute `self.a_` that may be None, where no `is None` guard precedes, raises TypeError on None;
    `l[i]` on a list raises IndexError out of range; `if X is None: raise` / `if np.isnan(h.status): raise` narrow;
  * `warnings.warn(...)`, `print(...)` (and an `if` that only prints) have no effect on the modelled state;
  * `isinstance(t, tuple)` / `len(t)` of a parameter typed as a pair are `true` / `2`;
  * fastjet, csv and the file are the functions of Model/JetsRt.v; perp()/eta()/phi(), delta_phi_to, np.sqrt and the
    clustering are section variables (oracles).
Fail-closed: every statement / expression shape that is not listed in `Tr.stmt` / `Tr.ex` raises TranslateError.
"""
import ast
from fractions import Fraction
from .core import *

SRC = "src/sparkx/JetAnalysis.py"
OUTPUTS = ["GenJets"]

LEV = ("list", ("list", "particle"))
PAIR = ("pair", "optQ")
ROW = ["Z", "Q", "Q", "Q", "Z", "Z", "Q", "Z"]
SELF_ATTRS = {"hadron_data_": LEV, "jet_R_": "Q", "jet_eta_range_": ("pair", "ext"), "jet_pT_range_": ("pair", "ext"),
              "jet_data_": ("list", ("list", "row"))}
ATTR_ORDER = ["hadron_data_", "jet_R_", "jet_eta_range_", "jet_pT_range_", "jet_data_"]
EXN = {"ValueError", "TypeError", "IndexError", "FileNotFoundError"}
ALGS = {"antikt_algorithm": "(GModel AntiKt)", "kt_algorithm": "(GModel Kt)", "cambridge_algorithm": "(GModel Cambridge)",
        "genkt_algorithm": "GGenKt", "ee_genkt_algorithm": "GEEGenKt"}
KINDS = ["pure", "exn", "fs"]


class Meth:
    def __init__(self, py, params, ret, raises=False, fs=False, self_w=False):
        self.py, self.ptypes, self.ret, self.raises, self.fs, self.self_w = py, params, ret, raises or fs, fs, self_w
        self.coq = "gen_" + py.strip("_")
        self.kind = "fs" if fs else "exn" if self.raises else "pure"


METHODS = [
    Meth("__initialize_and_check_parameters", [LEV, "Q", PAIR, PAIR], "unit", raises=True, self_w=True),
    Meth("create_fastjet_PseudoJets", [("list", "particle")], ("list", "vec4")),
    Meth("fill_associated_particles", ["vec4", "Z", "str", "bool"], ("list", "particle"), raises=True),
    Meth("jet_hole_subtraction", ["vec4", ("list", "particle")], "vec4"),
    Meth("write_jet_output", ["fname", "vec4", ("list", "particle"), "Z", "bool"], "bool", fs=True),
    Meth("perform_jet_finding", [LEV, "Q", PAIR, PAIR, "fname", "bool", "alg"], "unit", fs=True, self_w=True),
    Meth("read_jet_data", ["fname"], "unit", fs=True, self_w=True),
]


class NeedKind(Exception):
    """the construct needs exceptions / the file, but is being translated as a plain value (retry one kind up)"""


def cty(t):
    if isinstance(t, tuple):
        if t[0] == "list":
            return "(list " + (cty(t[1]) if t[1] is not None else "_") + ")"
        if t[0] == "pair":
            return f"({cty(t[1])} * {cty(t[1])})"
        if t[0] == "opt":
            return f"(option {cty(t[1])})"
        raise TranslateError("type without a Coq counterpart: " + repr(t))
    return {"Q": "Q", "Z": "Z", "bool": "bool", "str": "string", "ext": "ext", "optQ": "(option Q)", "vec4": "vec4",
            "particle": "particle", "row": "row", "line": "line", "alg": "galg", "jetdef": "jetdef",
            "selector": "selector", "cseq": "cseq", "unit": "unit"}[t]


def qlit(fr):
    n, d = fr.numerator, fr.denominator
    return f"({n} # {d})" if n >= 0 else f"(({n}) # {d})"


def zlit(n):
    return f"{n}%Z" if n >= 0 else f"({n})%Z"


def slit(s):
    if any(ord(c) > 126 or ord(c) < 32 for c in s) or '"' in s:
        raise TranslateError("string literal not accepted: " + repr(s))
    return '"' + s + '"%string'


def vname(py):
    return "v_" + py


def tup(names):
    return "tt" if not names else names[0] if len(names) == 1 else "(" + ", ".join(names) + ")"


def pat(names):
    return "_" if not names else names[0] if len(names) == 1 else "'(" + ", ".join(names) + ")"


def assigned(stmts):
    """local names (re)bound by the statements, in order; 'self' for attribute stores"""
    out = []

    def add(n):
        if n not in out:
            out.append(n)

    def walk(s):
        if isinstance(s, (ast.Assign, ast.AnnAssign, ast.AugAssign)):
            tg = s.targets[0] if isinstance(s, ast.Assign) else s.target
            if isinstance(tg, ast.Name):
                add(tg.id)
            elif isinstance(tg, ast.Attribute) and isinstance(tg.value, ast.Name) and tg.value.id == "self":
                add("self")
        elif isinstance(s, ast.Expr) and isinstance(s.value, ast.Call) and isinstance(s.value.func, ast.Attribute) \
                and isinstance(s.value.func.value, ast.Name) and s.value.func.attr in ("append", "reset"):
            add(s.value.func.value.id)
        elif isinstance(s, (ast.If, ast.For, ast.With)):
            for b in s.body + getattr(s, "orelse", []):
                walk(b)
    for s in stmts:
        walk(s)
    return out


def is_none_test(node):
    """`X is None` -> (X, True); `X is not None` -> (X, False); else None"""
    if isinstance(node, ast.Compare) and len(node.ops) == 1 and isinstance(node.comparators[0], ast.Constant) \
            and node.comparators[0].value is None and isinstance(node.ops[0], (ast.Is, ast.IsNot)):
        return node.left, isinstance(node.ops[0], ast.Is)
    return None


def terminal(stmts):
    return bool(stmts) and isinstance(stmts[-1], (ast.Raise, ast.Continue, ast.Return))


def only_prints(stmts):
    return bool(stmts) and all(isinstance(s, ast.Expr) and isinstance(s.value, ast.Call)
                               and isinstance(s.value.func, ast.Name) and s.value.func.id == "print" for s in stmts)


class Tr:
    """translation of one method"""

    def __init__(self, meth, fdef, table, path):
        self.m, self.f, self.table, self.path = meth, fdef, table, path
        self.binds, self.n = [], 0
        self.kind = meth.kind
        self.self_rebound = False

    def err(self, msg, node=None):
        return TranslateError(f"{self.m.py}: {msg}", node, self.path)

    def fresh(self, hint="t"):
        self.n += 1
        return f"{hint}{self.n}"

    # ------------------------------------------------------------------ results / exceptions in the current kind
    def raise_(self, cls):
        if self.kind == "pure":
            raise NeedKind("exn")
        return f"(fs, PErr {cls})" if self.kind == "fs" else f"(PErr {cls})"

    def ok(self, val):
        return val if self.kind == "pure" else f"(POk {val})" if self.kind == "exn" else f"(fs, POk {val})"

    def wrap(self, binds, inner):
        """implicit binds of one statement around the text of the statement and everything after it"""
        for b in reversed(binds):
            if b[0] == "opt":
                _, var, term, cls = b
                inner = f"match {term} with\n| None => {self.raise_(cls)}\n| Some {var} =>\n{inner}\nend"
            elif b[0] == "res":
                _, p, term = b
                inner = f"match {term} with\n| PErr e_ => {self.raise_('e_')}\n| POk {p} =>\n{inner}\nend"
            else:
                _, p, term = b
                if self.kind != "fs":
                    raise NeedKind("fs")
                inner = f"match {term} with\n| (fs, PErr e_) => (fs, PErr e_)\n| (fs, POk {p}) =>\n{inner}\nend"
        return inner

    # ------------------------------------------------------------------ environments
    @staticmethod
    def bind(env, name, coq, ty):
        e = {k: v for k, v in env.items() if not (k.startswith("@") and v[2] == name)}
        e[name] = (coq, ty)
        return e

    @staticmethod
    def narrow(env, node, coq, ty):
        e = dict(env)
        root = node
        while not isinstance(root, ast.Name):
            root = root.value
        if isinstance(node, ast.Attribute) and isinstance(node.value, ast.Name) and node.value.id == "self":
            rootname = "self"
        else:
            rootname = root.id
        e["@" + ast.unparse(node)] = (coq, ty, rootname)
        return e

    # ------------------------------------------------------------------ coercions
    def coerce(self, text, ty, want, node=None):
        if want is None or ty == want:
            return text
        if ty == "Q" and want == "ext":
            return f"(Fin {text})"
        if ty == "status?" and want == "Z":
            return text
        if isinstance(ty, tuple) and isinstance(want, tuple) and ty[0] == want[0] == "list" and (ty[1] is None or want[1] is None):
            return text
        if isinstance(ty, tuple) and isinstance(want, tuple) and ty[0] == want[0] == "list":
            self.coerce("x", ty[1], want[1], node)          # element types must agree without a conversion
            if ty[1] != want[1] and not (isinstance(ty[1], tuple) and ty[1][1] is None):
                raise self.err(f"list of {ty[1]} where list of {want[1]} is expected", node)
            return text
        raise self.err(f"value of type {ty} where {want} is expected: {ast.unparse(node) if node else text}", node)

    def truth(self, node, env):
        t, ty = self.ex(node, env)
        if ty == "bool":
            return t
        if isinstance(ty, tuple) and ty[0] == "list":
            return f"(nonempty {t})"
        raise self.err(f"truth value of a {ty} not accepted", node)

    def unify(self, a, ta, b, tb, node):
        if ta == tb:
            return a, b, ta
        if {ta, tb} == {"Q", "ext"}:
            return self.coerce(a, ta, "ext"), self.coerce(b, tb, "ext"), "ext"
        if isinstance(ta, tuple) and isinstance(tb, tuple) and ta[0] == tb[0] == "list" and (ta[1] is None or tb[1] is None):
            return a, b, ta if tb[1] is None else tb
        raise self.err(f"branches of different types {ta} / {tb}", node)

    # ------------------------------------------------------------------ expressions
    def num(self, node, want):
        v = node.value
        fr = Fraction(v)
        if want in ("Q", "ext") or (isinstance(v, float) and want != "Z"):
            return qlit(fr), "Q"
        if fr.denominator != 1:
            raise self.err("non-integral literal where an int is expected", node)
        return zlit(fr.numerator), "Z"

    def option_source(self, node, env):
        """an expression whose value may be None: (coq term of option type, inner type) or None"""
        if "@" + ast.unparse(node) in env:
            return None
        if isinstance(node, ast.Attribute) and isinstance(node.value, ast.Name) and node.value.id == "self" \
                and node.attr in SELF_ATTRS:
            if "self" not in env:
                raise self.err("self is not available here", node)
            return f"({node.attr} self)", SELF_ATTRS[node.attr]
        t, ty = self.ex(node, env)
        if ty == "optQ":
            return t, "Q"
        return None

    def ex(self, n, env, want=None):
        key = "@" + ast.unparse(n)
        if key in env:
            return env[key][0], env[key][1]
        if isinstance(n, ast.Constant):
            v = n.value
            if isinstance(v, bool):
                return ("true" if v else "false"), "bool"
            if isinstance(v, str):
                return slit(v), "str"
            if isinstance(v, (int, float)) and v == v and abs(v) != float("inf"):
                return self.num(n, want)
            raise self.err("literal not accepted: " + repr(v), n)
        if isinstance(n, ast.Name):
            if n.id not in env:
                raise self.err(f"name `{n.id}` is not bound here", n)
            return env[n.id][0], env[n.id][1]
        if isinstance(n, ast.UnaryOp):
            if isinstance(n.op, ast.Not):
                return f"(negb {self.truth(n.operand, env)})", "bool"
            if isinstance(n.op, ast.USub):
                if isinstance(n.operand, ast.Constant) and isinstance(n.operand.value, (int, float)) \
                        and not isinstance(n.operand.value, bool):
                    return self.num(ast.Constant(value=-n.operand.value), want)
                t, ty = self.ex(n.operand, env, want)
                if ty == "Q":
                    return f"(Qopp {t})", "Q"
                if ty == "Z":
                    return f"(Z.opp {t})", "Z"
            raise self.err("unary operator not accepted", n)
        if isinstance(n, ast.BinOp):
            return self.binop(n, env, want)
        if isinstance(n, ast.BoolOp):
            return self.boolop(n.values, isinstance(n.op, ast.And), env), "bool"
        if isinstance(n, ast.Compare):
            return self.compare(n, env), "bool"
        if isinstance(n, ast.IfExp):
            return self.ifexp(n, env, want)
        if isinstance(n, ast.Tuple):
            if len(n.elts) != 2:
                raise self.err("only pairs are accepted as tuples", n)
            w = want[1] if isinstance(want, tuple) and want[0] == "pair" else None
            a, ta = self.ex(n.elts[0], env, w)
            b, tb = self.ex(n.elts[1], env, w)
            if w is not None:
                a, b, t = self.coerce(a, ta, w, n), self.coerce(b, tb, w, n), w
            else:
                a, b, t = self.unify(a, ta, b, tb, n)
            return f"({a}, {b})", ("pair", t)
        if isinstance(n, ast.List):
            return self.listlit(n, env, want)
        if isinstance(n, ast.ListComp):
            if len(n.generators) != 1 or n.generators[0].ifs or n.generators[0].is_async \
                    or not isinstance(n.generators[0].target, ast.Name):
                raise self.err("comprehension shape not accepted", n)
            g = n.generators[0]
            it, ity = self.ex(g.iter, env)
            if not (isinstance(ity, tuple) and ity[0] == "list" and ity[1] is not None):
                raise self.err("comprehension over a non-list", n)
            x = vname(g.target.id)
            saved, self.binds = self.binds, []
            e, ety = self.ex(n.elt, self.bind(env, g.target.id, x, ity[1]))
            if self.binds:
                raise self.err("comprehension element may raise: not accepted", n)
            self.binds = saved
            return f"(map (fun {x} => {e}) {it})", ("list", ety)
        if isinstance(n, ast.Subscript):
            return self.subscript(n, env)
        if isinstance(n, ast.Attribute):
            return self.attribute(n, env)
        if isinstance(n, ast.Call):
            return self.call(n, env, want)
        raise self.err("expression not accepted: " + ast.unparse(n)[:80], n)

    def binop(self, n, env, want):
        if isinstance(n.op, ast.Pow):
            b, tb = self.ex(n.left, env, "Q")
            if tb != "Q":
                raise self.err("power of a non-float", n)
            return f"(Qpower {b} {int_const(n.right, self.path)})", "Q"
        a, ta = self.ex(n.left, env, want)
        b, tb = self.ex(n.right, env, want if want else ta if ta in ("Q", "Z") else None)
        if ta != tb and isinstance(n.left, ast.Constant):
            a, ta = self.ex(n.left, env, tb)
        if ta != tb or ta not in ("Q", "Z"):
            raise self.err(f"arithmetic on {ta} and {tb}", n)
        ops = {ast.Add: ("Qplus", "Z.add"), ast.Sub: ("Qminus", "Z.sub"), ast.Mult: ("Qmult", "Z.mul"), ast.Div: ("Qdiv", None)}
        for k, (qo, zo) in ops.items():
            if isinstance(n.op, k):
                o = qo if ta == "Q" else zo
                if o is None:
                    break
                return f"({o} {a} {b})", ta
        raise self.err("operator not accepted: " + type(n.op).__name__, n)

    def boolop(self, values, is_and, env):
        first, rest = values[0], values[1:]
        if not rest:
            return self.truth(first, env)
        nt = is_none_test(first)
        if nt is not None and nt[1] != is_and:            # `X is not None and ...` / `X is None or ...`
            src = self.option_source(nt[0], env)
            if src is not None:
                v = self.fresh("x")
                r = self.boolop(rest, is_and, self.narrow(env, nt[0], v, src[1]))
                return f"(match {src[0]} with None => {'false' if is_and else 'true'} | Some {v} => {r} end)"
        a = self.truth(first, env)
        return f"({a} {'&&' if is_and else '||'} {self.boolop(rest, is_and, env)})"

    def cmp1(self, op, a, ta, b, tb, node):
        if isinstance(op, (ast.Gt, ast.GtE)):
            a, ta, b, tb = b, tb, a, ta
            op = ast.Lt() if isinstance(op, ast.Gt) else ast.LtE()
        if "status?" in (ta, tb):
            raise self.err("comparison with a status that may be unset (no isnan guard before)", node)
        if "ext" in (ta, tb):
            a, b = self.coerce(a, ta, "ext", node), self.coerce(b, tb, "ext", node)
            ta = tb = "ext"
        if ta != tb:
            raise self.err(f"comparison of {ta} with {tb}", node)
        table = {("Q", ast.Lt): "(qlt {a} {b})", ("Q", ast.LtE): "(Qle_bool {a} {b})", ("Q", ast.Eq): "(Qeq_bool {a} {b})",
                 ("Q", ast.NotEq): "(negb (Qeq_bool {a} {b}))",
                 ("ext", ast.Lt): "(ext_lt {a} {b})", ("ext", ast.LtE): "(ext_le {a} {b})",
                 ("Z", ast.Lt): "({a} <? {b})%Z", ("Z", ast.LtE): "({a} <=? {b})%Z", ("Z", ast.Eq): "({a} =? {b})%Z",
                 ("Z", ast.NotEq): "(negb ({a} =? {b})%Z)",
                 ("str", ast.Eq): "(String.eqb {a} {b})", ("str", ast.NotEq): "(negb (String.eqb {a} {b}))",
                 ("alg", ast.Eq): "(galg_eqb {a} {b})", ("alg", ast.NotEq): "(negb (galg_eqb {a} {b}))"}
        f = table.get((ta, type(op)))
        if f is None:
            raise self.err(f"comparison {type(op).__name__} on {ta} not accepted", node)
        return f.format(a=a, b=b)

    def compare(self, n, env):
        nt = is_none_test(n)
        if nt is not None:
            src = self.option_source(nt[0], env)
            if src is None:
                raise self.err("`is None` on a value that cannot be None", n)
            return f"(match {src[0]} with None => {'true' if nt[1] else 'false'} | Some _ => {'false' if nt[1] else 'true'} end)"
        # particle.charge == 0  (an unset charge is NaN: never equal)
        if len(n.ops) == 1 and isinstance(n.left, ast.Attribute) and n.left.attr == "charge":
            h, th = self.ex(n.left.value, env)
            if th == "particle" and isinstance(n.ops[0], (ast.Eq, ast.NotEq)):
                c, _ = self.ex(n.comparators[0], env, "Z")
                t = f"(match pcharge {h} with Some c_ => (c_ =? {c})%Z | None => false end)"
                return t if isinstance(n.ops[0], ast.Eq) else f"(negb {t})"
        operands = [n.left] + n.comparators
        tr = [None] * len(operands)
        # literals take the type of their neighbour
        for i, o in enumerate(operands):
            if not (isinstance(o, ast.Constant) and isinstance(o.value, (int, float)) and not isinstance(o.value, bool)):
                tr[i] = self.ex(o, env)
        for i, o in enumerate(operands):
            if tr[i] is None:
                near = [tr[j] for j in (i - 1, i + 1) if 0 <= j < len(operands) and tr[j] is not None]
                w = near[0][1] if near else None
                tr[i] = self.ex(o, env, "Q" if w in ("Q", "ext") else "Z" if w in ("Z", "status?") else None)
        parts = [self.cmp1(op, tr[i][0], tr[i][1], tr[i + 1][0], tr[i + 1][1], n) for i, op in enumerate(n.ops)]
        out = parts[0]
        for p in parts[1:]:
            out = f"({out} && {p})"
        return out

    def ifexp(self, n, env, want):
        nt = is_none_test(n.test)
        if nt is not None:
            src = self.option_source(nt[0], env)
            if src is None:
                raise self.err("`is None` on a value that cannot be None", n)
            v = self.fresh("x")
            en = self.narrow(env, nt[0], v, src[1])
            none_node, some_node = (n.body, n.orelse) if nt[1] else (n.orelse, n.body)
            a, ta = self.ex(none_node, env, want)
            b, tb = self.ex(some_node, en, want)
            a, b, t = self.unify(a, ta, b, tb, n)
            return f"(match {src[0]} with None => {a} | Some {v} => {b} end)", t
        c = self.truth(n.test, env)
        a, ta = self.ex(n.body, env, want)
        b, tb = self.ex(n.orelse, env, want)
        a, b, t = self.unify(a, ta, b, tb, n)
        return f"(if {c} then {a} else {b})", t

    def listlit(self, n, env, want):
        if not n.elts:
            return "[]", (want if isinstance(want, tuple) and want[0] == "list" else ("list", None))
        if len(n.elts) == len(ROW) and not any(isinstance(e, ast.List) for e in n.elts):
            cols = []
            for e, w in zip(n.elts, ROW):
                t, ty = self.ex(e, env, w)
                cols.append(self.coerce(t, ty, w, e))
            return "(Row " + " ".join(cols) + ")", "row"
        ts = [self.ex(e, env) for e in n.elts]
        if len({repr(t[1]) for t in ts}) != 1:
            raise self.err("list literal with elements of different types", n)
        return "[" + "; ".join(t[0] for t in ts) + "]", ("list", ts[0][1])

    def subscript(self, n, env):
        v, tv = self.ex(n.value, env)
        if isinstance(tv, tuple) and tv[0] == "pair":
            i = int_const(n.slice, self.path)
            if i not in (0, 1):
                raise self.err("index into a pair must be 0 or 1", n)
            return f"({'fst' if i == 0 else 'snd'} {v})", tv[1]
        if isinstance(tv, tuple) and tv[0] == "list" and tv[1] is not None:
            i, ti = self.ex(n.slice, env, "Z")
            if ti != "Z":
                raise self.err("list index must be an int", n)
            x = self.fresh("x")
            self.binds.append(("opt", x, f"(py_index {v} {i})", "IndexError"))
            return x, tv[1]
        raise self.err(f"subscript of a {tv} not accepted", n)

    def attribute(self, n, env):
        if isinstance(n.value, ast.Name) and n.value.id == "self":
            if n.attr not in SELF_ATTRS:
                raise self.err("unknown attribute self." + n.attr, n)
            if "self" not in env:
                raise self.err("self is not available here", n)
            x = self.fresh("a")
            self.binds.append(("opt", x, f"({n.attr} self)", "TypeError"))
            return x, SELF_ATTRS[n.attr]
        if isinstance(n.value, ast.Name) and n.value.id == "fj" and n.value.id not in env:
            if n.attr in ALGS:
                return ALGS[n.attr], "alg"
            raise self.err("fastjet name not accepted: fj." + n.attr, n)
        v, tv = self.ex(n.value, env)
        if tv == "particle":
            mom = {"px": "vx", "py": "vy", "pz": "vz", "E": "ve"}
            if n.attr in mom:
                return f"({mom[n.attr]} (pmom {v}))", "Q"
            if n.attr == "pdg":
                return f"(ppdg {v})", "Z"
            if n.attr == "status":
                return f"(status_of {v})", "status?"
        raise self.err(f"attribute .{n.attr} of a {tv} not accepted", n)

    def args(self, n, env, types, what):
        if n.keywords or len(n.args) != len(types):
            raise self.err(f"{what}: expected {len(types)} positional arguments", n)
        out = []
        for a, w in zip(n.args, types):
            t, ty = self.ex(a, env, w)
            out.append(self.coerce(t, ty, w, a))
        return out

    def call(self, n, env, want):
        f = n.func
        if isinstance(f, ast.Name) and f.id not in env:
            if f.id == "float" and len(n.args) == 1 and not n.keywords and isinstance(n.args[0], ast.Constant) \
                    and n.args[0].value in ("inf", "-inf", "+inf"):
                return ("NInf" if n.args[0].value == "-inf" else "PInf"), "ext"
            if f.id in ("int", "float") and len(n.args) == 1 and not n.keywords and isinstance(n.args[0], ast.Subscript):
                r, tr = self.ex(n.args[0].value, env)
                if tr != "line":
                    raise self.err(f"{f.id}() of a cell of a {tr}", n)
                k, tk = self.ex(n.args[0].slice, env, "Z")
                if tk != "Z":
                    raise self.err("column index must be an int", n)
                x = self.fresh("c")
                self.binds.append(("res", x, f"(cell_{f.id} {r} {k})"))
                return x, ("Z" if f.id == "int" else "Q")
            if f.id == "len" and len(n.args) == 1 and not n.keywords:
                v, tv = self.ex(n.args[0], env)
                if isinstance(tv, tuple) and tv[0] == "pair":
                    return "2%Z", "Z"
                if isinstance(tv, tuple) and tv[0] == "list":
                    return f"(zlen {v})", "Z"
                raise self.err(f"len of a {tv}", n)
            if f.id == "isinstance" and len(n.args) == 2 and not n.keywords and isinstance(n.args[1], ast.Name):
                v, tv = self.ex(n.args[0], env)
                if n.args[1].id == "tuple" and isinstance(tv, tuple) and tv[0] == "pair":
                    return "true", "bool"
                raise self.err("isinstance test not accepted", n)
            if f.id == "any" and len(n.args) == 1 and not n.keywords and isinstance(n.args[0], ast.GeneratorExp):
                g = n.args[0]
                if len(g.generators) != 1 or g.generators[0].ifs or not isinstance(g.generators[0].target, ast.Name):
                    raise self.err("generator shape not accepted", n)
                it, ity = self.ex(g.generators[0].iter, env)
                x = vname(g.generators[0].target.id)
                if isinstance(ity, tuple) and ity[0] == "pair":
                    lst, ety = f"[fst {it}; snd {it}]", ity[1]
                elif isinstance(ity, tuple) and ity[0] == "list" and ity[1] is not None:
                    lst, ety = it, ity[1]
                else:
                    raise self.err("any() over a " + repr(ity), n)
                saved, self.binds = self.binds, []
                body = self.truth(g.elt, self.bind(env, g.generators[0].target.id, x, ety))
                if self.binds:
                    raise self.err("any(): element test may raise: not accepted", n)
                self.binds = saved
                return f"(existsb (fun {x} => {body}) {lst})", "bool"
            raise self.err("call not accepted: " + ast.unparse(n)[:80], n)
        if isinstance(f, ast.Name):                       # a local used as a function: a fastjet selector
            v, tv = env[f.id][0], env[f.id][1]
            if tv == "selector":
                a = self.args(n, env, [("list", "vec4")], "selector call")
                return f"(fj_select o_eta {v} {a[0]})", ("list", "vec4")
            raise self.err(f"call of a {tv}", n)
        if not isinstance(f, ast.Attribute):
            raise self.err("call not accepted: " + ast.unparse(n)[:80], n)
        if isinstance(f.value, ast.Name) and f.value.id == "self":
            return self.method_call(n, env)
        if isinstance(f.value, ast.Name) and f.value.id not in env:
            mod = f.value.id
            if mod == "fj":
                if f.attr == "PseudoJet":
                    a = self.args(n, env, ["Q"] * 4, "PseudoJet")
                    return "(V4 " + " ".join(a) + ")", "vec4"
                if f.attr == "JetDefinition":
                    if len(n.args) == 3:
                        a = self.args(n, env, ["alg", "Q", "Q"], "JetDefinition")
                        return f"(JetDefinition {a[0]} {a[1]} (Some {a[2]}))", "jetdef"
                    a = self.args(n, env, ["alg", "Q"], "JetDefinition")
                    return f"(JetDefinition {a[0]} {a[1]} None)", "jetdef"
                if f.attr == "SelectorEtaRange":
                    a = self.args(n, env, ["ext", "ext"], "SelectorEtaRange")
                    return f"(SelectorEtaRange {a[0]} {a[1]})", "selector"
                if f.attr == "ClusterSequence":
                    a = self.args(n, env, [("list", "vec4"), "jetdef"], "ClusterSequence")
                    return f"(ClusterSequence {a[0]} {a[1]})", "cseq"
                if f.attr == "sorted_by_pt":
                    a = self.args(n, env, [("list", "vec4")], "sorted_by_pt")
                    return f"(fj_sorted_by_pt {a[0]})", ("list", "vec4")
            if mod == "np":
                if f.attr == "sqrt":
                    a = self.args(n, env, ["Q"], "np.sqrt")
                    return f"(o_sqrt {a[0]})", "Q"
                if f.attr == "isnan" and len(n.args) == 1 and isinstance(n.args[0], ast.Attribute) and n.args[0].attr == "status":
                    h, th = self.ex(n.args[0].value, env)
                    if th == "particle":
                        return f"(match pstatus {h} with None => true | Some _ => false end)", "bool"
            if mod == "csv" and len(n.args) == 1 and not n.keywords:
                h, th = self.ex(n.args[0], env)
                if isinstance(th, tuple) and th[0] == "fh":
                    if f.attr == "writer":
                        return "tt", ("writer", th[1])
                    if f.attr == "reader":
                        x = self.fresh("lines")
                        self.binds.append(("res", x, f"(fs_reader fs {th[1]})"))
                        if self.kind != "fs":
                            raise NeedKind("fs")
                        return x, ("list", "line")
            raise self.err("call not accepted: " + ast.unparse(n)[:80], n)
        v, tv = self.ex(f.value, env)
        if tv == "vec4":
            acc = {"perp": "o_perp", "eta": "o_eta", "phi": "o_phi", "e": "ve", "E": "ve", "px": "vx", "py": "vy", "pz": "vz"}
            if f.attr in acc and not n.args and not n.keywords:
                return f"({acc[f.attr]} {v})", "Q"
            if f.attr == "delta_phi_to":
                a = self.args(n, env, ["vec4"], "delta_phi_to")
                return f"(o_dphi {v} {a[0]})", "Q"
        if tv == "cseq" and f.attr == "inclusive_jets":
            a = self.args(n, env, ["ext"], "inclusive_jets")
            return f"(fj_inclusive_jets o_cluster {v} {a[0]})", ("list", "vec4")
        raise self.err("call not accepted: " + ast.unparse(n)[:80], n)

    def method_call(self, n, env):
        name = n.func.attr
        if name not in self.table:
            raise self.err("call of an unknown method self." + name, n)
        callee, cdef = self.table[name]
        pnames = [a.arg for a in cdef.args.args[1:]]
        given = dict(zip(pnames, n.args))
        if len(n.args) > len(pnames):
            raise self.err("too many arguments for self." + name, n)
        for kw in n.keywords:
            if kw.arg is None or kw.arg not in pnames or kw.arg in given:
                raise self.err("keyword argument not accepted for self." + name, n)
            given[kw.arg] = kw.value
        ndef = len(cdef.args.defaults)
        out = []
        for i, (p, ty) in enumerate(zip(pnames, callee.ptypes)):
            if p in given:
                t, tt_ = self.ex(given[p], env, ty if ty != "fname" else None)
                if ty == "fname":
                    if tt_ != "fname":
                        raise self.err("file name argument expected", n)
                    continue
                out.append(self.coerce(t, tt_, ty, given[p]))
            elif i >= len(pnames) - ndef:
                out.append(f"gen_default_{callee.coq[4:]}_{p}")
            else:
                raise self.err(f"argument {p} of self.{name} missing", n)
        if "self" not in env:
            raise self.err("self is not available here", n)
        head = [callee.coq] + (["self"] if callee.uses_self else []) + (["fs"] if callee.fs else [])
        text = "(" + " ".join(head + out) + ")"
        if callee.kind == "pure":
            return text, callee.ret
        x = self.fresh("r")
        p = f"(self, {x})" if callee.self_w else x
        if callee.self_w:
            if not self.m.self_w:
                raise self.err("call of a method that stores attributes from one that is declared not to", n)
            self.self_rebound = True
        self.binds.append(("fsres" if callee.fs else "res", p, text))
        if callee.fs and self.kind != "fs":
            raise NeedKind("fs")
        return x, callee.ret

    # ------------------------------------------------------------------ statements
    def simple(self, compute):
        """compute() translates the expressions of one statement and returns (env_after, maker(rest_text)->text);
        the implicit binds of these expressions are wrapped around the result"""
        saved, self.binds = self.binds, []
        self.self_rebound = False
        try:
            res = compute()
            binds = self.binds
        finally:
            self.binds = saved
        return res, binds

    def blk(self, stmts, env, k, loop):
        if not stmts:
            return k(env)
        s, rest = stmts[0], stmts[1:]

        def R(e):
            return self.blk(rest, e, k, loop)

        def drop_self(e):
            return {kk: v for kk, v in e.items() if not (kk.startswith("@") and v[2] == "self")} if self.self_rebound else e

        if isinstance(s, ast.Pass):
            return R(env)
        if isinstance(s, ast.Expr) and isinstance(s.value, ast.Constant) and isinstance(s.value.value, str):
            return R(env)
        if isinstance(s, ast.Expr) and isinstance(s.value, ast.Call):
            c = s.value
            fsrc = ast.unparse(c.func)
            if fsrc in ("warnings.warn", "print"):
                return R(env)
            if isinstance(c.func, ast.Attribute) and isinstance(c.func.value, ast.Name) and c.func.value.id in env:
                x = c.func.value.id
                vx, tx = env[x]
                if c.func.attr == "append" and isinstance(tx, tuple) and tx[0] == "list" and len(c.args) == 1 and not c.keywords:
                    (e, te), binds = self.simple(lambda: self.ex(c.args[0], env, tx[1]))
                    if tx[1] is not None:
                        e = self.coerce(e, te, tx[1], c)
                    return self.wrap(binds, f"let {vx} := ({vx} ++ [{e}])%list in\n" + R(self.bind(env, x, vx, ("list", te if tx[1] is None else tx[1]))))
                if c.func.attr == "reset" and tx == "vec4":
                    a, binds = self.simple(lambda: self.args(c, env, ["Q"] * 4, "reset"))
                    return self.wrap(binds, f"let {vx} := (V4 {' '.join(a)}) in\n" + R(self.bind(env, x, vx, "vec4")))
                if c.func.attr == "writerows" and isinstance(tx, tuple) and tx[0] == "writer":
                    if self.kind != "fs":
                        raise NeedKind("fs")
                    a, binds = self.simple(lambda: self.args(c, env, [("list", "row")], "writerows"))
                    return self.wrap(binds + [("res", "fs", f"(fs_writerows fs {tx[1]} {a[0]})")], R(env))
            if fsrc.startswith("self."):
                (_, _), binds = self.simple(lambda: self.ex(c, env))
                e2 = drop_self(env)
                return self.wrap(binds, R(e2))
            raise self.err("statement not accepted: " + ast.unparse(s)[:80], s)
        if isinstance(s, (ast.Assign, ast.AnnAssign)):
            if isinstance(s, ast.Assign):
                if len(s.targets) != 1:
                    raise self.err("multiple assignment targets", s)
                tg = s.targets[0]
            else:
                tg = s.target
                if s.value is None:
                    raise self.err("annotation without value", s)
            if isinstance(tg, ast.Name):
                (e, te), binds = self.simple(lambda: self.ex(s.value, env))
                if te in ("status?", "fname") or (isinstance(te, tuple) and te[0] == "fh"):
                    raise self.err("value cannot be stored in a local", s)
                v = vname(tg.id)
                e2 = self.bind(drop_self(env), tg.id, v, te)
                return self.wrap(binds, f"let {v} := {e} in\n" + R(e2))
            if isinstance(tg, ast.Attribute) and isinstance(tg.value, ast.Name) and tg.value.id == "self" and tg.attr in SELF_ATTRS:
                if not self.m.self_w:
                    raise self.err("attribute store in a method declared not to store", s)
                w = SELF_ATTRS[tg.attr]

                def comp():
                    e, te = self.ex(s.value, env, w)
                    return self.coerce(e, te, w, s.value)
                e, binds = self.simple(comp)
                e2 = {kk: v for kk, v in env.items() if kk != "@self." + tg.attr}
                return self.wrap(binds, f"let self := set_{tg.attr} self (Some {e}) in\n" + R(e2))
            raise self.err("assignment target not accepted", s)
        if isinstance(s, ast.AugAssign):
            if not (isinstance(s.target, ast.Name) and s.target.id in env and isinstance(s.op, (ast.Add, ast.Sub))):
                raise self.err("augmented assignment not accepted", s)
            node = ast.BinOp(left=ast.Name(id=s.target.id, ctx=ast.Load()), op=s.op, right=s.value)
            (e, te), binds = self.simple(lambda: self.ex(node, env))
            v = vname(s.target.id)
            return self.wrap(binds, f"let {v} := {e} in\n" + R(self.bind(env, s.target.id, v, te)))
        if isinstance(s, ast.Raise):
            if not (isinstance(s.exc, ast.Call) and isinstance(s.exc.func, ast.Name) and s.exc.func.id in EXN and s.cause is None):
                raise self.err("raise of an unexpected exception", s)
            return self.raise_(s.exc.func.id)
        if isinstance(s, ast.Return):
            if loop is not None:
                raise self.err("return inside a loop not accepted", s)
            if s.value is None:
                return self.ret("tt", "unit", s)
            (e, te), binds = self.simple(lambda: self.ex(s.value, env, self.m.ret))
            return self.wrap(binds, self.ret(e, te, s))
        if isinstance(s, ast.Continue):
            if loop is None:
                raise NeedKind("exn") if self.kind == "pure" else self.err("continue outside a loop", s)
            return loop(env)
        if isinstance(s, ast.If):
            return self.if_(s, rest, env, k, loop)
        if isinstance(s, ast.For):
            return self.for_(s, rest, env, k, loop)
        if isinstance(s, ast.With):
            return self.with_(s, rest, env, k, loop)
        raise self.err("statement not accepted: " + type(s).__name__, s)

    def ret(self, e, te, node):
        if self.kind != self.m.kind:
            raise self.err("return inside a nested construct not accepted", node)
        e = self.coerce(e, te, self.m.ret, node)
        return self.ok(f"(self, {e})" if self.m.self_w else e)

    def if_(self, s, rest, env, k, loop):
        body, orelse = s.body, s.orelse
        # guards that narrow
        nt = is_none_test(s.test)
        guard = None
        if nt is not None and nt[1] and terminal(body):
            src = self.option_source(nt[0], env)
            if src is not None:
                guard = (src[0], nt[0], src[1])
        t = s.test
        if guard is None and terminal(body) and isinstance(t, ast.Call) and ast.unparse(t.func) == "np.isnan" \
                and len(t.args) == 1 and isinstance(t.args[0], ast.Attribute) and t.args[0].attr == "status":
            h, th = self.ex(t.args[0].value, env)
            if th == "particle":
                guard = (f"(pstatus {h})", t.args[0], "Z")
        if guard is not None:
            v = self.fresh("x")
            a = self.blk(body, env, k, loop)
            b = self.blk(orelse + rest, self.narrow(env, guard[1], v, guard[2]), k, loop)
            return f"match {guard[0]} with\n| None => {a}\n| Some {v} =>\n{b}\nend"
        c, binds = self.simple(lambda: self.truth(s.test, env))
        if only_prints(body) and not orelse:
            return self.blk(rest, env, k, loop)
        if terminal(body):
            a = self.blk(body, env, k, loop)
            b = self.blk(orelse + rest, env, k, loop)
            return self.wrap(binds, f"if {c}\nthen {a}\nelse\n{b}")
        if terminal(orelse):
            a = self.blk(body + rest, env, k, loop)
            b = self.blk(orelse, env, k, loop)
            return self.wrap(binds, f"if {c}\nthen\n{a}\nelse {b}")
        # both branches fall through: join on the variables they assign (plain value), else duplicate the rest
        av, bv = assigned(body), assigned(orelse)
        names = [x for x in av + [y for y in bv if y not in av] if x in env or x == "self" or (x in av and x in bv)]
        saved_kind, saved_n = self.kind, self.n
        try:
            self.kind = "pure"
            seen = []

            def kj(e):
                seen.append(e)
                return tup([("self" if x == "self" else e[x][0]) for x in names])
            a = self.blk(body, env, kj, None)
            b = self.blk(orelse, env, kj, None)
            self.kind = saved_kind
            e2 = dict(env)
            if "self" in names:
                e2 = {kk: v for kk, v in e2.items() if not (kk.startswith("@") and v[2] == "self")}
            for x in names:
                if x == "self":
                    continue
                tys = [e[x][1] for e in seen]
                ty = tys[0]
                for o in tys[1:]:
                    _, _, ty = self.unify("a", ty, "b", o, s)
                e2 = self.bind(e2, x, vname(x), ty)
            cnames = [("self" if x == "self" else vname(x)) for x in names]
            p = pat(cnames)
            return self.wrap(binds, f"let {p} := (if {c}\nthen {a}\nelse {b}) in\n" + self.blk(rest, e2, k, loop))
        except NeedKind:
            self.kind, self.n = saved_kind, saved_n
            a = self.blk(body + rest, env, k, loop)
            b = self.blk(orelse + rest, env, k, loop)
            return self.wrap(binds, f"if {c}\nthen\n{a}\nelse\n{b}")
        finally:
            self.kind = saved_kind

    def for_(self, s, rest, env, k, loop):
        if s.orelse:
            raise self.err("for-else not accepted", s)
        it = s.iter
        start = None
        if isinstance(it, ast.Call) and isinstance(it.func, ast.Name) and it.func.id == "enumerate" and "enumerate" not in env:
            if not (isinstance(s.target, ast.Tuple) and len(s.target.elts) == 2 and all(isinstance(e, ast.Name) for e in s.target.elts)):
                raise self.err("enumerate needs a target `i, x`", s)
            if len(it.args) == 2 and not it.keywords:
                start = it.args[1]
            elif len(it.args) == 1 and len(it.keywords) == 1 and it.keywords[0].arg == "start":
                start = it.keywords[0].value
            elif len(it.args) == 1 and not it.keywords:
                start = ast.Constant(value=0)
            else:
                raise self.err("enumerate arguments not accepted", s)
            seq_node = it.args[0]
        else:
            if not isinstance(s.target, ast.Name):
                raise self.err("loop target not accepted", s)
            seq_node = it

        def comp():
            l, tl = self.ex(seq_node, env)
            st = self.ex(start, env, "Z") if start is not None else None
            return l, tl, st
        (l, tl, st), binds = self.simple(comp)
        if not (isinstance(tl, tuple) and tl[0] == "list" and tl[1] is not None):
            raise self.err(f"loop over a {tl}", s)
        if start is not None:
            if st[1] != "Z":
                raise self.err("enumerate start must be an int", s)
            i, x = s.target.elts[0].id, s.target.elts[1].id
            seq = f"(enumerate_from {st[0]} {l})"
            xp = f"'({vname(i)}, {vname(x)})"
            ebody = self.bind(self.bind(env, i, vname(i), "Z"), x, vname(x), tl[1])
            targets = [i, x]
        else:
            x = s.target.id
            seq, xp = l, vname(x)
            ebody = self.bind(env, x, vname(x), tl[1])
            targets = [x]
        asg = assigned(s.body)
        if "self" in asg:
            raise self.err("attribute store inside a loop not accepted", s)
        carried = [n for n in env if not n.startswith("@") and n in asg and n not in targets]
        cn = [vname(n) for n in carried]
        st0 = tup([env[n][0] for n in carried])
        last = None
        for kind in KINDS[:KINDS.index(self.kind) + 1]:
            saved_kind, saved_n = self.kind, self.n
            self.kind = kind
            envs = []
            try:
                def kb(e):
                    envs.append(e)
                    return self.ok(tup([e[n][0] for n in carried]))
                btext = self.blk(s.body, ebody, kb, kb)
                self.kind = saved_kind
            except NeedKind:
                self.kind, self.n = saved_kind, saved_n
                continue
            finally:
                self.kind = saved_kind
            # types of the carried variables after the body (an empty list gets its element type here)
            e2 = dict(env)
            for n in carried:
                ty = env[n][1]
                for e in envs:
                    _, _, ty = self.unify("a", ty, "b", e[n][1], s)
                e2 = self.bind(e2, n, vname(n), ty)
            after = self.blk(rest, e2, k, loop)
            if not cn:
                sp = "(_ : unit)"
            elif len(cn) == 1:
                sp = f"({cn[0]} : {cty(e2[carried[0]][1])})"
            else:
                sp = "'((" + ", ".join(cn) + ") : " + " * ".join(cty(e2[n][1]) for n in carried) + ")"
            xa = f"'(({vname(targets[0])}, {vname(targets[1])}) : Z * {cty(tl[1])})" if start is not None else f"({xp} : {cty(tl[1])})"
            if kind == "pure":
                txt = f"let {pat(cn)} := fold_left (fun {sp} {xa} =>\n{btext}) {seq} {st0} in\n{after}"
            elif kind == "exn":
                txt = (f"match loopE (fun {sp} {xa} =>\n{btext}) {seq} {st0} with\n"
                       f"| PErr e_ => {self.raise_('e_')}\n| POk {tup(cn) if cn else '_'} =>\n{after}\nend")
            else:
                txt = (f"match loopF (fun fs {sp} {xa} =>\n{btext}) {seq} fs {st0} with\n"
                       f"| (fs, PErr e_) => (fs, PErr e_)\n| (fs, POk {tup(cn) if cn else '_'}) =>\n{after}\nend")
            return self.wrap(binds, txt)
        raise NeedKind("fs")

    def with_(self, s, rest, env, k, loop):
        if len(s.items) != 1:
            raise self.err("with: one item expected", s)
        it = s.items[0]
        c = it.context_expr
        if not (isinstance(c, ast.Call) and isinstance(c.func, ast.Name) and c.func.id == "open" and "open" not in env
                and len(c.args) == 2 and isinstance(c.args[0], ast.Name)
                and all(kw.arg == "newline" and isinstance(kw.value, ast.Constant) and kw.value.value == "" for kw in c.keywords)):
            raise self.err("with: expected open(<file name>, <mode>, newline='')", s)
        if env.get(c.args[0].id, (None, None))[1] != "fname":
            raise self.err("with: the opened name is not the method's file name parameter", s)
        if it.optional_vars is not None and not isinstance(it.optional_vars, ast.Name):
            raise self.err("with: target not accepted", s)
        if self.kind != "fs":
            raise NeedKind("fs")
        (m, tm), binds = self.simple(lambda: self.ex(c.args[1], env))
        if tm != "str":
            raise self.err("open mode must be a string", s)
        e2 = env
        if it.optional_vars is not None:
            e2 = self.bind(env, it.optional_vars.id, "tt", ("fh", m))
        inner = self.blk(s.body + rest, e2, k, loop)
        return self.wrap(binds + [("res", "fs", f"(fs_open fs {m})")], inner)

    # ------------------------------------------------------------------ a whole method
    def method(self):
        f, m = self.f, self.m
        a = f.args
        if a.vararg or a.kwarg or a.kwonlyargs or a.posonlyargs or not a.args or a.args[0].arg != "self":
            raise self.err("parameter list shape not accepted", f)
        pn = [x.arg for x in a.args[1:]]
        if len(pn) != len(m.ptypes):
            raise self.err(f"expected {len(m.ptypes)} parameters, found {len(pn)}: {pn}", f)
        env = {}
        if m.uses_self:
            env["self"] = ("self", "self")
        hdr = []
        for p, ty in zip(pn, m.ptypes):
            env[p] = (vname(p), ty)
            if ty != "fname":
                hdr.append(f"({vname(p)} : {cty(ty)})")
        base = cty(m.ret)
        rt = f"(jself * {base})" if m.self_w else base
        rt = f"(pyres {rt})" if m.raises else rt
        rt = f"(file * {rt})" if m.fs else rt
        body = self.blk(strip_doc(f.body), env, lambda e: self.ret("tt", "unit", f) if m.ret == "unit" else self._noreturn(f), None)
        head = ([f"(self : jself)"] if m.uses_self else []) + (["(fs : file)"] if m.fs else []) + hdr
        # defaults
        defs = []
        nd = len(a.defaults)
        for p, ty, d in zip(pn[len(pn) - nd:], m.ptypes[len(pn) - nd:], a.defaults):
            saved, self.binds = self.binds, []
            t, tt_ = self.ex(d, {}, ty)
            if self.binds:
                raise self.err("default value not accepted", d)
            self.binds = saved
            defs.append(f"(* {p} = {ast.unparse(d)} *)\nDefinition gen_default_{m.coq[4:]}_{p} : {cty(ty)} := {self.coerce(t, tt_, ty, d)}.\n")
        return "".join(defs) + f"Definition {m.coq} {' '.join(head)} : {rt} :=\n{body}.\n"

    def _noreturn(self, f):
        raise self.err("control reaches the end of a method that returns a value", f)


def gen_new(cls, path):
    f = find_func(cls, "__init__")
    if [a.arg for a in f.args.args] != ["self"]:
        raise TranslateError("__init__: parameters not accepted", f, path)
    vals = {}
    for s in strip_doc(f.body):
        tg = s.target if isinstance(s, ast.AnnAssign) else s.targets[0] if isinstance(s, ast.Assign) and len(s.targets) == 1 else None
        if not (tg is not None and isinstance(tg, ast.Attribute) and isinstance(tg.value, ast.Name) and tg.value.id == "self"
                and tg.attr in SELF_ATTRS and tg.attr not in vals and isinstance(s.value, ast.Constant) and s.value.value is None):
            raise TranslateError("__init__: expected `self.<attribute> = None` once per attribute, found " + ast.unparse(s)[:80], s, path)
        vals[tg.attr] = "None"
    if set(vals) != set(ATTR_ORDER):
        raise TranslateError("__init__: attributes " + repr(sorted(set(ATTR_ORDER) - set(vals))) + " are not initialised", f, path)
    return "Definition gen_new : jself := JSelf " + " ".join(vals[a] for a in ATTR_ORDER) + ".\n"


def generate():
    tree, path = parse(SRC)
    cls = find_class(tree, "JetAnalysis")
    table = {}
    for m in METHODS:
        fdef = find_func(cls, m.py)
        m.uses_self = any(isinstance(x, ast.Name) and x.id == "self" for b in fdef.body for x in ast.walk(b))
        table[m.py] = (m, fdef)
    out = [HEADER,
           "(* JetAnalysis.py as written, over Model/JetsRt.v; see tools/py2coq/gen_jets.py for the conventions *)\n"
           "From Coq Require Import List ZArith QArith Bool String.\nFrom SX Require Import Model.Jets Model.JetsRt.\n"
           "Import ListNotations.\n\n", gen_new(cls, path), "\nSection Gen.\n"
           "Variable o_cluster : alg -> Q -> list vec4 -> list vec4.\nVariables o_perp o_eta o_phi : vec4 -> Q.\n"
           "Variable o_dphi : vec4 -> vec4 -> Q.\nVariable o_sqrt : Q -> Q.\n\n"]
    for m in METHODS:
        _, fdef = table[m.py]
        text = Tr(m, fdef, table, path).method()
        out.append(f"(* ---- {m.py} ---- *)\n" + text + "\n")
    out.append("End Gen.\n")
    return "".join(out)


def main(outdir):
    return write_if_changed(outdir + "/GenJets.v", generate())

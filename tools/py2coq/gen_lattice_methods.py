"""Gen/GenLatticeMethods.v from src/sparkx/Lattice3D.py: the bodies of the addressing / arithmetic / CSV methods of
Lattice3D as Gallina over Model/LatticeRt.v (an ADDITIONAL file next to Gen/GenLattice.v of gen_lattice.py).

Translated AS WRITTEN (statements in order, conditions with their operators and constants, argument order, defaults,
exception classes), one definition per method:
  __init__ -> gen_init (+ gen_default_init_<p>)      __is_valid_index -> gen_p_is_valid_index (plain bool)
  set_value_by_index, get_value_by_index, __get_index, __get_index_nearest_neighbor, __get_indices,
  __get_indices_nearest_neighbor, set_value, set_value_nearest_neighbor, get_value, get_value_nearest_neighbor,
  __get_value, get_coordinates, __find_closest_index, __is_within_range (plain bool), find_closest_indices,
  interpolate_value (+ gen_default_interpolate_value_method), __operate_on_lattice, __add__, __sub__, __mul__,
  __truediv__, average, rescale, reset, save_to_csv, load_from_csv
      -> gen_<name> for a public method, gen_p_<name> for a private `__name`, gen_add .. gen_truediv for the operators
NOT translated here: visualize, extract_slice, save_slice_to_csv, interpolate_to_lattice*, add_same_spaced_grid,
add_particle_data.  Proofs/Lattice_Source.v proves each definition equal to the hand model Model/Lattice.v.

Conventions of the translation (the runtime, the proofs and the hand model rely on them):
  * a method is `wres R` (WOk | Warned | WErr cls of Model/Lattice.v) - `wres (lobj V * R)` when it stores into self -
    except the two methods that are one boolean `return`, which are plain `bool`; statements are chained by `wbind`:
    `warnings.warn(..)` is `wwarn`, `raise C(..)` is `WErr C` (C one of EXN), every primitive that can raise
    (indexing, /, np.linspace, np.zeros, a[i,j,k], argmin, reshape, int(), loadtxt ...) is bound where Python evaluates
    it - left to right, the right operand of `and` / `or` and the later operands of a chained comparison only when
    Python evaluates them, the branches of `a if c else b` inside the chosen branch;
  * a Python local `x` is the Coq variable `v_x`, rebinding is shadowing; `self` is threaded; `self.a_ = e` in __init__
    binds `a_<a_>` and the object is built from these at the end (all 23 attributes must be stored, an attribute must
    be stored before it is read); elsewhere only `grid_` may be stored (`set_grid_`), also on a local that holds a
    Lattice3D;  an `if` whose branches fall through is joined on the variables both paths define (`wbind (if ..)`);
    `for x in l` is `wloop` over the variables the body re-binds; `if not isinstance(x, Lattice3D): raise` narrows x
    (match on PObj / PNotLattice);
  * types are FIXED per parameter (table METHODS): indices / node counts are Python ints (Z); extents, axis values and
    what is computed from them are finite floats (Q, exact); coordinates are floats that may be NaN / +-inf (fv);
    grid values are V (fv in the two CSV methods).  Float comparisons are fv_le / fv_lt after coercion to fv, int
    comparisons Z.leb / Z.ltb / Z.eqb (`>` / `>=` swap the operands), shapes shape_eqb.  A numeric literal takes the type
    its context wants.  An extent read from a file (fv) handed to the constructor must be finite (fv_finite);
  * `isinstance(values, list)` on an array parameter is `py_ndarray_is_list` (false: the attribute arrays are ndarrays),
    `np.array(values[, dtype=float])` the identity;
  * numpy / scipy calls are the functions of Model/LatticeRt.v; np.linspace and scipy's interpn(..)[0] are oracles
    (fields of the context `cx`), so are the number format of np.savetxt (`fmt`, the default "%.18e": a `fmt=`
    keyword is not accepted) and the parsing of np.loadtxt (`parse`); the one file of save_to_csv / load_from_csv is a
    value (`csvfile`: delimiter + one row of tokens); lambdas are accepted only as `lambda a, b: a <op> b` on grids.
Fail-closed: every statement / expression shape that is not accepted by `Tr.blk` (statements) / `Tr.ex_` (expressions) raises TranslateError with
the source location.  Nothing is pinned textually.
"""
import ast
from fractions import Fraction
from .core import *

SRC = "src/sparkx/Lattice3D.py"
OUTPUTS = ["GenLatticeMethods"]

EXN = {"ValueError", "TypeError", "IndexError", "KeyError", "AttributeError", "ZeroDivisionError"}
T3Z = ("tup", ("Z", "Z", "Z"))
T3Q = ("tup", ("Q", "Q", "Q"))
LPV = ("list", "pyval")

# the attributes of the object (record lobj of Model/LatticeRt.v), in the order of the record
ATTRS = [("x_min_", "Q"), ("x_max_", "Q"), ("y_min_", "Q"), ("y_max_", "Q"), ("z_min_", "Q"), ("z_max_", "Q"),
         ("num_points_x_", "Z"), ("num_points_y_", "Z"), ("num_points_z_", "Z"), ("cell_volume_", "Q"),
         ("x_values_", "arrQ"), ("y_values_", "arrQ"), ("z_values_", "arrQ"), ("grid_", "grid"),
         ("n_sigma_x_", "Q"), ("n_sigma_y_", "Q"), ("n_sigma_z_", "Q"),
         ("spacing_x_", "optQ"), ("spacing_y_", "optQ"), ("spacing_z_", "optQ"),
         ("density_x_", "Q"), ("density_y_", "Q"), ("density_z_", "Q")]
ATTR_TY = dict(ATTRS)


class Meth:
    def __init__(self, py, params, ret, kind="w", self_w=False, group="gen", ctor=False, vararg=False, file=None,
                 clsmeth=False):
        self.py, self.ptypes, self.ret, self.kind, self.self_w, self.group = py, params, ret, kind, self_w, group
        self.ctor, self.vararg, self.file, self.clsmeth = ctor, vararg, file, clsmeth
        # __add__ -> gen_add, a private __name -> gen_p_name (get_value and __get_value both exist)
        self.coq = ("gen_p_" + py[2:]) if py.startswith("__") and not py.endswith("__") else "gen_" + py.strip("_")
        self.tag = self.coq[4:]


FV3 = ["fv", "fv", "fv"]
METHODS = [
    Meth("__init__", ["Q"] * 6 + ["Z"] * 3 + ["optQ"] * 3, "obj", ctor=True),
    Meth("__is_valid_index", ["Z", "Z", "Z"], "bool", kind="pure"),
    Meth("set_value_by_index", ["Z", "Z", "Z", "V"], "unit", self_w=True),
    Meth("get_value_by_index", ["Z", "Z", "Z"], "optV"),
    Meth("__get_index", ["fv", "arrQ"], "Z"),
    Meth("__get_index_nearest_neighbor", ["fv", "arrQ"], "Z"),
    Meth("__get_indices", FV3, T3Z),
    Meth("__get_indices_nearest_neighbor", FV3, T3Z),
    Meth("set_value", FV3 + ["V"], "unit", self_w=True),
    Meth("set_value_nearest_neighbor", FV3 + ["V"], "unit", self_w=True),
    Meth("get_value", FV3, "optV"),
    Meth("get_value_nearest_neighbor", FV3, "optV"),
    Meth("__get_value", ["Z", "arrQ", "Z"], "Q"),
    Meth("get_coordinates", ["Z", "Z", "Z"], T3Q),
    Meth("__find_closest_index", ["fv", "arrQ"], "Z"),
    Meth("__is_within_range", FV3, "bool", kind="pure"),
    Meth("find_closest_indices", FV3, T3Z),
    Meth("interpolate_value", FV3 + ["str"], "V"),
    Meth("__operate_on_lattice", ["pyval", "gridop"], "obj"),
    Meth("__add__", ["pyval"], "obj"),
    Meth("__sub__", ["pyval"], "obj"),
    Meth("__mul__", ["pyval"], "obj"),
    Meth("__truediv__", ["pyval"], "obj"),
    Meth("average", [LPV], "obj", vararg=True),
    Meth("rescale", ["V"], "unit", self_w=True),
    Meth("reset", [], "unit", self_w=True),
    Meth("save_to_csv", ["fname"], "unit", group="csv", file="w"),
    Meth("load_from_csv", ["fname"], "obj", group="csv", file="r", clsmeth=True),
]


def qlit(fr):
    n, d = fr.numerator, fr.denominator
    return f"({n} # {d})" if n >= 0 else f"(({n}) # {d})"


def zlit(n):
    return f"{n}%Z" if n >= 0 else f"({n})%Z"


def slit(s):
    if any(ord(c) > 126 or ord(c) < 32 for c in s) or '"' in s:
        raise TranslateError("string literal not accepted: " + repr(s))
    return '"' + s + '"%string'


def vname(py):
    return "v_" + py


def tup(names):
    return "tt" if not names else names[0] if len(names) == 1 else "(" + ", ".join(names) + ")"


def pat(names):
    return "_" if not names else names[0] if len(names) == 1 else "'(" + ", ".join(names) + ")"


def is_num(n):
    return isinstance(n, ast.Constant) and isinstance(n.value, (int, float)) and not isinstance(n.value, bool)


def is_none_test(node):
    """`X is None` -> (X, True); `X is not None` -> (X, False); else None"""
    if isinstance(node, ast.Compare) and len(node.ops) == 1 and isinstance(node.comparators[0], ast.Constant) \
            and node.comparators[0].value is None and isinstance(node.ops[0], (ast.Is, ast.IsNot)):
        return node.left, isinstance(node.ops[0], ast.Is)
    return None


def terminal(stmts):
    return bool(stmts) and isinstance(stmts[-1], (ast.Raise, ast.Return))


def assigned(stmts):
    """names (re)bound by the statements, in order of first binding; 'self' for stores into self"""
    out = []

    def add(n):
        if n not in out:
            out.append(n)

    def target(tg):
        if isinstance(tg, ast.Name):
            add(tg.id)
        elif isinstance(tg, ast.Tuple):
            for e in tg.elts:
                target(e)
        elif isinstance(tg, ast.Attribute) and isinstance(tg.value, ast.Name):
            add(tg.value.id)
        elif isinstance(tg, ast.Subscript):
            root = tg.value
            while isinstance(root, (ast.Attribute, ast.Subscript)):
                root = root.value
            if isinstance(root, ast.Name):
                add(root.id)

    def walk(s):
        if isinstance(s, ast.Assign):
            for tg in s.targets:
                target(tg)
        elif isinstance(s, (ast.AnnAssign, ast.AugAssign)):
            target(s.target)
        elif isinstance(s, ast.Expr) and isinstance(s.value, ast.Call) and isinstance(s.value.func, ast.Attribute) \
                and isinstance(s.value.func.value, ast.Name) and s.value.func.value.id == "self":
            add("self")           # a method call may store into self (decided by the callee's declaration)
        elif isinstance(s, (ast.If, ast.For)):
            for b in s.body + s.orelse:
                walk(b)
    for s in stmts:
        walk(s)
    return out


class Tr:
    """translation of one method"""

    def __init__(self, meth, fdef, table, path):
        self.m, self.f, self.table, self.path = meth, fdef, table, path
        self.binds, self.n = [], 0
        self.csv = meth.group == "csv"
        self.vt = "fv" if self.csv else "V"          # the type of a grid value
        self.in_join = 0
        self.attrs = None                             # __init__: attribute -> (coq variable, type)

    def err(self, msg, node=None):
        return TranslateError(f"{self.m.py}: {msg}", node, self.path)

    def fresh(self, hint="t"):
        self.n += 1
        return f"{hint}{self.n}"

    # ------------------------------------------------------------------ types
    def norm(self, t):
        if t == "V":
            return self.vt
        if t == "optV":
            return ("opt", self.vt)
        if t == "optQ":
            return ("opt", "Q")
        if t == "arrF":
            return ("list", "fv")
        if isinstance(t, tuple) and t[0] in ("list", "opt"):
            return (t[0], self.norm(t[1]) if t[1] is not None else None)
        if isinstance(t, tuple) and t[0] == "tup":
            return ("tup", tuple(self.norm(x) for x in t[1]))
        return t

    def cty(self, t):
        t = self.norm(t)
        if isinstance(t, tuple):
            if t[0] == "list":
                return "(list " + (self.cty(t[1]) if t[1] is not None else "_") + ")"
            if t[0] == "opt":
                return f"(option {self.cty(t[1])})"
            if t[0] == "tup":
                return "(" + " * ".join(self.cty(x) for x in t[1]) + ")"
            raise self.err("type without a Coq counterpart: " + repr(t))
        V = "fv" if self.csv else "V"
        table = {"Q": "Q", "Z": "Z", "fv": "fv", "V": V, "bool": "bool", "str": "string", "unit": "unit", "arrQ": "(list Q)",
                 "grid": f"(grid3 {V})", "shape": "(nat * nat * nat)", "obj": f"(lobj {V})", "pyval": f"(pyval {V})",
                 "gridop": f"(grid3 {V} -> grid3 {V} -> result (grid3 {V}))", "nparr": "nparr", "rowF": "(list fv)"}
        if t not in table:
            raise self.err("type without a Coq counterpart: " + repr(t))
        return table[t]

    def coerce(self, text, ty, want, node=None):
        ty, want = self.norm(ty), self.norm(want)
        if want is None or ty == want:
            return text
        if ty == "Q" and want == "fv":
            return f"(Fin {text})"
        if ty == "Z" and want == "fv":
            return f"(fv_of_Z {text})"
        if ty == "obj" and want == "pyval":
            return f"(PObj {text})"
        if ty == "arrQ" and want == ("list", "Q"):
            return text
        if ty == "none" and isinstance(want, tuple) and want[0] == "opt":
            return "None"
        if isinstance(want, tuple) and want[0] == "opt" and ty == want[1]:
            return f"(Some {text})"
        if isinstance(ty, tuple) and isinstance(want, tuple) and ty[0] == want[0] == "list" and ty[1] is None:
            return text
        if ty == "fv" and want == "Q":
            x = self.fresh("q")
            self.binds.append((x, f"(wlift (fv_finite {text}))"))
            return x
        raise self.err(f"value of type {ty} where {want} is expected: {ast.unparse(node) if node is not None else text}", node)

    def unify(self, a, ta, b, tb, node):
        ta, tb = self.norm(ta), self.norm(tb)
        if ta == tb:
            return a, b, ta
        for x, y in ((ta, tb), (tb, ta)):
            if x == "none" and isinstance(y, tuple) and y[0] == "opt":
                return self.coerce(a, ta, y, node), self.coerce(b, tb, y, node), y
            if x == "none" and not isinstance(y, tuple):
                o = ("opt", y)
                return self.coerce(a, ta, o, node), self.coerce(b, tb, o, node), o
        if {ta, tb} == {"Q", "fv"}:
            return self.coerce(a, ta, "fv", node), self.coerce(b, tb, "fv", node), "fv"
        if {ta, tb} == {"obj", "pyval"}:
            return self.coerce(a, ta, "pyval", node), self.coerce(b, tb, "pyval", node), "pyval"
        raise self.err(f"values of different types {ta} / {tb}", node)

    # ------------------------------------------------------------------ monadic plumbing
    def wrap(self, binds, inner):
        for p, term in reversed(binds):
            inner = f"wbind {term} (fun {p} =>\n{inner})"
        return inner

    def sub(self, compute):
        """run compute() with an empty list of pending binds; returns (result, binds)"""
        saved, self.binds = self.binds, []
        try:
            res = compute()
            binds = self.binds
        finally:
            self.binds = saved
        return res, binds

    def conj(self, parts, is_and):
        """parts: [(binds, bool text)] in evaluation order; later parts are evaluated only when Python evaluates them"""
        b0, t0 = parts[0]
        self.binds += b0
        if len(parts) == 1:
            return t0
        if all(not b for b, _ in parts[1:]):
            out = t0
            for _, t in parts[1:]:
                out = f"({out} {'&&' if is_and else '||'} {t})"
            return out
        r, inner = self.sub(lambda: self.conj(parts[1:], is_and))
        m = "(" + self.wrap(inner, f"WOk {r}") + ")"
        v = self.fresh("c")
        self.binds.append((v, f"(if {t0} then {m} else WOk false)" if is_and else f"(if {t0} then WOk true else {m})"))
        return v

    # ------------------------------------------------------------------ expressions
    def num(self, node, want):
        v = node.value
        want = self.norm(want)
        fr = Fraction(v)
        if want == "Q" or (isinstance(v, float) and want not in ("Z", "fv", self.vt)):
            return qlit(fr), "Q"
        if want == "fv":
            return f"(Fin {qlit(fr)})", "fv"
        if want == "V":
            if fr.denominator != 1:
                raise self.err("non-integral literal stored into the grid", node)
            return f"(c_of_Z cx {zlit(fr.numerator)})", "V"
        if fr.denominator != 1:
            raise self.err("non-integral literal where an int is expected", node)
        return zlit(fr.numerator), "Z"

    def truth(self, node, env):
        t, ty = self.ex(node, env)
        if ty != "bool":
            raise self.err(f"truth value of a {ty} not accepted", node)
        return t

    def ex(self, n, env, want=None):
        t, ty = self.ex_(n, env, want)
        return t, self.norm(ty)

    def ex_(self, n, env, want):
        if isinstance(n, ast.Constant):
            v = n.value
            if v is None:
                return "None", "none"
            if isinstance(v, bool):
                return ("true" if v else "false"), "bool"
            if isinstance(v, str):
                return slit(v), "str"
            if is_num(n) and v == v and abs(v) != float("inf"):
                return self.num(n, want)
            raise self.err("literal not accepted: " + repr(v), n)
        if isinstance(n, ast.Name):
            if n.id not in env:
                raise self.err(f"name `{n.id}` is not bound here", n)
            return env[n.id]
        if isinstance(n, ast.UnaryOp):
            if isinstance(n.op, ast.Not):
                return f"(negb {self.truth(n.operand, env)})", "bool"
            if isinstance(n.op, ast.USub) and is_num(n.operand):
                return self.num(ast.Constant(value=-n.operand.value), want)
            raise self.err("unary operator not accepted", n)
        if isinstance(n, ast.BinOp):
            return self.binop(n, env, want)
        if isinstance(n, ast.BoolOp):
            parts = []
            for v in n.values:
                t, b = self.sub(lambda v=v: self.truth(v, env))
                parts.append((b, t))
            return self.conj(parts, isinstance(n.op, ast.And)), "bool"
        if isinstance(n, ast.Compare):
            return self.compare(n, env), "bool"
        if isinstance(n, ast.IfExp):
            return self.ifexp(n, env, want)
        if isinstance(n, ast.Tuple):
            ws = want[1] if isinstance(want, tuple) and want[0] == "tup" and len(want[1]) == len(n.elts) else [None] * len(n.elts)
            ts = [self.ex(e, env, w) for e, w in zip(n.elts, ws)]
            if len(ts) < 2:
                raise self.err("tuple with fewer than two elements", n)
            return "(" + ", ".join(t[0] for t in ts) + ")", ("tup", tuple(t[1] for t in ts))
        if isinstance(n, ast.List):
            if not n.elts:
                raise self.err("empty list literal not accepted", n)
            w = want[1] if isinstance(want, tuple) and want[0] == "list" else None
            ts = [self.ex(e, env, w) for e in n.elts]
            ty = ts[0][1]
            if w is not None:
                ts = [(self.coerce(t, tt, w, n), w) for t, tt in ts]
                ty = self.norm(w)
            elif any(t[1] != ty for t in ts):
                raise self.err("list literal with elements of different types", n)
            return "[" + "; ".join(t[0] for t in ts) + "]", ("list", ty)
        if isinstance(n, ast.ListComp):
            return self.listcomp(n, env)
        if isinstance(n, ast.Subscript):
            return self.subscript(n, env)
        if isinstance(n, ast.Attribute):
            return self.attribute(n, env)
        if isinstance(n, ast.Call):
            return self.call(n, env, want)
        if isinstance(n, ast.Lambda):
            return self.lam(n, env, want)
        raise self.err("expression not accepted: " + ast.unparse(n)[:80], n)

    GRIDOPS = {ast.Add: "c_add", ast.Sub: "c_sub", ast.Mult: "c_mul", ast.Div: "c_div"}

    def binop(self, n, env, want):
        wq = want if self.norm(want) in ("Q", "Z") else None
        a, ta = self.ex(n.left, env, wq)
        b, tb = self.ex(n.right, env, wq if wq else ta if ta in ("Q", "Z") and is_num(n.right) else None)
        if ta != tb and is_num(n.left) and tb in ("Q", "Z"):
            a, ta = self.ex(n.left, env, tb)
        op = type(n.op)
        if ta == tb == "Z":
            o = {ast.Add: "Z.add", ast.Sub: "Z.sub", ast.Mult: "Z.mul"}.get(op)
            if o:
                return f"({o} {a} {b})", "Z"
        if ta == tb == "Q":
            o = {ast.Add: "Qplus", ast.Sub: "Qminus", ast.Mult: "Qmult"}.get(op)
            if o:
                return f"({o} {a} {b})", "Q"
            if op is ast.Div:
                x = self.fresh()
                self.binds.append((x, f"(wlift (py_truediv_QQ {a} {b}))"))
                return x, "Q"
        if ta == "Q" and tb == "Z" and op is ast.Div:
            x = self.fresh()
            self.binds.append((x, f"(wlift (py_truediv_QZ {a} {b}))"))
            return x, "Q"
        if ta == "arrQ" and tb == "fv" and op is ast.Sub:
            return f"(np_sub_scalar {a} {b})", ("list", "fv")
        if ta == "fv" and tb == "arrQ" and op is ast.Sub:
            return f"(np_rsub_scalar {a} {b})", ("list", "fv")
        if ta == tb == "grid" and op in self.GRIDOPS:
            x = self.fresh()
            self.binds.append((x, f"(wlift (np_binop ({self.GRIDOPS[op]} cx) {a} {b}))"))
            return x, "grid"
        if isinstance(ta, tuple) and isinstance(tb, tuple) and ta[0] == tb[0] == "list" and op is ast.Add:
            ea, eb = ta[1], tb[1]
            if ea != eb:
                if {ea, eb} != {"obj", "pyval"}:
                    raise self.err(f"concatenation of lists of {ea} and {eb}", n)
                if ea == "obj":
                    a = f"(map PObj {a})"
                else:
                    b = f"(map PObj {b})"
                ea = "pyval"
            return f"({a} ++ {b})%list", ("list", ea)
        raise self.err(f"operator {op.__name__} on {ta} and {tb} not accepted", n)

    def cmp1(self, op, a, ta, b, tb, node):
        if isinstance(op, (ast.Gt, ast.GtE)):
            a, ta, b, tb = b, tb, a, ta
            op = ast.Lt() if isinstance(op, ast.Gt) else ast.LtE()
        k = type(op)
        if ta == tb == "Z":
            f = {ast.Lt: "({a} <? {b})%Z", ast.LtE: "({a} <=? {b})%Z", ast.Eq: "({a} =? {b})%Z",
                 ast.NotEq: "(negb ({a} =? {b})%Z)"}.get(k)
        elif ta in ("Q", "fv") and tb in ("Q", "fv"):
            a, b = self.coerce(a, ta, "fv", node), self.coerce(b, tb, "fv", node)
            f = {ast.Lt: "(fv_lt {a} {b})", ast.LtE: "(fv_le {a} {b})"}.get(k)
        elif ta == tb == "shape":
            f = {ast.Eq: "(shape_eqb {a} {b})", ast.NotEq: "(negb (shape_eqb {a} {b}))"}.get(k)
        else:
            f = None
        if f is None:
            raise self.err(f"comparison {k.__name__} on {ta} and {tb} not accepted", node)
        return f.format(a=a, b=b)

    def compare(self, n, env):
        nt = is_none_test(n)
        if nt is not None:
            v, tv = self.ex(nt[0], env)
            if not (isinstance(tv, tuple) and tv[0] == "opt"):
                raise self.err("`is None` on a value that cannot be None", n)
            return f"(match {v} with None => {'true' if nt[1] else 'false'} | Some _ => {'false' if nt[1] else 'true'} end)"
        operands = [n.left] + n.comparators
        # a literal takes the type of its neighbour; operand i+1 is evaluated only when the comparisons before hold
        tr, bs = [None] * len(operands), [None] * len(operands)
        for i, o in enumerate(operands):
            if not is_num(o):
                tr[i], bs[i] = self.sub(lambda o=o: self.ex(o, env))
        for i, o in enumerate(operands):
            if tr[i] is None:
                near = [tr[j] for j in (i - 1, i + 1) if 0 <= j < len(operands) and tr[j] is not None]
                w = near[0][1] if near else None
                tr[i], bs[i] = self.sub(lambda o=o, w=w: self.ex(o, env, "Q" if w in ("Q", "fv") else "Z" if w == "Z" else None))
        parts = []
        for i, op in enumerate(n.ops):
            def one(i=i, op=op):
                return self.cmp1(op, tr[i][0], tr[i][1], tr[i + 1][0], tr[i + 1][1], n)
            t, b = self.sub(one)
            parts.append(((bs[0] if i == 0 else []) + bs[i + 1] + b, t))
        return self.conj(parts, True)

    def ifexp(self, n, env, want):
        nt = is_none_test(n.test)
        if nt is not None:
            if not isinstance(nt[0], ast.Name):
                raise self.err("`is None` test on something that is not a name", n)
            v, tv = self.ex(nt[0], env)
            if not (isinstance(tv, tuple) and tv[0] == "opt"):
                raise self.err("`is None` on a value that cannot be None", n)
            x = self.fresh("x")
            en = dict(env)
            en[nt[0].id] = (x, tv[1])
            none_node, some_node = (n.body, n.orelse) if nt[1] else (n.orelse, n.body)
            (a, ta), ba = self.sub(lambda: self.ex(none_node, env, want))
            (b, tb), bb = self.sub(lambda: self.ex(some_node, en, want if want else ta if ta in ("Q", "Z") else None))
            if is_num(none_node) and ta != tb:
                (a, ta), ba = self.sub(lambda: self.ex(none_node, env, tb))
            def head(p_, q_):
                return f"match {v} with None => {p_} | Some {x} => {q_} end"
        else:
            c = self.truth(n.test, env)
            (a, ta), ba = self.sub(lambda: self.ex(n.body, env, want))
            (b, tb), bb = self.sub(lambda: self.ex(n.orelse, env, want))
            def head(p_, q_):
                return f"if {c} then {p_} else {q_}"
        (a, b, t), bu = self.sub(lambda: self.unify(a, ta, b, tb, n))
        if bu:
            raise self.err("conditional expression: branch needs a conversion that may raise", n)
        if not ba and not bb:
            return "(" + head(a, b) + ")", t
        x = self.fresh()
        self.binds.append((x, "(" + head("(" + self.wrap(ba, f"WOk {a}") + ")", "(" + self.wrap(bb, f"WOk {b}") + ")") + ")"))
        return x, t

    def listcomp(self, n, env):
        if len(n.generators) != 1 or n.generators[0].ifs or n.generators[0].is_async \
                or not isinstance(n.generators[0].target, ast.Name):
            raise self.err("comprehension shape not accepted", n)
        g = n.generators[0]
        it, ity = self.ex(g.iter, env)
        if not (isinstance(ity, tuple) and ity[0] == "list" and ity[1] is not None):
            raise self.err("comprehension over a non-list", n)
        x = vname(g.target.id)
        en = dict(env)
        en[g.target.id] = (x, ity[1])
        (e, ety), binds = self.sub(lambda: self.ex(n.elt, en))
        if not binds:
            return f"(map (fun {x} => {e}) {it})", ("list", ety)
        r = self.fresh()
        self.binds.append((r, f"(wmapM (fun {x} =>\n" + self.wrap(binds, f"WOk {e}") + f") {it})"))
        return r, ("list", ety)

    def lam(self, n, env, want):
        a = n.args
        if self.norm(want) != "gridop" or a.vararg or a.kwarg or a.kwonlyargs or a.posonlyargs or a.defaults or len(a.args) != 2:
            raise self.err("lambda not accepted here", n)
        p, q = a.args[0].arg, a.args[1].arg
        b = n.body
        if not (isinstance(b, ast.BinOp) and isinstance(b.left, ast.Name) and isinstance(b.right, ast.Name)
                and {b.left.id, b.right.id} <= {p, q} and type(b.op) in self.GRIDOPS):
            raise self.err("lambda body must be `a <op> b` on its two arguments", n)
        return f"(fun {vname(p)} {vname(q)} => np_binop ({self.GRIDOPS[type(b.op)]} cx) {vname(b.left.id)} {vname(b.right.id)})", "gridop"

    def index3(self, sl, env, node):
        if not (isinstance(sl, ast.Tuple) and len(sl.elts) == 3):
            raise self.err("grid index must be `[i, j, k]`", node)
        out = []
        for e in sl.elts:
            t, ty = self.ex(e, env, "Z")
            if ty != "Z":
                raise self.err("grid index must be an int", node)
            out.append(t)
        return out

    def natlit(self, node, what):
        if not (is_num(node) and isinstance(node.value, int) and node.value >= 0):
            raise self.err(what + " must be a non-negative int literal", node)
        return node.value

    def subscript(self, n, env):
        # interpn(points, values, xi, method=m)[0]
        if isinstance(n.value, ast.Call) and isinstance(n.value.func, ast.Name) and n.value.func.id == "interpn" \
                and "interpn" not in env:
            if not (is_num(n.slice) and n.slice.value == 0):
                raise self.err("interpn(...)[k]: k must be 0", n)
            c = n.value
            if len(c.args) != 3 or [k.arg for k in c.keywords] != ["method"]:
                raise self.err("interpn: expected (points, values, xi, method=...)", n)
            p, tp = self.ex(c.args[0], env)
            g, tg = self.ex(c.args[1], env)
            xi, tx = self.ex(c.args[2], env)
            m, tm = self.ex(c.keywords[0].value, env)
            if tp != ("tup", ("arrQ", "arrQ", "arrQ")) or tg != "grid" or tx != ("list", "fv") or tm != "str":
                raise self.err(f"interpn: arguments of types {tp}, {tg}, {tx}, {tm}", n)
            return f"(c_interpn cx {p} {g} {xi} {m})", "V"
        v, tv = self.ex(n.value, env)
        if tv == "arrQ":
            i, ti = self.ex(n.slice, env, "Z")
            if ti != "Z":
                raise self.err("array index must be an int", n)
            x = self.fresh()
            self.binds.append((x, f"(wlift (pyget {v} {i}))"))
            return x, "Q"
        if tv == "grid":
            i, j, k = self.index3(n.slice, env, n)
            x = self.fresh()
            self.binds.append((x, f"(wlift (np_get3 {v} {i} {j} {k}))"))
            return x, "V"
        if tv == "nparr" and isinstance(n.slice, ast.Slice) and n.slice.step is None:
            lo = f"{self.natlit(n.slice.lower, 'slice bound') if n.slice.lower is not None else 0}%nat"
            hi = f"(Some {self.natlit(n.slice.upper, 'slice bound')}%nat)" if n.slice.upper is not None else "None"
            x = self.fresh()
            self.binds.append((x, f"(wlift (np_slice {v} {lo} {hi}))"))
            return x, ("list", "fv")
        raise self.err(f"subscript of a {tv} not accepted", n)

    def attribute(self, n, env):
        if isinstance(n.value, ast.Name) and n.value.id == "self" and self.attrs is not None:
            if n.attr not in self.attrs:
                raise self.err(f"self.{n.attr} is read before it is stored (or is not an attribute of the model)", n)
            return self.attrs[n.attr]
        v, tv = self.ex(n.value, env)
        if tv == "obj":
            if n.attr not in ATTR_TY:
                raise self.err("unknown attribute ." + n.attr, n)
            return f"({n.attr} {v})", ATTR_TY[n.attr]
        if tv == "pyval" and n.attr == "grid_":
            x = self.fresh()
            self.binds.append((x, f"(wlift (py_attr_grid_ {v}))"))
            return x, "grid"
        if tv == "grid" and n.attr == "shape":
            return f"(gshape {v})", "shape"
        raise self.err(f"attribute .{n.attr} of a {tv} not accepted", n)

    def kw(self, n, names):
        """keyword arguments of a call: exactly the given names, each once"""
        got = {k.arg: k.value for k in n.keywords}
        if len(got) != len(n.keywords) or set(got) != set(names):
            raise self.err(f"keyword arguments {sorted(k.arg or '**' for k in n.keywords)} where {sorted(names)} are expected", n)
        return got

    def args(self, n, env, types, what, kwnames=()):
        if len(n.args) != len(types):
            raise self.err(f"{what}: expected {len(types)} positional arguments", n)
        kws = self.kw(n, kwnames)
        out = []
        for a, w in zip(n.args, types):
            t, ty = self.ex(a, env, w)
            out.append(self.coerce(t, ty, w, a))
        return out, kws

    def strconst(self, node, what):
        if not (isinstance(node, ast.Constant) and isinstance(node.value, str)):
            raise self.err(what + " must be a string literal", node)
        return node.value

    def call(self, n, env, want):
        f = n.func
        if isinstance(f, ast.Name) and f.id not in env:
            if f.id == "Lattice3D":
                return self.method_call(n, env, "__init__")
            if f.id == "abs":
                (a,), _ = self.args(n, env, ["Q"], "abs")
                return f"(Qabs {a})", "Q"
            if f.id == "float" and len(n.args) == 1 and not n.keywords:
                a, ta = self.ex(n.args[0], env, "Q")
                if ta != "Q":
                    raise self.err(f"float() of a {ta}", n)
                return a, "Q"
            if f.id == "int" and len(n.args) == 1 and not n.keywords:
                a, ta = self.ex(n.args[0], env)
                if ta == "Z":
                    return a, "Z"
                if ta == "fv":
                    x = self.fresh()
                    self.binds.append((x, f"(wlift (py_int_fv {a}))"))
                    return x, "Z"
                raise self.err(f"int() of a {ta}", n)
            if f.id == "list" and len(n.args) == 1 and not n.keywords:
                a, ta = self.ex(n.args[0], env)
                if isinstance(ta, tuple) and ta[0] == "list":
                    return f"(py_list {a})", ta
                raise self.err(f"list() of a {ta}", n)
            if f.id == "isinstance" and len(n.args) == 2 and not n.keywords and isinstance(n.args[1], ast.Name):
                a, ta = self.ex(n.args[0], env)
                if n.args[1].id == "list" and ta == "arrQ":
                    return f"(py_ndarray_is_list {a})", "bool"
                if n.args[1].id == "Lattice3D" and ta == "pyval":
                    return f"(py_isinstance_lattice {a})", "bool"
                if n.args[1].id == "Lattice3D" and ta == "obj":
                    return "true", "bool"
                raise self.err("isinstance test not accepted", n)
            raise self.err("call not accepted: " + ast.unparse(n)[:80], n)
        if isinstance(f, ast.Name):
            v, tv = env[f.id]
            if tv == "gridop":
                (a, b), _ = self.args(n, env, ["grid", "grid"], "call of the operation")
                x = self.fresh()
                self.binds.append((x, f"(wlift ({v} {a} {b}))"))
                return x, "grid"
            raise self.err(f"call of a {tv}", n)
        if not isinstance(f, ast.Attribute):
            raise self.err("call not accepted: " + ast.unparse(n)[:80], n)
        if isinstance(f.value, ast.Name) and f.value.id == "self" and "self" in env:
            return self.method_call(n, env, f.attr)
        if isinstance(f.value, ast.Name) and f.value.id == "np" and "np" not in env:
            return self.np_call(n, env, f.attr, want)
        # methods of arrays
        v, tv = self.ex(f.value, env)
        if f.attr == "argmin" and tv == ("list", "fv") and not n.args and not n.keywords:
            x = self.fresh()
            self.binds.append((x, f"(wlift (np_argmin {v}))"))
            return x, "Z"
        if f.attr == "flatten" and tv == "grid" and not n.args and not n.keywords:
            return f"(np_flatten {v})", ("list", self.vt)
        if f.attr == "reshape" and tv == ("list", "fv") and not n.keywords:
            if len(n.args) == 2 and is_num(n.args[0]) and n.args[0].value == 1 and isinstance(n.args[1], ast.UnaryOp) \
                    and isinstance(n.args[1].op, ast.USub) and is_num(n.args[1].operand) and n.args[1].operand.value == 1:
                return f"(np_reshape_row {v})", "rowF"
            if len(n.args) == 1:
                s, ts = self.ex(n.args[0], env)
                if ts == "shape":
                    x = self.fresh()
                    self.binds.append((x, f"(wlift (np_reshape3 {v} {s}))"))
                    return x, "grid"
            raise self.err("reshape: expected (1, -1) or a grid shape", n)
        raise self.err("call not accepted: " + ast.unparse(n)[:80], n)

    def np_call(self, n, env, name, want):
        if name == "searchsorted":
            (a, v), kws = self.args(n, env, ["arrQ", "fv"], "np.searchsorted", ["side"])
            side = self.strconst(kws["side"], "side")
            if side not in ("right", "left"):
                raise self.err("np.searchsorted: unknown side " + repr(side), n)
            return f"(np_searchsorted_{side} {a} {v})", "Z"
        if name == "argmin":
            (a,), _ = self.args(n, env, [("list", "fv")], "np.argmin")
            x = self.fresh()
            self.binds.append((x, f"(wlift (np_argmin {a}))"))
            return x, "Z"
        if name == "abs":
            (a,), _ = self.args(n, env, [("list", "fv")], "np.abs")
            return f"(np_abs {a})", ("list", "fv")
        if name == "array":
            if len(n.args) != 1:
                raise self.err("np.array: one positional argument expected", n)
            if n.keywords:
                kws = self.kw(n, ["dtype"])
                if not (isinstance(kws["dtype"], ast.Name) and kws["dtype"].id == "float"):
                    raise self.err("np.array: dtype must be float", n)
            if isinstance(n.args[0], ast.List):
                l, tl = self.ex(n.args[0], env, ("list", "fv"))
                return l, ("list", "fv")
            a, ta = self.ex(n.args[0], env)
            if ta == "arrQ":
                return f"(np_array_Q {a})", "arrQ"
            raise self.err(f"np.array of a {ta}", n)
        if name == "linspace":
            (a, b, k), _ = self.args(n, env, ["Q", "Q", "Z"], "np.linspace")
            x = self.fresh()
            self.binds.append((x, f"(wlift (np_linspace cx {a} {b} {k}))"))
            return x, "arrQ"
        if name == "zeros":
            if not (len(n.args) == 1 and not n.keywords and isinstance(n.args[0], ast.Tuple) and len(n.args[0].elts) == 3):
                raise self.err("np.zeros: expected one 3-tuple", n)
            ds = []
            for e in n.args[0].elts:
                t, ty = self.ex(e, env, "Z")
                ds.append(self.coerce(t, ty, "Z", e))
            x = self.fresh()
            self.binds.append((x, f"(wlift (np_zeros3 cx {' '.join(ds)}))"))
            return x, "grid"
        if name == "mean":
            (a,), kws = self.args(n, env, [("list", "grid")], "np.mean", ["axis"])
            if not (is_num(kws["axis"]) and kws["axis"].value == 0 and isinstance(kws["axis"].value, int)):
                raise self.err("np.mean: axis must be 0", n)
            x = self.fresh()
            self.binds.append((x, f"(wlift (np_mean_axis0 cx {a}))"))
            return x, "grid"
        if name == "hstack":
            if not (len(n.args) == 1 and not n.keywords and isinstance(n.args[0], ast.Tuple) and len(n.args[0].elts) == 2):
                raise self.err("np.hstack: expected one pair", n)
            a, ta = self.ex(n.args[0].elts[0], env)
            b, tb = self.ex(n.args[0].elts[1], env)
            if ta != "rowF" or tb != "rowF":
                raise self.err(f"np.hstack of a {ta} and a {tb}", n)
            return f"(np_hstack2 {a} {b})", "rowF"
        if name == "ndindex":
            (s,), _ = self.args(n, env, ["shape"], "np.ndindex")
            return f"(np_ndindex {s})", ("list", T3Z)
        if name == "loadtxt" and self.m.file == "r":
            if len(n.args) != 1 or not isinstance(n.args[0], ast.Name) or env.get(n.args[0].id, (None, None))[1] != "fname":
                raise self.err("np.loadtxt: the file must be the method's file name argument", n)
            kws = self.kw(n, ["delimiter"])
            x = self.fresh()
            self.binds.append((x, f"(wlift (np_loadtxt parse fs {slit(self.strconst(kws['delimiter'], 'delimiter'))}))"))
            return x, "nparr"
        raise self.err("numpy call not accepted: np." + name, n)

    def method_call(self, n, env, name):
        if name not in self.table:
            raise self.err("call of an unknown method self." + name, n)
        callee, cdef = self.table[name]
        if callee.vararg or callee.file or callee.clsmeth:
            raise self.err("call of self." + name + " not accepted", n)
        pnames = [a.arg for a in cdef.args.args[1:]]
        if len(n.args) > len(pnames):
            raise self.err("too many arguments for " + name, n)
        given = dict(zip(pnames, n.args))
        for kw in n.keywords:
            if kw.arg is None or kw.arg not in pnames or kw.arg in given:
                raise self.err("keyword argument not accepted for " + name, n)
            given[kw.arg] = kw.value
        ndef = len(cdef.args.defaults)
        vals = []
        for i, (p, ty) in enumerate(zip(pnames, callee.ptypes)):
            if p in given:
                t, tt_ = self.ex(given[p], env, ty)
                vals.append((t, tt_, ty, given[p]))
            elif i >= len(pnames) - ndef:
                vals.append((f"gen_default_{callee.tag}_{p}", ty, ty, None))
            else:
                raise self.err(f"argument {p} of {name} missing", n)
        out = [self.coerce(t, tt_, ty, node) for t, tt_, ty, node in vals]      # conversions after all arguments
        if callee.ctor:
            head = [callee.coq] + (["fv", "cx"] if self.csv else [])
        else:
            if "self" not in env:
                raise self.err("self is not available here", n)
            head = [callee.coq, env["self"][0]]
        text = "(" + " ".join(head + out) + ")"
        if callee.kind == "pure":
            return text, callee.ret
        x = self.fresh("r")
        if callee.self_w:
            if not self.m.self_w:
                raise self.err("call of a method that stores into self from one that is declared not to", n)
            self.binds.append((f"'(self, {x})", text))
        else:
            self.binds.append((x, text))
        return x, callee.ret

    # ------------------------------------------------------------------ statements
    def ret(self, e, te, node):
        if self.in_join:
            raise self.err("return inside a branch that is joined / inside a loop is not accepted", node)
        (e, binds) = self.sub(lambda: self.coerce(e, te, self.m.ret, node))
        if self.m.file == "w":
            raise self.err("a method that writes the file returns None", node)
        return self.wrap(binds, f"WOk {f'(self, {e})' if self.m.self_w else e}")

    def end(self, env, node):
        """control reaches the end of the method"""
        if self.m.file == "w":
            if "@fs" not in env:
                raise self.err("the file is not written", node)
            return "WOk fs"
        if self.m.ctor:
            missing = [a for a, _ in ATTRS if a not in self.attrs]
            if missing:
                raise self.err("attributes not stored by __init__: " + ", ".join(missing), node)
            return "WOk (LObj " + " ".join(self.attrs[a][0] for a, _ in ATTRS) + ")"
        if self.m.ret != "unit":
            raise self.err("control reaches the end of a method that returns a value", node)
        return self.ret("tt", "unit", node)

    def let(self, env, name, e, te):
        v = vname(name)
        e2 = dict(env)
        e2[name] = (v, te)
        return f"let {v} := {e} in\n", e2

    def blk(self, stmts, env, k):
        if not stmts:
            return k(env)
        s, rest = stmts[0], stmts[1:]

        def R(e):
            return self.blk(rest, e, k)

        if isinstance(s, ast.Pass):
            return R(env)
        if isinstance(s, ast.Expr) and isinstance(s.value, ast.Constant) and isinstance(s.value.value, str):
            return R(env)
        if isinstance(s, ast.Expr) and isinstance(s.value, ast.Call):
            c = s.value
            fsrc = ast.unparse(c.func)
            if fsrc == "warnings.warn" and "warnings" not in env:
                if len(c.args) != 1 or c.keywords or not isinstance(c.args[0], ast.Constant):
                    raise self.err("warnings.warn: one literal message expected", s)
                return f"wbind wwarn (fun _ =>\n{R(env)})"
            if fsrc == "np.savetxt" and self.m.file == "w" and "np" not in env:
                if len(c.args) != 2 or not isinstance(c.args[0], ast.Name) or env.get(c.args[0].id, (None, None))[1] != "fname":
                    raise self.err("np.savetxt: expected (file name argument, data, delimiter=...)", s)
                kws = self.kw(c, ["delimiter"])
                (d, td), binds = self.sub(lambda: self.ex(c.args[1], env))
                if td != "rowF":
                    raise self.err(f"np.savetxt of a {td}", s)
                e2 = dict(env)
                e2["@fs"] = ("fs", "file")
                return self.wrap(binds, f"let fs := np_savetxt fmt {d} {slit(self.strconst(kws['delimiter'], 'delimiter'))} in\n" + R(e2))
            if fsrc.startswith("self.") and isinstance(c.func.value, ast.Name):
                (_, _), binds = self.sub(lambda: self.ex(c, env))
                return self.wrap(binds, R(env))
            raise self.err("statement not accepted: " + ast.unparse(s)[:80], s)
        if isinstance(s, (ast.Assign, ast.AnnAssign)):
            if isinstance(s, ast.Assign):
                if len(s.targets) != 1:
                    raise self.err("multiple assignment targets", s)
                tg = s.targets[0]
            else:
                tg = s.target
                if s.value is None:
                    raise self.err("annotation without value", s)
            return self.assign(tg, s.value, s, env, R)
        if isinstance(s, ast.AugAssign):
            tg = s.target
            if isinstance(tg, ast.Name) and tg.id in env:
                node = ast.BinOp(left=ast.Name(id=tg.id, ctx=ast.Load()), op=s.op, right=s.value)
                ast.copy_location(node, s)
                (e, te), binds = self.sub(lambda: self.ex(node, env))
                if te != env[tg.id][1]:
                    raise self.err("augmented assignment changes the type of the variable", s)
                l, e2 = self.let(env, tg.id, e, te)
                return self.wrap(binds, l + R(e2))
            if ast.unparse(tg) == "self.grid_" and isinstance(s.op, ast.Mult) and "self" in env and self.attrs is None:
                if not self.m.self_w:
                    raise self.err("store into self in a method declared not to store", s)
                (f, tf), binds = self.sub(lambda: self.ex(s.value, env, "V"))
                if tf != self.vt:
                    raise self.err(f"grid *= a {tf}", s)
                sv = env["self"][0]
                return self.wrap(binds, f"let {sv} := set_grid_ {sv} (np_mul_scalar cx (grid_ {sv}) {f}) in\n" + R(env))
            raise self.err("augmented assignment not accepted", s)
        if isinstance(s, ast.Raise):
            if not (isinstance(s.exc, ast.Call) and isinstance(s.exc.func, ast.Name) and s.exc.func.id in EXN and s.cause is None):
                raise self.err("raise of an unexpected exception", s)
            if rest:
                raise self.err("statements after raise", s)
            return f"WErr {s.exc.func.id}"
        if isinstance(s, ast.Return):
            if rest:
                raise self.err("statements after return", s)
            if s.value is None:
                return self.ret("None", "none", s) if self.norm(self.m.ret) != "unit" else self.ret("tt", "unit", s)
            (e, te), binds = self.sub(lambda: self.ex(s.value, env, self.m.ret))
            return self.wrap(binds, self.ret(e, te, s))
        if isinstance(s, ast.If):
            return self.if_(s, rest, env, k)
        if isinstance(s, ast.For):
            return self.for_(s, rest, env, k)
        raise self.err("statement not accepted: " + type(s).__name__, s)

    def assign(self, tg, value, s, env, R):
        if isinstance(tg, ast.Name):
            (e, te), binds = self.sub(lambda: self.ex(value, env))
            if te in ("fname", "none"):
                raise self.err("value cannot be stored in a local", s)
            l, e2 = self.let(env, tg.id, e, te)
            return self.wrap(binds, l + R(e2))
        if isinstance(tg, ast.Tuple) and all(isinstance(e, ast.Name) for e in tg.elts):
            (e, te), binds = self.sub(lambda: self.ex(value, env))
            names = [x.id for x in tg.elts]
            if len(set(names)) != len(names):
                raise self.err("a name occurs twice in the unpacking", s)
            if isinstance(te, tuple) and te[0] == "tup" and len(te[1]) == len(names):
                e2 = dict(env)
                for x, ty in zip(names, te[1]):
                    e2[x] = (vname(x), ty)
                return self.wrap(binds, f"let '({', '.join(vname(x) for x in names)}) := {e} in\n" + R(e2))
            if isinstance(te, tuple) and te[0] == "list" and te[1] is not None:
                e2 = dict(env)
                for x in names:
                    e2[x] = (vname(x), te[1])
                return self.wrap(binds, f"match {e} with\n| [{'; '.join(vname(x) for x in names)}] =>\n" + R(e2)
                                 + "\n| _ => WErr ValueError\nend")
            raise self.err(f"unpacking of a {te}", s)
        if isinstance(tg, ast.Attribute) and isinstance(tg.value, ast.Name):
            o = tg.value.id
            if o == "self" and self.attrs is not None:
                if tg.attr not in ATTR_TY:
                    raise self.err("unknown attribute self." + tg.attr, s)
                w = ATTR_TY[tg.attr]

                def comp():
                    e, te = self.ex(value, env, w)
                    return self.coerce(e, te, w, value)
                e, binds = self.sub(comp)
                v = "a_" + tg.attr
                self.attrs = dict(self.attrs)
                self.attrs[tg.attr] = (v, self.norm(w))
                return self.wrap(binds, f"let {v} := {e} in\n" + R(env))
            if o in env and env[o][1] == "obj" and tg.attr == "grid_":
                if o == "self" and not self.m.self_w:
                    raise self.err("store into self in a method declared not to store", s)
                (e, te), binds = self.sub(lambda: self.ex(value, env))
                if te != "grid":
                    raise self.err(f"a {te} stored into .grid_", s)
                ov = env[o][0]
                return self.wrap(binds, f"let {ov} := set_grid_ {ov} {e} in\n" + R(env))
            raise self.err("attribute store not accepted: " + ast.unparse(tg), s)
        if isinstance(tg, ast.Subscript) and ast.unparse(tg.value) == "self.grid_" and "self" in env and self.attrs is None:
            if not self.m.self_w:
                raise self.err("store into self in a method declared not to store", s)
            sv = env["self"][0]

            def comp():
                i, j, kk = self.index3(tg.slice, env, s)
                e, te = self.ex(value, env, "V")
                return i, j, kk, self.coerce(e, te, "V", value)
            (i, j, kk, e), binds = self.sub(comp)
            x = self.fresh()
            return self.wrap(binds + [(x, f"(wlift (np_set3 (grid_ {sv}) {i} {j} {kk} {e}))")],
                             f"let {sv} := set_grid_ {sv} {x} in\n" + R(env))
        raise self.err("assignment target not accepted: " + ast.unparse(tg)[:60], s)

    def joined(self, stmts, env, names):
        """a branch that falls through, as a value: the variables of `names` after it"""
        self.in_join += 1
        try:
            return self.blk(stmts, env, lambda e: "WOk " + tup([e[x][0] for x in names]))
        finally:
            self.in_join -= 1

    def if_(self, s, rest, env, k):
        body, orelse = s.body, s.orelse
        t = s.test
        # `if not isinstance(x, Lattice3D): raise ...` narrows x
        if isinstance(t, ast.UnaryOp) and isinstance(t.op, ast.Not) and isinstance(t.operand, ast.Call) \
                and isinstance(t.operand.func, ast.Name) and t.operand.func.id == "isinstance" and "isinstance" not in env \
                and len(t.operand.args) == 2 and not t.operand.keywords and isinstance(t.operand.args[0], ast.Name) \
                and isinstance(t.operand.args[1], ast.Name) and t.operand.args[1].id == "Lattice3D" \
                and env.get(t.operand.args[0].id, (None, None))[1] == "pyval" and terminal(body) and not orelse:
            x = t.operand.args[0].id
            a = self.blk(body, env, k)
            e2 = dict(env)
            e2[x] = (vname(x), "obj")
            b = self.blk(rest, e2, k)
            return f"match {env[x][0]} with\n| PNotLattice => {a}\n| PObj {vname(x)} =>\n{b}\nend"
        c, binds = self.sub(lambda: self.truth(t, env))
        if terminal(body) and terminal(orelse):
            if rest:
                raise self.err("statements after an if whose branches both leave the method", s)
            return self.wrap(binds, f"if {c}\nthen {self.blk(body, env, k)}\nelse {self.blk(orelse, env, k)}")
        if terminal(body):
            return self.wrap(binds, f"if {c}\nthen {self.blk(body, env, k)}\nelse\n{self.blk(orelse + rest, env, k)}")
        if terminal(orelse):
            return self.wrap(binds, f"if {c}\nthen\n{self.blk(body + rest, env, k)}\nelse {self.blk(orelse, env, k)}")
        av, bv = assigned(body), assigned(orelse)
        names = [x for x in av + [y for y in bv if y not in av]]
        for x in names:
            if x not in env:
                raise self.err(f"`{x}` is bound in a branch only", s)
        if "self" in names and not self.m.self_w:
            names.remove("self")
        a = self.joined(body, env, names)
        b = self.joined(orelse, env, names)
        return self.wrap(binds + [(pat([env[x][0] for x in names]), f"(if {c}\nthen {a}\nelse {b})")], self.blk(rest, env, k))

    def for_(self, s, rest, env, k):
        if s.orelse:
            raise self.err("for-else not accepted", s)
        (l, tl), binds = self.sub(lambda: self.ex(s.iter, env))
        if not (isinstance(tl, tuple) and tl[0] == "list" and tl[1] is not None):
            raise self.err(f"loop over a {tl}", s)
        ebody = dict(env)
        if isinstance(s.target, ast.Name):
            targets = [s.target.id]
            ebody[s.target.id] = (vname(s.target.id), tl[1])
            xp = f"({vname(s.target.id)} : {self.cty(tl[1])})"
        elif isinstance(s.target, ast.Tuple) and all(isinstance(e, ast.Name) for e in s.target.elts) \
                and isinstance(tl[1], tuple) and tl[1][0] == "tup" and len(tl[1][1]) == len(s.target.elts):
            targets = [e.id for e in s.target.elts]
            if len(set(targets)) != len(targets):
                raise self.err("a name occurs twice in the loop target", s)
            for x, ty in zip(targets, tl[1][1]):
                ebody[x] = (vname(x), ty)
            xp = "'((" + ", ".join(vname(x) for x in targets) + ") : " + self.cty(tl[1]) + ")"
        else:
            raise self.err("loop target not accepted", s)
        asg = assigned(s.body)           # a name first bound inside the body is a local of one iteration
        carried = [x for x in asg if x in env and x not in targets and not (x == "self" and not self.m.self_w)]
        if any(x in asg for x in targets):
            raise self.err("the loop variable is re-bound in the body", s)
        st0 = tup([env[x][0] for x in carried])
        sp = "(_ : unit)" if not carried else f"({env[carried[0]][0]} : {self.cty(env[carried[0]][1])})" if len(carried) == 1 \
            else "'((" + ", ".join(env[x][0] for x in carried) + ") : " + " * ".join(self.cty(env[x][1]) for x in carried) + ")"
        self.in_join += 1
        try:
            btext = self.blk(s.body, ebody, lambda e: "WOk " + tup([e[x][0] for x in carried]))
        finally:
            self.in_join -= 1
        after = self.blk(rest, env, k)
        return self.wrap(binds + [(pat([env[x][0] for x in carried]), f"(wloop (fun {sp} {xp} =>\n{btext}) {l} {st0})")], after)

    # ------------------------------------------------------------------ a whole method
    def method(self):
        f, m = self.f, self.m
        a = f.args
        first = "cls" if m.clsmeth else "self"
        if a.kwarg or a.kwonlyargs or a.posonlyargs or not a.args or a.args[0].arg != first or bool(a.vararg) != m.vararg:
            raise self.err("parameter list shape not accepted", f)
        decos = [ast.unparse(d) for d in f.decorator_list]
        if decos != (["classmethod"] if m.clsmeth else []):
            raise self.err("decorators not accepted: " + repr(decos), f)
        pn = [x.arg for x in a.args[1:]] + ([a.vararg.arg] if m.vararg else [])
        if len(pn) != len(m.ptypes):
            raise self.err(f"expected {len(m.ptypes)} parameters, found {len(pn)}: {pn}", f)
        if len(set(pn)) != len(pn) or "self" in pn:
            raise self.err("parameter names not accepted", f)
        env, hdr = {}, []
        if not m.ctor and not m.clsmeth:
            env["self"] = ("self", "obj")
            hdr.append(f"(self : {self.cty('obj')})")
        if m.file == "r":
            hdr.append("(fs : csvfile tok)")
        for p, ty in zip(pn, m.ptypes):
            env[p] = (vname(p), self.norm(ty))
            if ty != "fname":
                hdr.append(f"({vname(p)} : {self.cty(ty)})")
        if m.ctor:
            self.attrs = {}
        # defaults
        defs = []
        nd = len(a.defaults)
        npos = len(a.args) - 1
        for p, ty, d in zip(pn[npos - nd:npos], m.ptypes[npos - nd:npos], a.defaults):
            (t, tt_), binds = self.sub(lambda d=d, ty=ty: self.ex(d, {}, ty))
            (t, b2) = self.sub(lambda: self.coerce(t, tt_, ty, d))
            if binds or b2:
                raise self.err("default value not accepted", d)
            defs.append(f"(* {p} = {ast.unparse(d)} *)\nDefinition gen_default_{m.tag}_{p} : {self.cty(ty)} := {t}.\n")
        stmts = strip_doc(f.body)
        if m.kind == "pure":
            if not (len(stmts) == 1 and isinstance(stmts[0], ast.Return) and stmts[0].value is not None):
                raise self.err("expected a single `return <expression>`", f)
            (e, te), binds = self.sub(lambda: self.ex(stmts[0].value, env, m.ret))
            if binds or te != self.norm(m.ret):
                raise self.err("the returned expression may raise or has another type than declared", stmts[0])
            rt, body = self.cty(m.ret), e
        else:
            base = "(csvfile tok)" if m.file == "w" else self.cty(m.ret)
            rt = f"(wres ({self.cty('obj')} * {base}))" if m.self_w else f"(wres {base})"
            body = self.blk(stmts, env, lambda e: self.end(e, f))
        if self.csv:
            hdr = ["(tok : Type)", "(fmt : fv -> tok)" if m.file == "w" else "(parse : tok -> fv)", "(cx : npctx fv)"] + hdr
        return "".join(defs) + f"Definition {m.coq} {' '.join(hdr)} : {rt} :=\n{body}.\n"


def generate():
    tree, path = parse(SRC)
    cls = find_class(tree, "Lattice3D")
    table = {}
    for m in METHODS:
        table[m.py] = (m, find_func(cls, m.py))
    out = [HEADER,
           "(* Lattice3D.py (addressing / arithmetic / CSV methods) as written, over Model/LatticeRt.v; see\n"
           "   tools/py2coq/gen_lattice_methods.py for the conventions *)\n"
           "From Coq Require Import List ZArith QArith Qabs Bool String.\n"
           "From SX Require Import Lib.Py Lib.QCheck Model.Lattice Model.LatticeRt.\nImport ListNotations.\n\n"
           "Section Methods.\nVariable V : Type.\nVariable cx : npctx V.\n\n"]
    closed = False
    for m in METHODS:
        if m.group == "csv" and not closed:
            out.append("End Methods.\n\n")
            closed = True
        _, fdef = table[m.py]
        out.append(f"(* ---- {m.py} ---- *)\n" + Tr(m, fdef, table, path).method() + "\n")
    if not closed:
        out.append("End Methods.\n")
    return "".join(out)


def main(outdir):
    return write_if_changed(outdir + "/GenLatticeMethods.v", generate())

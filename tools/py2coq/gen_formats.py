"""Gen/GenFormats.v: the printf formats of the writers (Oscar.print_particle_lists_to_file,
Jetscape.print_particle_lists_to_file) as Coq lists of column formats (`tables` extractor, fail-closed)."""
import ast
from .core import *

OUTPUTS = ["GenFormats"]
SPEC = {"%g": "FG", "%.9g": "FG9", "%d": "FD"}


def fmt_list(s, node, path):
    out = []
    for tok in s.split(" "):
        if tok not in SPEC:
            raise TranslateError(f"format {tok!r} not accepted", node, path)
        out.append(SPEC[tok])
    return "[" + "; ".join(out) + "]"


def generate():
    tree, path = parse("src/sparkx/Oscar.py")
    cls = find_class(tree, "Oscar")
    f = find_func(cls, "print_particle_lists_to_file")
    strs, fmap, ext = {}, None, None
    for n in ast.walk(f):
        if isinstance(n, ast.AnnAssign) and isinstance(n.target, ast.Name) and n.value is not None:
            name = n.target.id
            if name in ("format_oscar2013", "format_oscar2013_extended"):
                v = ast.literal_eval(n.value)
                strs[name] = fmt_list(v, n, path)
            if name == "format_map":
                fmap = ast.literal_eval(n.value)
        if isinstance(n, ast.Assign) and isinstance(n.targets[0], ast.Name) \
                and n.targets[0].id == "format_oscar2013_extended":
            # format_oscar2013_extended + (len(particle_output[0]) - 20) * " %d"
            src = ast.unparse(n.value)
            if src != "format_oscar2013_extended + (len(particle_output[0]) - 20) * ' %d'":
                raise TranslateError("extension of the extended format changed: " + src, n, path)
            ext = "FD"
    if set(strs) != {"format_oscar2013", "format_oscar2013_extended"} or fmap is None or ext is None:
        raise TranslateError("writer formats not recognised", f, path)
    out = [HEADER, "From Coq Require Import List String.\nImport ListNotations.\nLocal Open Scope string_scope.\n",
           "Inductive colfmt := FG | FG9 | FD.\n",
           f"Definition gen_format_oscar2013 : list colfmt := {strs['format_oscar2013']}.\n",
           f"Definition gen_format_extended : list colfmt := {strs['format_oscar2013_extended']}.\n",
           f"Definition gen_format_extension : colfmt := {ext}.\n",
           "Definition gen_format_map : list (string * colfmt) := [" +
           "; ".join(f'("{k}", {SPEC[v]})' for k, v in fmap.items()) + "].\n"]
    tree, path = parse("src/sparkx/Jetscape.py")
    cls = find_class(tree, "Jetscape")
    f = find_func(cls, "print_particle_lists_to_file")
    fmts = set()
    for n in ast.walk(f):
        if isinstance(n, ast.keyword) and n.arg == "fmt":
            fmts.add(ast.literal_eval(n.value))
    if len(fmts) != 1:
        raise TranslateError("Jetscape savetxt formats differ between branches: " + repr(fmts), f, path)
    out.append(f"Definition gen_format_jetscape : list colfmt := {fmt_list(fmts.pop(), f, path)}.\n")
    return "".join(out)


def main(outdir):
    return write_if_changed(outdir + "/GenFormats.v", generate())

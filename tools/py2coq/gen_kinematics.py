"""Gen/GenKinematics.v from src/sparkx/Particle.py (`guardexpr` extractor).

Accepted shape of a kinematic method (anything else aborts, fail-closed):
  a decision tree of if/elif/else whose leaves are `return <expr>`, `raise Cls(...)`, or
  `warnings.warn(...)` followed by a return; local assignments `name = <expr>`,
  `name = [e0, e1, e2]` (3-vector) and `name = [int literals]` (constant list);
  tests built from np.isnan(..), comparisons < > <= >= ==, `self.attr in <constant list>`, and/or/not;
  expressions over self.<attr> (property getters of data_ slots), self.<method>() of another
  translated method, numeric literals, + - * /, `** 2`, unary -, abs/np.abs, np.sqrt, np.log,
  np.arccos, math.atan2, np.nan, np.cross of two local 3-vectors (as the returned value).
Emitted: one Gallina definition per method over `ext` (Lib/ExtReal.v), statements following an
if are pushed into both branches (so the tree is the control flow that exists), plus per method
  guards      attributes whose np.isnan test is an or-operand of the top-level `if ...: return np.nan`
  reads       attributes read anywhere, transitively through self.m() calls
  classifiers attributes that occur only as the left side of `in <constant list>`
"""
import ast
from fractions import Fraction
from .core import *

SRC = "src/sparkx/Particle.py"
OUTPUTS = ["GenKinematics"]
METHODS = ["angular_momentum", "rapidity", "p_abs", "pT_abs", "phi", "theta", "pseudorapidity",
           "spacetime_rapidity", "proper_time", "mass_from_energy_momentum", "mT"]
EXC = {"ValueError", "TypeError", "ZeroDivisionError"}
FUN1 = {("np", "sqrt"): "esqrt", ("np", "log"): "elog", ("np", "arccos"): "eacos", ("np", "abs"): "eabs"}
CMP = {ast.Lt: "elt", ast.Gt: "egt", ast.LtE: "ele", ast.GtE: "ege", ast.Eq: "eeq"}
BIN = {ast.Add: "eadd", ast.Sub: "esub", ast.Mult: "emul", ast.Div: "ediv"}


def is_self_attr(n):
    return isinstance(n, ast.Attribute) and isinstance(n.value, ast.Name) and n.value.id == "self"


def mod_attr(n):
    """np.sqrt -> ('np','sqrt')"""
    if isinstance(n, ast.Attribute) and isinstance(n.value, ast.Name):
        return (n.value.id, n.attr)
    return None


def real_const(v, node, path):
    if isinstance(v, bool) or not isinstance(v, (int, float)):
        raise TranslateError(f"unsupported constant {v!r}", node, path)
    if isinstance(v, float) and (v != v or v in (float("inf"), float("-inf"))):
        raise TranslateError(f"non-finite literal {v!r}", node, path)
    f = Fraction(repr(v))        # the decimal that is written in the source
    n, d = f.numerator, f.denominator
    s = f"{abs(n)}" if d == 1 else f"({abs(n)} / {d})"
    return f"(- {s})" if n < 0 else s


def data_slot(n):
    """self.data_[k] -> k"""
    if isinstance(n, ast.Subscript) and is_self_attr(n.value) and n.value.attr == "data_" \
            and isinstance(n.slice, ast.Constant) and isinstance(n.slice.value, int):
        return n.slice.value
    return None


def getters(cls, path):
    """property getters that return a data_ slot: name -> (slot, kind) with kind 'float' | 'int'"""
    out = {}
    for n in cls.body:
        if not (isinstance(n, ast.FunctionDef) and any(isinstance(d, ast.Name) and d.id == "property"
                                                       for d in n.decorator_list)):
            continue
        body = strip_doc(n.body)
        if len(body) == 1 and isinstance(body[0], ast.Return) and data_slot(body[0].value) is not None:
            out[n.name] = (data_slot(body[0].value), "float")
        elif (len(body) == 2 and isinstance(body[0], ast.If) and not body[0].orelse
              and isinstance(body[0].test, ast.Call) and mod_attr(body[0].test.func) == ("np", "isnan")
              and len(body[0].test.args) == 1 and data_slot(body[0].test.args[0]) is not None
              and len(body[0].body) == 1 and isinstance(body[0].body[0], ast.Return)
              and mod_attr(body[0].body[0].value) == ("np", "nan")
              and isinstance(body[1], ast.Return) and isinstance(body[1].value, ast.Call)
              and isinstance(body[1].value.func, ast.Name) and body[1].value.func.id == "int"
              and len(body[1].value.args) == 1
              and data_slot(body[1].value.args[0]) == data_slot(body[0].test.args[0])):
            out[n.name] = (data_slot(body[0].test.args[0]), "int")
    return out


class Method:
    def __init__(self, name, fn, attrs, path):
        self.name, self.fn, self.attrs, self.path = name, fn, attrs, path
        self.value_reads, self.member_reads, self.calls = [], [], []
        self.guards = None
        self.consts = {}          # name -> [ints]
        self.vec = False
        self.warns = 0
        self.tree = self.block(strip_doc(fn.body), {}, top=True)

    # ---------------------------------------------------------------- expressions
    def attr(self, n, member=False):
        name = n.attr
        if name not in self.attrs:
            raise TranslateError(f"self.{name} is not a data_ slot getter", n, self.path)
        kind = self.attrs[name][1]
        if kind == "int" and not member:
            raise TranslateError(f"int-valued attribute self.{name} used as a number", n, self.path)
        lst = self.member_reads if member else self.value_reads
        if name not in lst:
            lst.append(name)
        return f"(p A_{name})"

    def expr(self, n, env):
        P = self.path
        if isinstance(n, ast.Constant):
            return f"(Fin {real_const(n.value, n, P)})"
        if mod_attr(n) == ("np", "nan"):
            return "NaN"
        if is_self_attr(n):
            return self.attr(n)
        if isinstance(n, ast.Name):
            if n.id in env:
                return env[n.id]
            raise TranslateError(f"unknown name {n.id}", n, P)
        if isinstance(n, ast.UnaryOp) and isinstance(n.op, ast.USub):
            return f"(eneg {self.expr(n.operand, env)})"
        if isinstance(n, ast.BinOp):
            if isinstance(n.op, ast.Pow):
                if isinstance(n.right, ast.Constant) and not isinstance(n.right.value, bool) \
                        and isinstance(n.right.value, (int, float)) and n.right.value == 2:
                    return f"(esqr {self.expr(n.left, env)})"
                raise TranslateError("only `** 2` is accepted", n, P)
            if type(n.op) in BIN:
                return f"({BIN[type(n.op)]} {self.expr(n.left, env)} {self.expr(n.right, env)})"
            raise TranslateError("unsupported operator " + type(n.op).__name__, n, P)
        if isinstance(n, ast.Call) and not n.keywords:
            f = n.func
            if isinstance(f, ast.Name) and f.id == "abs" and len(n.args) == 1:
                return f"(eabs {self.expr(n.args[0], env)})"
            if mod_attr(f) in FUN1 and len(n.args) == 1:
                return f"({FUN1[mod_attr(f)]} {self.expr(n.args[0], env)})"
            if mod_attr(f) == ("math", "atan2") and len(n.args) == 2:
                return f"(eatan2 {self.expr(n.args[0], env)} {self.expr(n.args[1], env)})"
            if is_self_attr(f) and not n.args:
                if f.attr not in METHODS:
                    raise TranslateError(f"call of untranslated method self.{f.attr}()", n, P)
                if f.attr not in self.calls:
                    self.calls.append(f.attr)
                return f"({f.attr} p)"
        raise TranslateError("unsupported expression " + ast.unparse(n)[:60], n, P)

    def test(self, n, env):
        P = self.path
        if isinstance(n, ast.BoolOp):
            op = " || " if isinstance(n.op, ast.Or) else " && "
            return "(" + op.join(self.test(v, env) for v in n.values) + ")"
        if isinstance(n, ast.UnaryOp) and isinstance(n.op, ast.Not):
            return f"(negb {self.test(n.operand, env)})"
        if isinstance(n, ast.Call) and mod_attr(n.func) == ("np", "isnan") and len(n.args) == 1 and not n.keywords:
            return f"(is_nan {self.expr(n.args[0], env)})"
        if isinstance(n, ast.Compare) and len(n.ops) == 1:
            op, l, r = n.ops[0], n.left, n.comparators[0]
            if isinstance(op, ast.In):
                if not (is_self_attr(l) and isinstance(r, ast.Name) and r.id in self.consts):
                    raise TranslateError("`in` is accepted as `self.attr in <constant int list>` only", n, P)
                return f"(ein {self.attr(l, member=True)} {self.name}_{r.id})"
            if type(op) in CMP:
                return f"({CMP[type(op)]} {self.expr(l, env)} {self.expr(r, env)})"
        raise TranslateError("unsupported test " + ast.unparse(n)[:60], n, P)

    # ---------------------------------------------------------------- statements
    def guard_attrs(self, st):
        """`if np.isnan(self.a) or ...: return np.nan` -> [a, ...] (None when the shape differs)"""
        ops = st.test.values if isinstance(st.test, ast.BoolOp) and isinstance(st.test.op, ast.Or) else [st.test]
        names = []
        for o in ops:
            if not (isinstance(o, ast.Call) and mod_attr(o.func) == ("np", "isnan") and len(o.args) == 1
                    and is_self_attr(o.args[0])):
                return None
            names.append(o.args[0].attr)
        if not (len(st.body) == 1 and isinstance(st.body[0], ast.Return) and mod_attr(st.body[0].value) == ("np", "nan")):
            return None
        return names

    def block(self, stmts, env, top=False):
        P = self.path
        if not stmts:
            raise TranslateError(f"{self.name}: control reaches the end of the method without return", self.fn, P)
        st, rest = stmts[0], stmts[1:]
        if isinstance(st, ast.Return):
            if st.value is None:
                raise TranslateError("bare return", st, P)
            v = st.value
            if isinstance(v, ast.Call) and mod_attr(v.func) == ("np", "cross"):
                if not (len(v.args) == 2 and all(isinstance(a, ast.Name) and a.id in env and isinstance(env[a.id], list)
                                                 for a in v.args)):
                    raise TranslateError("np.cross is accepted on two local 3-vectors only", st, P)
                r, q = env[v.args[0].id], env[v.args[1].id]
                self.vec = True
                return ("vec", [f"(esub (emul {r[1]} {q[2]}) (emul {r[2]} {q[1]}))",
                                f"(esub (emul {r[2]} {q[0]}) (emul {r[0]} {q[2]}))",
                                f"(esub (emul {r[0]} {q[1]}) (emul {r[1]} {q[0]}))"])
            return ("leaf", self.expr(v, env))
        if isinstance(st, ast.Raise):
            e = st.exc
            if isinstance(e, ast.Call) and isinstance(e.func, ast.Name) and e.func.id in EXC:
                return ("leaf", f"(Raise {e.func.id})")
            raise TranslateError("unsupported raise", st, P)
        if isinstance(st, ast.Expr) and isinstance(st.value, ast.Call) and mod_attr(st.value.func) == ("warnings", "warn"):
            self.warns += 1
            return self.block(rest, env)
        if isinstance(st, ast.Assign) and len(st.targets) == 1 and isinstance(st.targets[0], ast.Name):
            name, v = st.targets[0].id, st.value
            if isinstance(v, ast.List) and v.elts and all(
                    isinstance(e, ast.Constant) or (isinstance(e, ast.UnaryOp) and isinstance(e.op, ast.USub))
                    for e in v.elts):
                if not top:
                    raise TranslateError("constant list must be assigned at the top of the method", st, P)
                self.consts[name] = [int_const(e, P) for e in v.elts]
                return self.block(rest, env, top=True)
            if isinstance(v, ast.List):
                if len(v.elts) != 3:
                    raise TranslateError("only 3-vectors are accepted", st, P)
                env2 = dict(env)
                env2[name] = [self.expr(e, env) for e in v.elts]
                return self.block(rest, env2)
            env2 = dict(env)
            env2[name] = name
            return ("let", name, self.expr(v, env), self.block(rest, env2))
        if isinstance(st, ast.If):
            if top and self.guards is None:
                g = self.guard_attrs(st)
                self.guards = g if g is not None else []
            c = self.test(st.test, env)
            return ("if", c, self.block(list(st.body) + rest, env), self.block(list(st.orelse) + rest, env))
        raise TranslateError("unsupported statement " + ast.unparse(st)[:60], st, P)


def show(tree, comp, ind):
    pad = " " * ind
    k = tree[0]
    if k == "leaf":
        return pad + tree[1]
    if k == "vec":
        return pad + tree[1][comp]
    if k == "let":
        return f"{pad}(let {tree[1]} := {tree[2]} in\n" + show(tree[3], comp, ind + 1) + ")"
    if k == "if":
        return (f"{pad}(if {tree[1]}\n{pad} then\n" + show(tree[2], comp, ind + 2) + f"\n{pad} else\n"
                + show(tree[3], comp, ind + 2) + ")")
    raise AssertionError(k)


def has_vec(tree):
    k = tree[0]
    if k == "vec":
        return True
    if k == "let":
        return has_vec(tree[3])
    if k == "if":
        return has_vec(tree[2]) or has_vec(tree[3])
    return False


def generate():
    tree, path = parse(SRC)
    cls = find_class(tree, "Particle")
    attrs = getters(cls, path)
    if not attrs:
        raise TranslateError("no data_ slot getters found in class Particle")
    ms = {name: Method(name, find_func(cls, name), attrs, path) for name in METHODS}
    # call graph: scalar callees only, no recursion; definition order = dependencies first
    order, state = [], {}

    def visit(n, stack):
        if state.get(n) == 2:
            return
        if state.get(n) == 1:
            raise TranslateError("recursive method calls: " + " -> ".join(stack + [n]))
        state[n] = 1
        for c in ms[n].calls:
            if ms[c].vec:
                raise TranslateError(f"{n} calls the vector-valued method {c}")
            visit(c, stack + [n])
        state[n] = 2
        order.append(n)
    for n in METHODS:
        visit(n, [])

    def closure(n, field):
        out = list(getattr(ms[n], field))
        for c in ms[n].calls:
            for a in closure(c, field):
                if a not in out:
                    out.append(a)
        return out

    names = sorted(attrs, key=lambda a: attrs[a][0])
    o = [HEADER,
         "(* source: src/sparkx/Particle.py - kinematic methods, `guardexpr` shape; see tools/py2coq/gen_kinematics.py *)\n",
         "From Coq Require Import Reals List Bool ZArith.\nFrom SX Require Import Lib.RealAux Lib.ExtReal.\n",
         "Import ListNotations.\nLocal Open Scope R_scope.\n\n",
         "(* the property getters of Particle that return a data_ slot *)\n",
         "Inductive attr := " + " | ".join("A_" + a for a in names) + ".\n",
         "Scheme Equality for attr.\n",
         "Definition slot (a : attr) : nat :=\n  match a with " + " | ".join(f"A_{a} => {attrs[a][0]}%nat" for a in names) + " end.\n",
         "(* getters of the form `nan if unset else int(slot)` *)\n",
         "Definition int_valued (a : attr) : bool :=\n  match a with " + " | ".join(
             f"A_{a} => {'true' if attrs[a][1] == 'int' else 'false'}" for a in names) + " end.\n",
         "(* a particle as seen by the methods: the value each getter returns (NaN = unset) *)\n",
         "Definition prec := attr -> ext.\n\n"]
    units = []      # (coq name, method name)
    for n in order:
        m = ms[n]
        for cname, vals in m.consts.items():
            o.append(f"Definition {n}_{cname} : list Z := [" + "; ".join(str(v) if v >= 0 else f"({v})" for v in vals) + "]%Z.\n")
        if m.vec:
            for c in range(3):
                o.append(f"Definition {n}_{c} (p : prec) : ext :=\n" + show(m.tree, c, 2) + ".\n\n")
                units.append((f"{n}_{c}", n))
        else:
            if has_vec(m.tree):
                raise AssertionError
            o.append(f"Definition {n} (p : prec) : ext :=\n" + show(m.tree, 0, 2) + ".\n\n")
            units.append((n, n))
    units.sort(key=lambda u: (METHODS.index(u[1]), u[0]))
    o.append("Inductive method := " + " | ".join("M_" + u for u, _ in units) + ".\n")
    o.append("Definition all_methods : list method := [" + "; ".join("M_" + u for u, _ in units) + "].\n")
    o.append("Definition run (m : method) : prec -> ext :=\n  match m with\n" + "".join(
        f"  | M_{u} => {u}\n" for u, _ in units) + "  end.\n")

    def table(title, f):
        return (f"Definition {title} (m : method) : list attr :=\n  match m with\n" + "".join(
            f"  | M_{u} => [" + "; ".join("A_" + a for a in f(n)) + "]\n" for u, n in units) + "  end.\n")
    o.append("(* attributes tested by np.isnan in the leading `if ...: return np.nan` *)\n")
    o.append(table("guards", lambda n: ms[n].guards or []))
    o.append("(* attributes read, transitively through self.m() calls *)\n")
    o.append(table("reads", lambda n: [a for a in names if a in closure(n, "value_reads") or a in closure(n, "member_reads")]))
    o.append("(* attributes that are only tested for membership in a constant list *)\n")
    o.append(table("classifiers", lambda n: [a for a in names if a in closure(n, "member_reads")
                                             and a not in closure(n, "value_reads")]))
    o.append("(* number of warnings.warn statements on the paths of the method (they do not alter the value) *)\n")
    o.append("Definition warn_sites (m : method) : nat :=\n  match m with\n" + "".join(
        f"  | M_{u} => {ms[n].warns}%nat\n" for u, n in units) + "  end.\n")
    return "".join(o)


def main(outdir):
    return write_if_changed(outdir + "/GenKinematics.v", generate())


def analyse():
    """per method: guards / reads (transitive) / classifiers / vector-valued, as the generator sees them"""
    tree, path = parse(SRC)
    cls = find_class(tree, "Particle")
    attrs = getters(cls, path)
    ms = {name: Method(name, find_func(cls, name), attrs, path) for name in METHODS}

    def closure(n, field, seen=()):
        out = list(getattr(ms[n], field))
        for c in ms[n].calls:
            if c in seen:
                raise TranslateError("recursive method calls")
            for a in closure(c, field, seen + (n,)):
                if a not in out:
                    out.append(a)
        return out
    names = sorted(attrs, key=lambda a: attrs[a][0])
    out = {}
    for n in METHODS:
        vr, mr = closure(n, "value_reads"), closure(n, "member_reads")
        out[n] = {"guards": list(ms[n].guards or []),
                  "reads": [a for a in names if a in vr or a in mr],
                  "classifiers": [a for a in names if a in mr and a not in vr],
                  "vec": ms[n].vec}
    return out, {a: attrs[a] for a in names}

"""`filters` / `tables` extractor core: a fail-closed translator of the Python fragment in which sparkx'
Filter.py and the loaders' `__apply_kwargs_filters` are written, into Gallina over Model/PyRt.v.

Everything is translated *as written*: statements in order, loop-carried variables threaded through
`fold_leftM` (a variable assigned in a loop body and read after the loop is loop state, initially unbound),
conditions with Python's evaluation order and short-circuit, exceptions as `Err cls`.
Any node outside the accepted grammar raises TranslateError with the source location.

Types of the fragment: PL (list of events), EV (list of particles), P (particle), V (Python value: argument,
number, str, list/tuple/array/dict of values), MSG (warning text, opaque).
"""
import ast
from fractions import Fraction
from .core import TranslateError

PL, EV, P, V, MSG = "PL", "EV", "P", "V", "MSG"
COQ_TY = {PL: "plist", EV: "pevent", P: "pobs", V: "pyv", MSG: "unit"}
EXN = {"TypeError", "ValueError", "IndexError", "KeyError", "AttributeError", "ZeroDivisionError",
       "OverflowError", "NotImplementedError"}
ISINSTANCE = {"str": "T_str", "int": "T_int", "float": "T_float", "list": "T_list", "tuple": "T_tuple",
              "dict": "T_dict", "np.integer": "T_np_integer", "np.ndarray": "T_np_ndarray", "bool": "T_bool"}
COQ_KEYWORDS = {"as", "at", "cofix", "else", "end", "exists", "exists2", "fix", "for", "forall", "fun", "if", "IF",
                "in", "let", "match", "mod", "Prop", "return", "Set", "then", "Type", "using", "where", "with",
                "event", "plist", "pevent", "pobs", "pyv", "obs", "pid", "bind", "result", "Ok", "Err", "list",
                "nat", "bool", "true", "false", "tt", "unit", "Some", "None", "option", "length", "map", "seq"}


def cname(py):
    n = py.lstrip("_")
    if not n or n in COQ_KEYWORDS or not n.replace("_", "a").isalnum():
        n = n + "_"
    return n


def qlit(x):
    f = Fraction(x)
    n, d = f.numerator, f.denominator
    return f"({n} # {d})" if n >= 0 else f"(({n}) # {d})"


def zlit(x):
    return f"{x}" if x >= 0 else f"({x})"


def slit(s):
    if any(ord(c) > 126 or ord(c) < 32 for c in s):
        raise TranslateError("non-printable string literal")
    return '"' + s.replace('"', '""') + '"%string'


class Var:
    def __init__(self, name, ty, opt=False):
        self.name, self.ty, self.opt = name, ty, opt

    def __repr__(self):
        return f"Var({self.name},{self.ty},{'opt' if self.opt else 'bound'})"


class FuncSig:
    def __init__(self, pyname, coqname, params, defaults, ret):
        self.pyname, self.coqname, self.params, self.defaults, self.ret = pyname, coqname, params, defaults, ret


def particle_accessors(particle_tree, path):
    """{'charge': 'A_charge', 'pT_abs': 'M_pT_abs', ...} from class Particle (properties / zero-argument methods)"""
    cls = [n for n in particle_tree.body if isinstance(n, ast.ClassDef) and n.name == "Particle"]
    if not cls:
        raise TranslateError("class Particle not found", None, path)
    props, meths = set(), set()
    for f in cls[0].body:
        if not isinstance(f, ast.FunctionDef):
            continue
        decos = [ast.unparse(d) for d in f.decorator_list]
        if "property" in decos:
            props.add(f.name)
        elif not decos and len(f.args.args) == 1 and not f.name.startswith("_"):
            meths.add(f.name)
    return props, meths


ACC_KNOWN = {"A_" + n for n in ("t x y z mass E px py pz pdg ID charge ncoll form_time xsecfac proc_id_origin "
                                 "proc_type_origin t_last_coll pdg_mother1 pdg_mother2 status baryon_number "
                                 "strangeness weight").split()} | \
            {"M_" + n for n in ("rapidity p_abs pT_abs phi theta pseudorapidity spacetime_rapidity proper_time mT "
                                 "is_quark is_lepton is_meson is_baryon is_hadron is_heavy_flavor has_down has_up "
                                 "has_strange has_charm has_bottom has_top").split()}


# --------------------------------------------------------------------------------------- analyses
def _comp_locals(node):
    out = set()
    for n in ast.walk(node):
        if isinstance(n, (ast.ListComp, ast.GeneratorExp)):
            for g in n.generators:
                for t in ast.walk(g.target):
                    if isinstance(t, ast.Name):
                        out.add(t.id)
    return out


def loads(nodes):
    """names read anywhere in the statements/expressions (over-approximation; receivers of .append count);
    names bound by a comprehension are local to it"""
    out = set()

    def walk(n):
        if isinstance(n, (ast.ListComp, ast.GeneratorExp, ast.SetComp, ast.DictComp)):
            local = set()
            inner = set()
            for i, g in enumerate(n.generators):
                it = loads(g.iter)
                if i == 0:
                    out.update(it)
                else:
                    inner |= it
                for t in ast.walk(g.target):
                    if isinstance(t, ast.Name):
                        local.add(t.id)
                for c in g.ifs:
                    inner |= loads(c)
            if isinstance(n, ast.DictComp):
                inner |= loads(n.key) | loads(n.value)
            else:
                inner |= loads(n.elt)
            out.update(inner - local)
            return
        if isinstance(n, ast.Name) and isinstance(n.ctx, ast.Load):
            out.add(n.id)
        for c in ast.iter_child_nodes(n):
            walk(c)
    for node in (nodes if isinstance(nodes, list) else [nodes]):
        walk(node)
    return out


def _target_names(t):
    if isinstance(t, ast.Name):
        return {t.id}
    if isinstance(t, ast.Tuple):
        s = set()
        for e in t.elts:
            s |= _target_names(e)
        return s
    if isinstance(t, ast.Subscript) and isinstance(t.value, ast.Name):
        return {t.value.id}
    raise TranslateError("assignment target not accepted: " + ast.dump(t)[:60], t)


def _append_receiver(st):
    if (isinstance(st, ast.Expr) and isinstance(st.value, ast.Call) and isinstance(st.value.func, ast.Attribute)
            and st.value.func.attr == "append" and isinstance(st.value.func.value, ast.Name)):
        return st.value.func.value.id
    return None


def assigned(stmts):
    out = set()
    for st in stmts:
        if isinstance(st, ast.Assign):
            for t in st.targets:
                out |= _target_names(t)
        elif isinstance(st, ast.If):
            out |= assigned(st.body) | assigned(st.orelse)
        elif isinstance(st, ast.For):
            out |= _target_names(st.target) | assigned(st.body)
        elif _append_receiver(st):
            out.add(_append_receiver(st))
    return out


def terminates(stmts):
    if not stmts:
        return False
    last = stmts[-1]
    if isinstance(last, (ast.Return, ast.Raise)):
        return True
    if isinstance(last, ast.If):
        return terminates(last.body) and terminates(last.orelse)
    return False


def ube(stmts, defined):
    """(names possibly read before being definitely assigned in this block, names definitely assigned at its end)"""
    used = set()
    defined = set(defined)
    for st in stmts:
        if isinstance(st, ast.Assign):
            used |= loads(st.value) - defined
            for t in st.targets:
                if isinstance(t, ast.Subscript):
                    used |= loads(t) - defined
                else:
                    defined |= _target_names(t)
        elif isinstance(st, ast.If):
            used |= loads(st.test) - defined
            u1, d1 = ube(st.body, defined)
            u2, d2 = ube(st.orelse, defined)
            used |= u1 | u2
            if terminates(st.body) and terminates(st.orelse):
                return used, defined | d1 | d2
            if terminates(st.body):
                defined = d2
            elif terminates(st.orelse):
                defined = d1
            else:
                defined = d1 & d2
        elif isinstance(st, ast.For):
            used |= loads(st.iter) - defined
            u1, _ = ube(st.body, defined | _target_names(st.target))
            used |= u1
        else:
            used |= loads(st) - defined
    return used, defined


# --------------------------------------------------------------------------------------- translator
class Translator:
    def __init__(self, path, sigs, props, meths, list_hints=None):
        self.path, self.sigs, self.props, self.meths = path, sigs, props, meths
        self.n = 0
        self.list_hints = list_hints if list_hints is not None else {}
        self.hint_changed = False

    def err(self, msg, node):
        raise TranslateError(msg, node, self.path)

    def fresh(self, base="v"):
        self.n += 1
        return f"{base}{self.n}_"

    # ---- monadic plumbing: a translated expression is (term, mon); mon => term : result T
    def lift(self, parts, f):
        """parts: [(term, mon)]; f(pure_terms) -> (term, mon).  Binds the monadic parts left to right."""
        names, binds = [], []
        for term, mon in parts:
            if mon:
                v = self.fresh()
                binds.append((v, term))
                names.append(v)
            else:
                names.append(term)
        inner, imon = f(names)
        if not binds:
            return inner, imon
        if not imon:
            inner = f"Ok {inner}"
        for v, term in reversed(binds):
            inner = f"({v} <- {term} ;; {inner})"
        return inner, True

    @staticmethod
    def m(t):
        term, mon = t
        return term if mon else f"(Ok {term})"

    # ---- expressions
    def const(self, node):
        v = node.value
        if v is None:
            return "VNone"
        if isinstance(v, bool):
            return f"(VBool {'true' if v else 'false'})"
        if isinstance(v, int):
            return f"(VInt {zlit(v)})"
        if isinstance(v, float):
            if v != v:
                return "(VFloat NaN)"
            if v in (float("inf"), float("-inf")):
                return "(VFloat PInf)" if v > 0 else "(VFloat NInf)"
            return f"(VFloat (Fin {qlit(v)}))"
        if isinstance(v, str):
            return f"(VStr {slit(v)})"
        self.err("constant not accepted: " + repr(v), node)

    def is_msg(self, node):
        """a warning/exception text: string constant, concatenation of texts, or "...".format(...)"""
        if isinstance(node, ast.Constant) and isinstance(node.value, str):
            return True
        if isinstance(node, ast.BinOp) and isinstance(node.op, ast.Add):
            return self.is_msg(node.left) and self.is_msg(node.right)
        if (isinstance(node, ast.Call) and isinstance(node.func, ast.Attribute) and node.func.attr == "format"
                and self.is_msg(node.func.value)):
            return True
        return False

    def E(self, node, env):
        """-> (term, ty, mon)"""
        if isinstance(node, ast.Constant):
            return self.const(node), V, False
        if isinstance(node, ast.Name):
            if node.id not in env:
                self.err(f"name {node.id} is not bound here", node)
            v = env[node.id]
            if v.opt:
                return f"(py_unbound {v.name})", v.ty, True
            return v.name, v.ty, False
        if isinstance(node, ast.UnaryOp) and isinstance(node.op, ast.USub):
            if isinstance(node.operand, ast.Constant) and isinstance(node.operand.value, (int, float)) \
                    and not isinstance(node.operand.value, bool):
                return self.const(ast.Constant(value=-node.operand.value)), V, False
            t, ty, mon = self.E(node.operand, env)
            if ty != V:
                self.err("unary minus on a non-value", node)
            term, mon = self.lift([(t, mon)], lambda a: (f"(py_neg {a[0]})", True))
            return term, V, mon
        if isinstance(node, (ast.Tuple, ast.List)):
            if isinstance(node, ast.List) and len(node.elts) == 1 and isinstance(node.elts[0], ast.List) \
                    and not node.elts[0].elts:
                return "[[]]", PL, False
            if isinstance(node, ast.List) and len(node.elts) == 1:
                t, ty, mon = self.E(node.elts[0], env)
                if ty == EV:      # [event]
                    term, mon = self.lift([(t, mon)], lambda a: (f"[{a[0]}]", False))
                    return term, PL, mon
            if not node.elts and isinstance(node, ast.List):
                self.err("empty list literal outside an assignment", node)
            parts = []
            for e in node.elts:
                t, ty, mon = self.E(e, env)
                if ty != V:
                    self.err("sequence literal of non-values", node)
                parts.append((t, mon))
            ctor = "VTuple" if isinstance(node, ast.Tuple) else "VList"
            term, mon = self.lift(parts, lambda a: (f"({ctor} [{'; '.join(a)}])", False))
            return term, V, mon
        if isinstance(node, ast.Attribute):
            if isinstance(node.value, ast.Name) and node.value.id in env and env[node.value.id].ty == P:
                if node.attr not in self.props:
                    self.err(f"Particle has no property {node.attr} (a method must be called)", node)
                a = "A_" + node.attr
                if a not in ACC_KNOWN:
                    self.err(f"accessor {a} is not part of the observation record", node)
                pt, _, pmon = self.E(node.value, env)
                term, mon = self.lift([(pt, pmon)], lambda x: (f"(get_obs {x[0]} {a})", True))
                return term, V, mon
            self.err("attribute access not accepted: " + ast.unparse(node), node)
        if isinstance(node, ast.Subscript):
            bt, bty, bmon = self.E(node.value, env)
            it, ity, imon = self.E(node.slice, env)
            if ity != V:
                self.err("index is not a value", node)
            if bty == PL or bty == EV:
                term, mon = self.lift([(bt, bmon), (it, imon)], lambda a: (f"(seq_get {a[0]} {a[1]})", True))
                return term, (EV if bty == PL else P), mon
            if bty == V:
                term, mon = self.lift([(bt, bmon), (it, imon)], lambda a: (f"(py_getitem {a[0]} {a[1]})", True))
                return term, V, mon
            self.err("subscript of this type not accepted", node)
        if isinstance(node, ast.ListComp):
            return self.listcomp(node, env)
        if isinstance(node, ast.Call):
            return self.call(node, env)
        self.err("expression not accepted: " + type(node).__name__ + " " + ast.unparse(node)[:60], node)

    def iter_of(self, node, env):
        """iterable expression -> (items_term, mon, element type or ('pair', V, EV))"""
        if isinstance(node, ast.Call) and isinstance(node.func, ast.Name) and node.func.id == "range":
            if node.keywords or len(node.args) not in (1, 2):
                self.err("range with step/keywords not accepted", node)
            args = [ast.Constant(value=0)] + node.args if len(node.args) == 1 else node.args
            parts = []
            for a in args:
                t, ty, mon = self.E(a, env)
                if ty != V:
                    self.err("range bound is not a value", node)
                parts.append((t, mon))
            term, mon = self.lift(parts, lambda a: (f"(py_range {a[0]} {a[1]})", True))
            return term, mon, V
        if isinstance(node, ast.Call) and isinstance(node.func, ast.Name) and node.func.id == "enumerate":
            if node.keywords or len(node.args) != 1:
                self.err("enumerate(x) only", node)
            t, ty, mon = self.E(node.args[0], env)
            if ty != PL:
                self.err("enumerate over a non-event-list", node)
            term, mon = self.lift([(t, mon)], lambda a: (f"(py_enumerate {a[0]})", False))
            return term, mon, ("pair", V, EV)
        t, ty, mon = self.E(node, env)
        if ty == PL:
            return t, mon, EV
        if ty == EV:
            return t, mon, P
        if ty == V:
            term, mon = self.lift([(t, mon)], lambda a: (f"(py_iter {a[0]})", True))
            return term, mon, V
        self.err("iteration over this type not accepted", node)

    def bind_target(self, target, elty, env):
        """-> (binder text, new env)"""
        env = dict(env)
        if isinstance(target, ast.Name):
            if isinstance(elty, tuple):
                self.err("tuple element bound to a single name", target)
            n = cname(target.id)
            env[target.id] = Var(n, elty)
            return n, env
        if isinstance(target, ast.Tuple) and isinstance(elty, tuple) and len(target.elts) == 2 \
                and all(isinstance(e, ast.Name) for e in target.elts):
            a, b = cname(target.elts[0].id), cname(target.elts[1].id)
            env[target.elts[0].id] = Var(a, elty[1])
            env[target.elts[1].id] = Var(b, elty[2])
            return f"'({a}, {b})", env
        self.err("loop target not accepted", target)

    def one_generator(self, node):
        if len(node.generators) != 1 or node.generators[0].is_async:
            self.err("exactly one generator expected", node)
        return node.generators[0]

    def listcomp(self, node, env):
        g = self.one_generator(node)
        items, imon, elty = self.iter_of(g.iter, env)
        binder, env2 = self.bind_target(g.target, elty, env)
        if elty == P:
            # [elem for elem in <event> if cond]
            if not (isinstance(node.elt, ast.Name) and isinstance(g.target, ast.Name)
                    and node.elt.id == g.target.id):
                self.err("comprehension over particles must yield the particle itself", node)
            if len(g.ifs) == 0:
                term, mon = self.lift([(items, imon)], lambda a: (a[0], False))
                return term, EV, mon
            cond = self.conj(g.ifs, env2)
            term, mon = self.lift([(items, imon)],
                                  lambda a: (f"(filterM (fun {binder} => {self.m(cond)}) {a[0]})", True))
            return term, EV, mon
        if elty == V and not g.ifs:
            et, ety, emon = self.E(node.elt, env2)
            if ety == EV:
                term, mon = self.lift([(items, imon)],
                                      lambda a: (f"(mapM (fun {binder} => {self.m((et, emon))}) {a[0]})", True))
                return term, PL, mon
        self.err("list comprehension shape not accepted", node)

    def conj(self, tests, env):
        if len(tests) == 1:
            return self.C(tests[0], env)
        return self.C(ast.BoolOp(op=ast.And(), values=list(tests)), env)

    def args_of(self, node, sig, env):
        """positional/keyword arguments matched against the callee's signature -> [(term, mon)]"""
        given = {}
        if len(node.args) > len(sig.params):
            self.err("too many arguments", node)
        for (pn, pty), a in zip(sig.params, node.args):
            given[pn] = a
        for kw in node.keywords:
            if kw.arg is None or kw.arg in given or kw.arg not in [p for p, _ in sig.params]:
                self.err("keyword argument not accepted", node)
            given[kw.arg] = kw.value
        parts = []
        for pn, pty in sig.params:
            if pn in given:
                t, ty, mon = self.E(given[pn], env)
                if ty != pty:
                    self.err(f"argument {pn} of {sig.pyname}: type {ty}, expected {pty}", node)
                parts.append((t, mon))
            elif pn in sig.defaults:
                parts.append((sig.defaults[pn], False))
            else:
                self.err(f"missing argument {pn}", node)
        return parts

    def call(self, node, env):
        f = node.func
        fn = ast.unparse(f)
        if isinstance(f, ast.Attribute) and isinstance(f.value, ast.Name) and f.value.id in env \
                and env[f.value.id].ty == P:
            if f.attr not in self.meths or node.args or node.keywords:
                self.err(f"Particle has no zero-argument method {f.attr}", node)
            a = "M_" + f.attr
            if a not in ACC_KNOWN:
                self.err(f"accessor {a} is not part of the observation record", node)
            pt, _, pmon = self.E(f.value, env)
            term, mon = self.lift([(pt, pmon)], lambda x: (f"(get_obs {x[0]} {a})", True))
            return term, V, mon
        if fn in self.sigs:
            sig = self.sigs[fn]
            parts = self.args_of(node, sig, env)
            term, mon = self.lift(parts, lambda a: (f"({sig.coqname} {' '.join(a)})", True))
            return term, sig.ret, mon
        if node.keywords and fn != "np.asarray":
            self.err("keyword arguments not accepted in " + fn, node)

        def unary(coqf, want=V, ret=V, mon_result=True):
            if len(node.args) != 1:
                self.err(fn + " takes one argument here", node)
            t, ty, mon = self.E(node.args[0], env)
            if ty != want:
                self.err(f"{fn}: argument type {ty}", node)
            term, mon2 = self.lift([(t, mon)], lambda a: (f"({coqf} {a[0]})", mon_result))
            return term, ret, mon2

        if fn == "len":
            if len(node.args) != 1:
                self.err("len takes one argument", node)
            t, ty, mon = self.E(node.args[0], env)
            if ty in (PL, EV):
                term, mon2 = self.lift([(t, mon)], lambda a: (f"(vlen {a[0]})", False))
                return term, V, mon2
            return unary("py_len")
        if fn == "int":
            return unary("py_int")
        if fn == "np.abs":
            return unary("py_abs")
        if fn == "float":
            if len(node.args) == 1 and isinstance(node.args[0], ast.Constant) and node.args[0].value in ("inf", "-inf"):
                return ("(VFloat PInf)" if node.args[0].value == "inf" else "(VFloat NInf)"), V, False
            self.err('float(...) accepted only as float("inf") / float("-inf")', node)
        if fn in ("max", "min"):
            if len(node.args) != 2:
                self.err(fn + " takes two arguments here", node)
            parts = []
            for a in node.args:
                t, ty, mon = self.E(a, env)
                if ty != V:
                    self.err(fn + " of non-values", node)
                parts.append((t, mon))
            term, mon = self.lift(parts, lambda a: (f"(py_{fn}2 {a[0]} {a[1]})", True))
            return term, V, mon
        if fn == "np.asarray":
            if len(node.args) == 1 and len(node.keywords) == 1 and node.keywords[0].arg == "dtype" \
                    and ast.unparse(node.keywords[0].value) == "np.int64":
                return unary("py_asarray_int64")
            self.err("np.asarray accepted only with dtype=np.int64", node)
        if fn == "sum":
            if len(node.args) != 1 or not isinstance(node.args[0], ast.GeneratorExp):
                self.err("sum accepted only over a generator expression", node)
            ge = node.args[0]
            g = self.one_generator(ge)
            items, imon, elty = self.iter_of(g.iter, env)
            binder, env2 = self.bind_target(g.target, elty, env)
            et, ety, emon = self.E(ge.elt, env2)
            if ety != V:
                self.err("sum of non-values", node)
            acc = self.fresh("acc")
            add = self.lift([(et, emon)], lambda a: (f"(py_add {acc} {a[0]})", True))[0]
            if g.ifs:
                cond = self.conj(g.ifs, env2)
                body = self.lift([cond], lambda a: (f"(if {a[0]} then {add} else Ok {acc})", True))[0]
            else:
                body = add
            term, mon = self.lift([(items, imon)],
                                  lambda a: (f"(fold_leftM (fun {acc} {binder} => {body}) {a[0]} (VInt 0))", True))
            return term, V, mon
        if isinstance(f, ast.Attribute) and f.attr == "keys" and not node.args:
            t, ty, mon = self.E(f.value, env)
            if ty != V:
                self.err(".keys() of a non-value", node)
            term, mon = self.lift([(t, mon)], lambda a: (f"(py_keys {a[0]})", True))
            return term, V, mon
        if self.is_msg(node):
            return "tt", MSG, False
        self.err("call not accepted: " + fn, node)

    # ---- conditions: (term, mon) with term : bool / result bool
    CMP = {ast.LtE: "py_le", ast.Lt: "py_lt", ast.GtE: "py_ge", ast.Gt: "py_gt", ast.Eq: "py_eq", ast.NotEq: "py_ne",
           ast.In: "py_in", ast.NotIn: "py_not_in"}

    def C(self, node, env):
        if isinstance(node, ast.BoolOp):
            parts = [self.C(v, env) for v in node.values]
            pure = all(not mon for _, mon in parts)
            if isinstance(node.op, ast.And):
                if pure:
                    return "(" + " && ".join(t for t, _ in parts) + ")", False
                term = self.m(parts[-1])
                for p in reversed(parts[:-1]):
                    term = f"(andM {self.m(p)} {term})"
                return term, True
            if pure:
                return "(" + " || ".join(t for t, _ in parts) + ")", False
            term = self.m(parts[-1])
            for p in reversed(parts[:-1]):
                term = f"(orM {self.m(p)} {term})"
            return term, True
        if isinstance(node, ast.UnaryOp) and isinstance(node.op, ast.Not):
            t, mon = self.C(node.operand, env)
            return (f"(notM {t})", True) if mon else (f"(negb {t})", False)
        if isinstance(node, ast.Compare):
            return self.compare(node, env)
        if isinstance(node, ast.Call):
            fn = ast.unparse(node.func)
            if fn == "isinstance":
                if len(node.args) != 2 or node.keywords:
                    self.err("isinstance(x, types)", node)
                t, ty, mon = self.E(node.args[0], env)
                if ty != V:
                    self.err("isinstance of a non-value", node)
                tys = node.args[1].elts if isinstance(node.args[1], ast.Tuple) else [node.args[1]]
                names = []
                for x in tys:
                    s = ast.unparse(x)
                    if s not in ISINSTANCE:
                        self.err("isinstance type not accepted: " + s, node)
                    names.append(ISINSTANCE[s])
                return self.lift([(t, mon)], lambda a: (f"(py_isinstance {a[0]} [{'; '.join(names)}])", False))
            if fn == "np.isnan":
                if len(node.args) != 1 or node.keywords:
                    self.err("np.isnan(x)", node)
                t, ty, mon = self.E(node.args[0], env)
                if ty != V:
                    self.err("np.isnan of a non-value", node)
                return self.lift([(t, mon)], lambda a: (f"(py_isnan {a[0]})", True))
            if (isinstance(node.func, ast.Attribute) and node.func.attr == "any" and not node.args
                    and isinstance(node.func.value, ast.Call) and ast.unparse(node.func.value.func) == "np.isnan"
                    and len(node.func.value.args) == 1):
                t, ty, mon = self.E(node.func.value.args[0], env)
                if ty != V:
                    self.err("np.isnan(..).any() of a non-value", node)
                return self.lift([(t, mon)], lambda a: (f"(py_isnan_any {a[0]})", True))
            if fn == "any":
                if len(node.args) != 1 or not isinstance(node.args[0], ast.GeneratorExp) or node.args[0].generators[0].ifs:
                    self.err("any accepted only over a generator expression without filter", node)
                ge = node.args[0]
                g = self.one_generator(ge)
                items, imon, elty = self.iter_of(g.iter, env)
                binder, env2 = self.bind_target(g.target, elty, env)
                cond = self.C(ge.elt, env2)
                return self.lift([(items, imon)],
                                 lambda a: (f"(existsM (fun {binder} => {self.m(cond)}) {a[0]})", True))
        # anything else: truthiness of the value
        t, ty, mon = self.E(node, env)
        if ty != V:
            self.err("truth value of a non-value", node)
        return self.lift([(t, mon)], lambda a: (f"(py_truthy {a[0]})", True))

    def compare(self, node, env):
        lt, lty, lmon = self.E(node.left, env)

        def chain(left, ops, comps):
            op, comp = ops[0], comps[0]
            if isinstance(op, (ast.Is, ast.IsNot)):
                if not (isinstance(comp, ast.Constant) and comp.value is None) or len(ops) > 1:
                    self.err("`is` accepted only against None", node)
                return (f"(py_is_none {left})" if isinstance(op, ast.Is) else f"(negb (py_is_none {left}))"), False
            if type(op) not in self.CMP:
                self.err("comparison operator not accepted", node)
            ct, cty, cmon = self.E(comp, env)
            if cty != V:
                self.err("comparison of a non-value", node)

            def k(a):
                first = f"({self.CMP[type(op)]} {left} {a[0]})"
                if len(ops) == 1:
                    return first, True
                rest = chain(a[0], ops[1:], comps[1:])
                return f"(andM {first} {self.m(rest)})", True
            return self.lift([(ct, cmon)], k)
        if lty != V:
            self.err("comparison of a non-value", node)
        return self.lift([(lt, lmon)], lambda a: chain(a[0], node.ops, node.comparators))

    # ---- statements.  k(env) -> term of the function's result type (result T); live: names read afterwards
    def S(self, stmts, env, k, live, in_loop=False):
        if not stmts:
            return k(env)
        st, rest = stmts[0], stmts[1:]
        live_after = loads(rest) | live

        def cont(env2):
            return self.S(rest, env2, k, live, in_loop)

        if isinstance(st, ast.Expr) and isinstance(st.value, ast.Constant) and isinstance(st.value.value, str):
            return cont(env)
        if isinstance(st, ast.Pass):
            return cont(env)
        if isinstance(st, ast.Raise):
            if rest:
                self.err("statements after raise", rest[0])
            if not (isinstance(st.exc, ast.Call) and isinstance(st.exc.func, ast.Name) and st.exc.func.id in EXN
                    and all(self.is_msg(a) for a in st.exc.args) and not st.exc.keywords and st.cause is None):
                self.err("raise of this form not accepted", st)
            return f"Err {st.exc.func.id}"
        if isinstance(st, ast.Return):
            if rest:
                self.err("statements after return", rest[0])
            if in_loop:
                self.err("return inside a loop not accepted", st)
            if st.value is None:
                return "Ok VNone"
            t, ty, mon = self.E(st.value, env)
            if ty != self.ret:
                self.err(f"returns {ty}, function returns {self.ret}", st)
            return t if mon else f"Ok {t}"
        if isinstance(st, ast.Assign):
            if len(st.targets) != 1:
                self.err("multiple assignment targets", st)
            tg = st.targets[0]
            if isinstance(tg, ast.Name):
                name = cname(tg.id)
                if isinstance(st.value, ast.List) and not st.value.elts:
                    ty = self.list_hints.get((self.fname, tg.id))
                    if ty is None:
                        ty = PL      # provisional; corrected by the first append (second pass)
                        self.list_hints[(self.fname, tg.id)] = None
                    term = "[]" if ty in (PL, EV) else "(VList [])"
                    env2 = dict(env)
                    env2[tg.id] = Var(name, ty or PL)
                    return f"(let {name} := {term} in {cont(env2)})"
                t, ty, mon = self.E(st.value, env)
                env2 = dict(env)
                env2[tg.id] = Var(name, ty)
                if mon:
                    return f"({name} <- {t} ;; {cont(env2)})"
                return f"(let {name} := {t} in {cont(env2)})"
            if isinstance(tg, ast.Subscript) and isinstance(tg.value, ast.Name):
                bt, bty, bmon = self.E(tg.value, env)
                it, ity, imon = self.E(tg.slice, env)
                vt, vty, vmon = self.E(st.value, env)
                if not (bty == PL and ity == V and vty == EV):
                    self.err("item assignment accepted only as <event list>[i] = <event>", st)
                name = cname(tg.value.id)
                env2 = dict(env)
                env2[tg.value.id] = Var(name, PL)
                # Python evaluates the right-hand side first, then the target's object and index
                term, _ = self.lift([(vt, vmon), (bt, bmon), (it, imon)],
                                    lambda a: (f"(seq_set {a[1]} {a[2]} {a[0]})", True))
                return f"({name} <- {term} ;; {cont(env2)})"
            self.err("assignment target not accepted", st)
        if isinstance(st, ast.Expr) and isinstance(st.value, ast.Call):
            c = st.value
            fn = ast.unparse(c.func)
            if fn == "warnings.warn":
                if len(c.args) != 1 or c.keywords:
                    self.err("warnings.warn(msg)", st)
                t, ty, mon = self.E(c.args[0], env)
                if ty != MSG or mon:
                    self.err("warnings.warn of a non-text", st)
                return cont(env)
            rcv = _append_receiver(st)
            if rcv:
                if rcv not in env or len(c.args) != 1 or c.keywords:
                    self.err("append on an unbound name / wrong arity", st)
                rt, rty, rmon = self.E(c.func.value, env)
                at, aty, amon = self.E(c.args[0], env)
                hint = {EV: PL, P: EV, V: V}.get(aty)
                key = (self.fname, rcv)
                if key in self.list_hints and self.list_hints[key] != hint:
                    if self.list_hints[key] is None:
                        self.list_hints[key] = hint
                        self.hint_changed = True
                        rty = hint
                    else:
                        self.err("list used with elements of different types", st)
                name = cname(rcv)
                env2 = dict(env)
                env2[rcv] = Var(name, rty)
                if rty == PL and aty == EV or rty == EV and aty == P:
                    term, mon = self.lift([(rt, rmon), (at, amon)], lambda a: (f"({a[0]} ++ [{a[1]}])", False))
                elif rty == V and aty == V:
                    term, mon = self.lift([(rt, rmon), (at, amon)], lambda a: (f"(py_append {a[0]} {a[1]})", True))
                else:
                    self.err(f"append of {aty} to {rty}", st)
                if mon:
                    return f"({name} <- {term} ;; {cont(env2)})"
                return f"(let {name} := {term} in {cont(env2)})"
            if fn in self.sigs:
                t, ty, mon = self.E(c, env)
                return f"(_ <- {t} ;; {cont(env)})"
            self.err("expression statement not accepted: " + fn, st)
        if isinstance(st, ast.If):
            return self.tr_if(st, rest, env, k, live, live_after, in_loop)
        if isinstance(st, ast.For):
            return self.tr_for(st, rest, env, k, live, live_after, in_loop)
        self.err("statement not accepted: " + type(st).__name__, st)

    def tuple_of(self, names):
        if not names:
            return "tt"
        if len(names) == 1:
            return names[0]
        return "(" + ", ".join(names) + ")"

    def pat_of(self, names):
        if not names:
            return "_"
        if len(names) == 1:
            return names[0]
        return "'(" + ", ".join(names) + ")"

    def join(self, jvars, build, env):
        """jvars: python names carried over a join.  build(kend) translates the construct with the continuation
        kend(env_end) at each fall-through point.  Single pass: the fall-through points are emitted as
        placeholders and filled in once the shape of the joined variables (type, possibly unbound) is known."""
        ends = []
        self.njoin = getattr(self, "njoin", 0) + 1
        tag = f"@@J{self.njoin}_"

        def kph(e):
            ends.append(e)
            return f"{tag}{len(ends) - 1}@@"
        term = build(kph)
        info = {}
        for j in jvars:
            tys = {e[j].ty for e in ends if j in e}
            if len(tys) > 1:
                self.err(f"variable {j} has different types on different paths", None)
            if not tys:
                continue
            opt = any(j not in e or e[j].opt for e in ends)
            info[j] = (tys.pop(), opt)
        names = [j for j in jvars if j in info]
        for i, e in enumerate(ends):
            comps = []
            for j in names:
                ty, opt = info[j]
                if not opt:
                    comps.append(e[j].name)
                elif j not in e:
                    comps.append("None")
                elif e[j].opt:
                    comps.append(e[j].name)
                else:
                    comps.append(f"(Some {e[j].name})")
            term = term.replace(f"{tag}{i}@@", "Ok " + self.tuple_of(comps))
        env2 = dict(env)
        for j in names:
            env2[j] = Var(cname(j), info[j][0], info[j][1])
        return self.pat_of([cname(j) for j in names]), env2, term

    def tr_if(self, st, rest, env, k, live, live_after, in_loop):
        ct, cmon = self.C(st.test, env)
        tb, te = terminates(st.body), terminates(st.orelse)

        def cont(env2):
            return self.S(rest, env2, k, live, in_loop)

        def dead(_):
            self.err("internal: continuation of a terminating branch", st)

        def ite(b, e):
            if cmon:
                v = self.fresh("c")
                return f"({v} <- {ct} ;; if {v} then {b} else {e})"
            return f"(if {ct} then {b} else {e})"
        if tb and te:
            if rest:
                self.err("statements after an if whose branches all return/raise", rest[0])
            return ite(self.S(st.body, env, dead, live_after, in_loop), self.S(st.orelse, env, dead, live_after, in_loop))
        if tb:
            return ite(self.S(st.body, env, dead, live_after, in_loop),
                       self.S(st.orelse, env, lambda e: cont(e), live_after, in_loop))
        if te:
            return ite(self.S(st.body, env, lambda e: cont(e), live_after, in_loop),
                       self.S(st.orelse, env, dead, live_after, in_loop))
        jvars = sorted(assigned([st]) & live_after)

        def build(kend):
            return ite(self.S(st.body, env, kend, live_after, in_loop), self.S(st.orelse, env, kend, live_after, in_loop))
        pat, env2, term = self.join(jvars, build, env)
        return f"(bind {term} (fun {pat} => {cont(env2)}))"

    def tr_for(self, st, rest, env, k, live, live_after, in_loop):
        if st.orelse:
            self.err("for-else not accepted", st)
        for n in ast.walk(st):
            if isinstance(n, (ast.Break, ast.Continue)):
                self.err("break/continue not accepted", n)
        items, imon, elty = self.iter_of(st.iter, env)
        targets = _target_names(st.target)
        if targets & live_after:
            self.err("loop variable is read after the loop", st)
        used_first, _ = ube(st.body, targets)
        state = sorted((assigned(st.body) - targets) & (live_after | used_first))
        for s in state:
            if s in env and env[s].ty not in (PL, EV, V):
                self.err(f"loop state {s} of type {env[s].ty}", st)
        body_live = live_after | loads(st.body) | loads(st.iter)

        # the state enters the body as it is before the loop (a name unbound there: option, None)
        # iterate to a fixed point of (type, opt) for the state components
        shape = {}
        for s in state:
            if s in env:
                shape[s] = (env[s].ty, env[s].opt)
            else:
                shape[s] = (None, True)
        for _ in range(4):
            ends = []
            envb = dict(env)
            for s in state:
                ty, opt = shape[s]
                if ty is None:
                    envb.pop(s, None)
                else:
                    envb[s] = Var(cname(s), ty, opt)
            binder, envb = self.bind_target(st.target, elty, envb)
            self.S(st.body, envb, lambda e: (ends.append(e), "Ok tt")[1], body_live, True)
            new = dict(shape)
            for s in state:
                tys = {e[s].ty for e in ends if s in e}
                if shape[s][0] is not None:
                    tys.add(shape[s][0])
                if len(tys) > 1:
                    self.err(f"loop state {s} changes type", st)
                ty = tys.pop() if tys else None
                opt = shape[s][1] or any(s not in e or e[s].opt for e in ends)
                new[s] = (ty, opt)
            if new == shape:
                break
            shape = new
        else:
            self.err("loop state shape does not stabilise", st)
        state = [s for s in state if shape[s][0] is not None]
        names = [cname(s) for s in state]

        def comp(e, s):
            ty, opt = shape[s]
            if not opt:
                return e[s].name
            if s not in e:
                return "None"
            if e[s].opt:
                return e[s].name
            return f"(Some {e[s].name})"
        envb = dict(env)
        for s in state:
            envb[s] = Var(cname(s), shape[s][0], shape[s][1])
        binder, envb = self.bind_target(st.target, elty, envb)
        body = self.S(st.body, envb, lambda e: "Ok " + self.tuple_of([comp(e, s) for s in state]), body_live, True)
        init = self.tuple_of([comp(env, s) for s in state])
        env2 = dict(env)
        for s in state:
            env2[s] = Var(cname(s), shape[s][0], shape[s][1])
        pat = self.pat_of(names)
        loop, _ = self.lift([(items, imon)],
                            lambda a: (f"(fold_leftM (fun {pat} {binder} => {body}) {a[0]} {init})", True))
        return f"(bind {loop} (fun {pat} => {self.S(rest, env2, k, live, in_loop)}))"

    # ---- functions
    def function(self, fdef, sig):
        self.fname = fdef.name
        self.ret = sig.ret
        env = {pn: Var(cname(pn), pty) for pn, pty in sig.params}

        def kend(e):
            if sig.ret != V:
                self.err("function may end without returning a value", fdef)
            return "Ok VNone"
        body = self.S(fdef.body, env, kend, set())
        params = " ".join(f"({cname(pn)} : {COQ_TY[pty]})" for pn, pty in sig.params)
        return f"Definition {sig.coqname} {params} : result {COQ_TY[sig.ret]} :=\n  {body}.\n"


def signature(fdef, path, prefix="gen_", skip_self=False):
    a = fdef.args
    if a.vararg or a.kwarg or a.kwonlyargs or a.posonlyargs:
        raise TranslateError("parameter kinds not accepted", fdef, path)
    args = a.args[1:] if skip_self else a.args
    params, defaults = [], {}
    for p in args:
        ann = ast.unparse(p.annotation) if p.annotation is not None else ""
        ty = PL if ann.replace('"', "").replace("'", "") == "List[List[Particle]]" else V
        params.append((p.arg, ty))
    for p, d in zip(args[len(args) - len(a.defaults):], a.defaults):
        if not isinstance(d, ast.Constant):
            raise TranslateError("default value not accepted", fdef, path)
        defaults[p.arg] = Translator(path, {}, set(), set()).const(d)
    rann = ast.unparse(fdef.returns).replace('"', "").replace("'", "") if fdef.returns is not None else ""
    if rann == "List[List[Particle]]":
        ret = PL
    elif rann == "None":
        ret = V
    else:
        raise TranslateError("return annotation not accepted: " + rann, fdef, path)
    return FuncSig(fdef.name, prefix + cname(fdef.name), params, defaults, ret)


def translate_function(fdef, sig, path, sigs, props, meths):
    """two passes: the element type of `x = []` is fixed by the first append"""
    hints = {}
    for _ in range(3):
        tr = Translator(path, sigs, props, meths, hints)
        try:
            text = tr.function(fdef, sig)
        except TranslateError:
            if tr.hint_changed:
                continue
            raise
        if not tr.hint_changed:
            return text
    raise TranslateError("list element types do not stabilise", fdef, path)

"""Gen/GenSmear.v from src/sparkx/Lattice3D.py: the WHOLE bodies of the smearing methods of class Lattice3D

    add_particle_data, add_same_spaced_grid, reset
    and every method of the class that these reach:
    __init__ (the temporary lattice), __is_valid_index, set_value_by_index, get_value_by_index,
    __get_index_nearest_neighbor, __get_indices_nearest_neighbor, set_value_nearest_neighbor,
    get_value_nearest_neighbor, __get_value, get_coordinates, __find_closest_index, __is_within_range,
    find_closest_indices

as Gallina functions `gen_<python name>` over coq/Model/SmearRt.v, statement by statement in source order, plus the
defaults of their parameters (`gen_default_<method>_<parameter>`).  Proofs/Smear_Source.v proves them equal to the
hand model Model/Smear.v (and the addressing functions of Model/Lattice.v).  tools/py2coq/gen_lattice.py (the table
shaped pieces used inside the hand model) is independent of this file.

Fail-closed: a typed translator of the small Python fragment these methods are written in.  Every statement and
expression node of the methods read must be of an accepted shape AND be well typed; anything else raises
TranslateError with the source position.  Nothing is pinned textually.

Types of the fragment (Coq type):
  Z    Python int (Z)                      Q    finite float: coordinate, extent, spacing, sigma (Q)
  FV   float that may be inf/NaN: particle position and momentum (fv)
  FK   float that is a lattice value: grid cell, kernel value, quantity, cell volume (option K, None = NaN)
  B bool   STR string   QL array/list of finite floats (list Q)   FVA array of FV (list fv)   FVL list literal of FV
  ARR the 3-d grid (ndarr K)   LAT a Lattice3D object (lat K)   PT a Particle (P)   PL list of particles
  KERN the frozen multivariate normal   MAT scalar matrix (smat)   opt T   tuples   NONE
Coercions (only upwards): Z -> Q (inject_Z) -> FV (Fin);  the literals 0 / 1 -> FK (Some k0 / Some k1);
Q -> FK (Some (kofq q));  opt T -> T raises TypeError on None (Python: arithmetic with None).

Conventions of the translation (the proofs rely on them):
  * a Python local `x` is the Coq variable `v_x`, rebinding is shadowing; `self` is threaded: a method that stores into
    self (or calls one that does) returns `result (lat K)` = the object afterwards, the others `result <type>`;
    every method is monadic in `result` (Lib/Py.v: Ok | Err cls), `raise Cls(..)` is `Err Cls`;
  * `for x in <range(n) | np.ndindex(shape) | list of particles>` is `foldM (<method>_loop<n> <free variables>) items state`:
    the loop body becomes a definition of its own, `gen_<method>_loop<n>` (n = position of the `for` in the method, in
    source order), abstracted over the variables of the enclosing scope that it reads (in the order of their first
    occurrence in the body), then the state, then the item; the state is the tuple of the names that exist before the
    loop and are assigned in it (by type, then order of first binding; `self` / a lattice local counts as assigned when
    its grid is stored to); a variable whose type widens inside a loop (norm = 0, then norm += <FK>) enters the loop
    with the wider type; `continue` ends the iteration with the current state;
  * `if` without else / with branches that fall through: the names assigned in a branch and live afterwards are joined
    (`rbind (if c then .. else ..) (fun state => rest)`); a name first bound in the branches must be bound in every
    branch that falls through; branch values are coerced to the widest type;
  * `a < b` is Z.ltb / q_ltb / fv_ltb, `a <= b` Z.leb / Qle_bool / fv_leb by operand type (`>`/`>=` swap the operands);
    on FK only `>` (ocmp kgtb); chained comparisons and `and`/`or` evaluate left to right and stop early (andM/orM when
    an operand may raise); `x is None` on an `opt` value;
  * `a / b` on finite floats (and int / int) is `q_div`: ZeroDivisionError on a zero divisor (Python float semantics; with
    a numpy scalar the real code gives inf/nan and the following round() raises - the theorems exclude it by hypothesis);
    `x ** 2` only; float literals are the exact rationals of their doubles;
  * `__init__` binds each `self.a = e` to a local and builds the record at the end (all 23 attributes must have
    been assigned; reading `self.a` before its assignment is rejected);
  * `warnings.warn(<text>)` is dropped (no effect on the modelled state), its condition is still evaluated;
    `if isinstance(values, list): values = np.array(values, dtype=float)` is the identity on QL;
    `isinstance(other, Lattice3D)` of a parameter typed LAT is `true`; `other` is an object distinct from `self`;
  * numpy / scipy / builtins are the functions of Model/SmearRt.v; oracles (Section variables of the generated file):
    o_mvn (multivariate_normal(mean=, cov=), may raise), o_pdf (<frozen>.pdf), o_sqrt (np.sqrt), the particle's
    attributes pfv / pfk (p_abs() is read as pfv "p_abs()"), the carrier K with k0 k1 kadd kmul kdiv kgtb kofq.
"""
import ast
import re
from fractions import Fraction
from .core import *

SRC = "src/sparkx/Lattice3D.py"
OUTPUTS = ["GenSmear"]
CLASS = "Lattice3D"

Z, Q, FV, FK, B, STR, QL, FVA, FVL, ARR, LAT, PT, PL, KERN, MAT, NONE = (
    "Z", "Q", "FV", "FK", "B", "STR", "QL", "FVA", "FVL", "ARR", "LAT", "PT", "PL", "KERN", "MAT", "NONE")


def OPT(t):
    return ("opt", t)


def TUP(*ts):
    return ("tup", tuple(ts))


Z3, Q3 = TUP(Z, Z, Z), TUP(Q, Q, Q)
BASE_COQ = {Z: "Z", Q: "Q", FV: "fv", FK: "(option K)", B: "bool", STR: "string", QL: "(list Q)", FVA: "(list fv)",
            FVL: "(list fv)", ARR: "(ndarr K)", LAT: "(lat K)", PT: "P", PL: "(list P)", KERN: "KERN", MAT: "smat",
            NONE: "unit"}


def cty(t):
    if isinstance(t, tuple):
        if t[0] == "opt":
            return f"(option {cty(t[1])})"
        if t[0] == "tup":
            return "(" + " * ".join(cty(x) for x in t[1]) + ")"
    return BASE_COQ[t]


# the attributes of the object, in the order of the record of Model/SmearRt.v
ATTRS = [("x_min_", Q), ("x_max_", Q), ("y_min_", Q), ("y_max_", Q), ("z_min_", Q), ("z_max_", Q),
         ("num_points_x_", Z), ("num_points_y_", Z), ("num_points_z_", Z), ("cell_volume_", FK),
         ("x_values_", QL), ("y_values_", QL), ("z_values_", QL), ("grid_", ARR),
         ("n_sigma_x_", Q), ("n_sigma_y_", Q), ("n_sigma_z_", Q),
         ("spacing_x_", OPT(Q)), ("spacing_y_", OPT(Q)), ("spacing_z_", OPT(Q)),
         ("density_x_", Q), ("density_y_", Q), ("density_z_", Q)]
ATTR_TY = dict(ATTRS)
SETTABLE = {"grid_"}
# what is read from a particle
P_ATTR = {"x": FV, "y": FV, "z": FV, "px": FV, "py": FV, "pz": FV, "mass": FV,
          "E": FK, "charge": FK, "baryon_number": FK, "strangeness": FK}
P_METH = {"p_abs": FV}
EXN = {"TypeError", "ValueError", "IndexError", "KeyError", "AttributeError", "ZeroDivisionError"}


class Meth:
    def __init__(self, name, ptypes, ret, writes=False, ctor=False):
        self.name, self.ptypes, self.ret, self.writes, self.ctor = name, ptypes, ret, writes, ctor
        self.coq = "gen_" + name


METHODS = [
    Meth("__init__", [Q, Q, Q, Q, Q, Q, Z, Z, Z, OPT(Q), OPT(Q), OPT(Q)], LAT, ctor=True),
    Meth("__is_valid_index", [Z, Z, Z], B),
    Meth("set_value_by_index", [Z, Z, Z, FK], NONE, writes=True),
    Meth("get_value_by_index", [Z, Z, Z], OPT(FK)),
    Meth("__get_index_nearest_neighbor", [Q, QL], Z),
    Meth("__get_indices_nearest_neighbor", [Q, Q, Q], Z3),
    Meth("set_value_nearest_neighbor", [Q, Q, Q, FK], NONE, writes=True),
    Meth("get_value_nearest_neighbor", [Q, Q, Q], OPT(FK)),
    Meth("__get_value", [Z, QL, Z], Q),
    Meth("get_coordinates", [Z, Z, Z], Q3),
    Meth("__find_closest_index", [FV, QL], Z),
    Meth("__is_within_range", [FV, FV, FV], B),
    Meth("find_closest_indices", [FV, FV, FV], Z3),
    Meth("reset", [], NONE, writes=True),
    Meth("add_same_spaced_grid", [LAT, Q, Q, Q], NONE, writes=True),
    Meth("add_particle_data", [PL, Q, STR, STR, B], NONE, writes=True),
]
MTAB = {m.name: m for m in METHODS}
NUM_RANK = {Z: 0, Q: 1, FV: 2}


def qlit(fr):
    fr = Fraction(fr)
    n, d = fr.numerator, fr.denominator
    return f"({n} # {d})%Q" if n >= 0 else f"(({n}) # {d})%Q"


def zlit(v):
    return f"{v}%Z" if v >= 0 else f"({v})%Z"


def slit(s):
    if any(ord(c) > 126 or ord(c) < 32 or c == '"' for c in s):
        raise TranslateError("string literal not accepted: " + repr(s))
    return f'"{s}"%string'


def vname(py):
    if py == "self":
        return "self"
    if not py.replace("_", "a").isalnum() or py[0].isdigit():
        raise TranslateError("identifier not accepted: " + py)
    return "v_" + py


class X:
    """a translated expression: Coq term, fragment type, monadic (term : result T) or pure (term : T), literal value"""

    def __init__(self, term, ty, mon=False, lit=None):
        self.term, self.ty, self.mon, self.lit = term, ty, mon, lit


class Var:
    def __init__(self, name, ty, lit=None):
        self.name, self.ty, self.lit = name, ty, lit


class Widen(Exception):
    """a loop-carried variable leaves the body with a wider type than it entered"""

    def __init__(self, name, ty):
        self.name, self.ty = name, ty


def _is_msg(node):
    if isinstance(node, ast.Constant) and isinstance(node.value, str):
        return True
    if isinstance(node, ast.JoinedStr):
        return True
    if isinstance(node, ast.BinOp) and isinstance(node.op, ast.Add):
        return _is_msg(node.left) and _is_msg(node.right)
    return False


def terminates(stmts):
    if not stmts:
        return False
    last = stmts[-1]
    if isinstance(last, (ast.Return, ast.Raise, ast.Continue)):
        return True
    if isinstance(last, ast.If):
        return terminates(last.body) and terminates(last.orelse)
    return False


def tup(ts):
    return "tt" if not ts else ts[0] if len(ts) == 1 else "(" + ", ".join(ts) + ")"


def pat(ts):
    return "_" if not ts else ts[0] if len(ts) == 1 else "'(" + ", ".join(ts) + ")"


def target_names(t):
    """names bound by an assignment / loop target; 'X' for a store into X.grid_[..] or X.attr"""
    if isinstance(t, ast.Name):
        return [t.id]
    if isinstance(t, ast.Tuple):
        out = []
        for e in t.elts:
            out += target_names(e)
        return out
    if isinstance(t, ast.Attribute) and isinstance(t.value, ast.Name):
        return [t.value.id]
    if isinstance(t, ast.Subscript) and isinstance(t.value, ast.Attribute) and isinstance(t.value.value, ast.Name):
        return [t.value.value.id]
    return []


def assigned(stmts):
    """names (re)bound by the statements, nested blocks included, in order of first assignment; a call of a writing
    method as a statement rebinds `self`"""
    out = []

    def add(n):
        if n not in out:
            out.append(n)

    def walk(s):
        if isinstance(s, ast.Assign):
            for t in s.targets:
                for n in target_names(t):
                    add(n)
        elif isinstance(s, (ast.AugAssign, ast.AnnAssign)):
            for n in target_names(s.target):
                add(n)
        elif isinstance(s, ast.If):
            for b in s.body + s.orelse:
                walk(b)
        elif isinstance(s, ast.For):
            for n in target_names(s.target):
                add(n)
            for b in s.body:
                walk(b)
        elif isinstance(s, ast.Expr) and isinstance(s.value, ast.Call) and isinstance(s.value.func, ast.Attribute) \
                and isinstance(s.value.func.value, ast.Name) and s.value.func.value.id == "self" \
                and s.value.func.attr in MTAB and MTAB[s.value.func.attr].writes:
            add("self")
    for s in stmts:
        walk(s)
    return out


def read_later(name, stmts):
    """may the current binding of `name` be read by these statements (conservative)?"""
    def loaded(node):
        return any(isinstance(n, ast.Name) and n.id == name for n in ast.walk(node)
                   if not (isinstance(n, ast.Name) and isinstance(n.ctx, ast.Store)))
    for st in stmts:
        if isinstance(st, ast.Assign):
            if loaded(st.value):
                return True
            if len(st.targets) == 1 and isinstance(st.targets[0], (ast.Name, ast.Tuple)) \
                    and all(isinstance(e, ast.Name) for e in (st.targets[0].elts if isinstance(st.targets[0], ast.Tuple) else [st.targets[0]])):
                if name in target_names(st.targets[0]):
                    return False
                continue
            if any(loaded(t) for t in st.targets):
                return True
        elif isinstance(st, ast.For):
            if loaded(st.iter):
                return True
            if name in target_names(st.target):
                continue
            if read_later(name, st.body):
                return True
        elif isinstance(st, ast.If):
            if loaded(st.test) or read_later(name, st.body) or read_later(name, st.orelse):
                return True
        elif loaded(st):
            return True
    return False


class Translator:
    def __init__(self, path, sigs):
        self.path, self.sigs = path, sigs
        self.n = 0
        self.calls = set()

    def err(self, msg, node):
        raise TranslateError(msg, node, self.path)

    def fresh(self, base="t"):
        self.n += 1
        return f"{base}{self.n}_"

    # ------------------------------------------------------------------ plumbing
    @staticmethod
    def m(x):
        return x.term if x.mon else f"(Ok {x.term})"

    def lift(self, parts, f):
        """parts: [X]; f(pure terms) -> X.  Monadic parts are bound left to right (Python's evaluation order)."""
        names, binds = [], []
        for p in parts:
            if p.mon:
                v = self.fresh()
                binds.append((v, p.term))
                names.append(v)
            else:
                names.append(p.term)
        r = f(names)
        if not binds:
            return r
        inner = self.m(r)
        for v, term in reversed(binds):
            inner = f"(rbind {term} (fun {v} => {inner}))"
        return X(inner, r.ty, True)

    def coercible(self, a, b):
        if a == b:
            return True
        if a in NUM_RANK and b in NUM_RANK:
            return NUM_RANK[a] <= NUM_RANK[b]
        if b == FK and a in (Z, Q):
            return True
        if isinstance(a, tuple) and a[0] == "opt" and not (isinstance(b, tuple) and b[0] == "opt"):
            return self.coercible(a[1], b)
        if isinstance(b, tuple) and b[0] == "opt":
            if a == "NONELIT":
                return True
            return self.coercible(a, b[1]) and not (isinstance(a, tuple) and a[0] == "opt")
        if b == FVL and a == "LISTLIT":
            return True
        return False

    def join_ty(self, a, b, node):
        if self.coercible(a, b):
            return b
        if self.coercible(b, a):
            return a
        if a == "NONELIT" and not isinstance(b, tuple):
            return OPT(b)
        if b == "NONELIT" and not isinstance(a, tuple):
            return OPT(a)
        self.err(f"values of types {a} and {b} meet here", node)

    def coerce(self, x, want, node):
        if x.ty == want:
            return x
        if not self.coercible(x.ty, want):
            self.err(f"a value of type {x.ty} where {want} is needed", node)
        if isinstance(x.ty, tuple) and x.ty[0] == "opt" and not (isinstance(want, tuple) and want[0] == "opt"):
            inner = self.lift([x], lambda t: X(f"(opt_get {t[0]})", x.ty[1], True))
            return self.coerce(inner, want, node)
        if isinstance(want, tuple) and want[0] == "opt":
            if x.ty == "NONELIT":
                return X("None", want)
            y = self.coerce(x, want[1], node)
            return self.lift([y], lambda t: X(f"(Some {t[0]})", want))
        if want == FK:
            if x.lit is not None and x.lit in (0, 1):
                return X("(Some k0)" if x.lit == 0 else "(Some k1)", FK)
            y = self.coerce(x, Q, node)
            return self.lift([y], lambda t: X(f"(Some (kofq {t[0]}))", FK))
        if want == Q:      # from Z
            if x.lit is not None:
                return X(qlit(x.lit), Q, lit=x.lit)
            return self.lift([x], lambda t: X(f"(inject_Z {t[0]})", Q))
        if want == FV:
            y = self.coerce(x, Q, node)
            return self.lift([y], lambda t: X(f"(Fin {t[0]})", FV))
        self.err(f"no coercion from {x.ty} to {want}", node)

    # ------------------------------------------------------------------ expressions
    def E(self, node, env):
        if isinstance(node, ast.Constant):
            v = node.value
            if v is None:
                return X("None", "NONELIT")
            if isinstance(v, bool):
                return X("true" if v else "false", B)
            if isinstance(v, int):
                return X(zlit(v), Z, lit=Fraction(v))
            if isinstance(v, float):
                if v != v or v in (float("inf"), float("-inf")):
                    self.err("non-finite float literal", node)
                return X(qlit(v), Q, lit=Fraction(v))
            if isinstance(v, str):
                return X(slit(v), STR)
            self.err("constant not accepted: " + repr(v), node)
        if isinstance(node, ast.Name):
            if node.id not in env:
                self.err(f"name {node.id} is not bound here", node)
            v = env[node.id]
            return X(v.name, v.ty, lit=v.lit)
        if isinstance(node, ast.Attribute):
            return self.attribute(node, env)
        if isinstance(node, ast.UnaryOp) and isinstance(node.op, ast.USub):
            a = self.E(node.operand, env)
            if a.lit is not None and a.ty == Z:
                return X(zlit(-int(a.lit)), Z, lit=-a.lit)
            if a.lit is not None and a.ty == Q:
                return X(qlit(-a.lit), Q, lit=-a.lit)
            if a.ty == Z:
                return self.lift([a], lambda t: X(f"(- {t[0]})%Z", Z))
            if a.ty == Q:
                return self.lift([a], lambda t: X(f"(- {t[0]})%Q", Q))
            if a.ty == FV:
                return self.lift([a], lambda t: X(f"(fv_neg {t[0]})", FV))
            self.err(f"unary minus on {a.ty}", node)
        if isinstance(node, ast.UnaryOp) and isinstance(node.op, ast.Not):
            a = self.cond(node.operand, env)
            return self.lift([a], lambda t: X(f"(negb {t[0]})", B))
        if isinstance(node, ast.BinOp):
            return self.binop(node, self.E(node.left, env), node.op, self.E(node.right, env))
        if isinstance(node, ast.BoolOp):
            parts = [self.cond(v, env) for v in node.values]
            is_and = isinstance(node.op, ast.And)
            if all(not p.mon for p in parts):
                return X("(" + (" && " if is_and else " || ").join(p.term for p in parts) + ")", B)
            term = self.m(parts[-1])
            for p in reversed(parts[:-1]):
                term = f"({'andM' if is_and else 'orM'} {self.m(p)} {term})"
            return X(term, B, True)
        if isinstance(node, ast.Compare):
            return self.compare(node, env)
        if isinstance(node, ast.IfExp):
            return self.ifexp(node, env)
        if isinstance(node, ast.Tuple):
            parts = [self.E(e, env) for e in node.elts]
            if len(parts) != 3:
                self.err("only triples are accepted", node)
            return self.lift(parts, lambda t: X("(" + ", ".join(t) + ")", TUP(*[p.ty for p in parts])))
        if isinstance(node, ast.List):
            parts = [self.coerce(self.E(e, env), FV, node) for e in node.elts]
            return self.lift(parts, lambda t: X("[" + "; ".join(t) + "]", FVL))
        if isinstance(node, ast.Subscript):
            return self.subscript(node, env)
        if isinstance(node, ast.Call):
            return self.call(node, env)
        self.err("expression not accepted: " + type(node).__name__ + " " + ast.unparse(node)[:60], node)

    def cond(self, node, env):
        c = self.E(node, env)
        if c.ty != B:
            self.err(f"a condition of type {c.ty} (truthiness of non-bool values is not in the fragment)", node)
        return c

    def attribute(self, node, env):
        base = node.value
        if isinstance(base, ast.Name) and base.id == "self" and self.ctor_attrs is not None:
            if node.attr not in self.ctor_attrs:
                self.err(f"self.{node.attr} is read before __init__ assigned it", node)
            v = self.ctor_attrs[node.attr]
            return X(v.name, v.ty, lit=v.lit)
        b = self.E(base, env)
        if b.ty == LAT:
            if node.attr not in ATTR_TY:
                self.err(f"attribute {node.attr} of a lattice is not part of the fragment", node)
            return self.lift([b], lambda t: X(f"({node.attr} {t[0]})", ATTR_TY[node.attr]))
        if b.ty == ARR and node.attr == "shape":
            return self.lift([b], lambda t: X(f"(shape {t[0]})", Z3))
        if b.ty == PT:
            if node.attr not in P_ATTR:
                self.err(f"particle attribute {node.attr} is not part of the fragment", node)
            ty = P_ATTR[node.attr]
            fn = "pfv" if ty == FV else "pfk"
            return self.lift([b], lambda t: X(f"({fn} {slit(node.attr)} {t[0]})", ty))
        self.err(f"attribute {node.attr} of a value of type {b.ty}", node)

    def subscript(self, node, env):
        b = self.E(node.value, env)
        if b.ty == QL:
            i = self.E(node.slice, env)
            if i.ty != Z:
                self.err("index is not an int", node)
            return self.lift([b, i], lambda t: X(f"(pyget {t[0]} {t[1]})", Q, True))
        if b.ty == ARR:
            i = self.index3(node.slice, env)
            return self.lift([b, i], lambda t: X(f"(arr_get {t[0]} {t[1]})", FK, True))
        self.err(f"subscript of {b.ty}", node)

    def index3(self, node, env):
        if not (isinstance(node, ast.Tuple) and len(node.elts) == 3):
            self.err("a grid is indexed by three ints", node)
        parts = [self.E(e, env) for e in node.elts]
        if any(p.ty != Z for p in parts):
            self.err("grid index is not an int", node)
        return self.lift(parts, lambda t: X("(" + ", ".join(t) + ")", Z3))

    def ifexp(self, node, env):
        t = node.test
        # `f(X) if X is not None else d` on an optional name: the branch sees the value
        if (isinstance(t, ast.Compare) and len(t.ops) == 1 and isinstance(t.ops[0], (ast.Is, ast.IsNot))
                and isinstance(t.left, ast.Name) and t.left.id in env and isinstance(env[t.left.id].ty, tuple)
                and env[t.left.id].ty[0] == "opt" and isinstance(t.comparators[0], ast.Constant)
                and t.comparators[0].value is None):
            nm = t.left.id
            some_n, none_n = (node.orelse, node.body) if isinstance(t.ops[0], ast.Is) else (node.body, node.orelse)
            env2 = dict(env)
            env2[nm] = Var(vname(nm), env[nm].ty[1])
            envn = {k: v for k, v in env.items() if k != nm}
            a, b = self.E(some_n, env2), self.E(none_n, envn)
            ty = self.join_ty(a.ty, b.ty, node)
            a, b = self.coerce(a, ty, node), self.coerce(b, ty, node)
            mon = a.mon or b.mon
            ta, tb = (self.m(a), self.m(b)) if mon else (a.term, b.term)
            return X(f"(match {env[nm].name} with Some {vname(nm)} => {ta} | None => {tb} end)", ty, mon)
        c = self.cond(t, env)
        a, b = self.E(node.body, env), self.E(node.orelse, env)
        ty = self.join_ty(a.ty, b.ty, node)
        a, b = self.coerce(a, ty, node), self.coerce(b, ty, node)
        mon = a.mon or b.mon
        ta, tb = (self.m(a), self.m(b)) if mon else (a.term, b.term)
        return self.lift([c], lambda t_: X(f"(if {t_[0]} then {ta} else {tb})", ty, mon))

    def binop(self, node, a, op, b):
        names = {ast.Add: "add", ast.Sub: "sub", ast.Mult: "mul", ast.Div: "div", ast.Pow: "pow"}
        if type(op) not in names:
            self.err("operator not accepted: " + type(op).__name__, node)
        o = names[type(op)]
        if o == "pow":
            if not (b.ty == Z and b.lit is not None and b.lit == 2) and not (b.ty == Q and b.lit is not None and b.lit == 2):
                self.err("only the exponent 2 is accepted", node)
            if a.ty in (Z, Q):
                a = self.coerce(a, Q, node)
                return self.lift([a], lambda t: X(f"(Qpower {t[0]} 2)", Q))
            if a.ty == FV:
                return self.lift([a], lambda t: X(f"(fv_times {t[0]} {t[0]})", FV))
            self.err(f"power of {a.ty}", node)
        # arrays of floats
        if a.ty == QL and b.ty in NUM_RANK and o == "sub":
            b = self.coerce(b, FV, node)
            return self.lift([a, b], lambda t: X(f"(np_sub_as {t[0]} {t[1]})", FVA))
        if b.ty == QL and a.ty in NUM_RANK and o == "sub":
            a = self.coerce(a, FV, node)
            return self.lift([a, b], lambda t: X(f"(np_sub_sa {t[0]} {t[1]})", FVA))
        if b.ty == MAT and a.ty in (Z, Q) and o == "mul":
            a = self.coerce(a, Q, node)
            return self.lift([a, b], lambda t: X(f"(mat_scale {t[0]} {t[1]})", MAT))
        aty = a.ty[1] if isinstance(a.ty, tuple) and a.ty[0] == "opt" else a.ty
        bty = b.ty[1] if isinstance(b.ty, tuple) and b.ty[0] == "opt" else b.ty
        if FK in (aty, bty):
            a, b = self.coerce(a, FK, node), self.coerce(b, FK, node)
            fn = {"add": "kadd", "mul": "kmul", "div": "kdiv"}.get(o)
            if fn is None:
                self.err("operator not accepted on lattice values: " + o, node)
            return self.lift([a, b], lambda t: X(f"(olift2 {fn} {t[0]} {t[1]})", FK))
        if aty not in NUM_RANK or bty not in NUM_RANK:
            self.err(f"arithmetic on {a.ty} and {b.ty}", node)
        ty = aty if NUM_RANK[aty] >= NUM_RANK[bty] else bty
        if ty == Z and o == "div":
            ty = Q
        a, b = self.coerce(a, ty, node), self.coerce(b, ty, node)
        if ty == Z:
            sym = {"add": "+", "sub": "-", "mul": "*"}[o]
            lit = None
            if a.lit is not None and b.lit is not None:
                lit = {"add": a.lit + b.lit, "sub": a.lit - b.lit, "mul": a.lit * b.lit}[o]
            return self.lift([a, b], lambda t: X(f"({t[0]} {sym} {t[1]})%Z", Z, lit=lit))
        if ty == Q:
            if o == "div":
                return self.lift([a, b], lambda t: X(f"(q_div {t[0]} {t[1]})", Q, True))
            sym = {"add": "+", "sub": "-", "mul": "*"}[o]
            return self.lift([a, b], lambda t: X(f"({t[0]} {sym} {t[1]})%Q", Q))
        fn = {"add": "fv_plus", "sub": "fv_minus", "mul": "fv_times", "div": "fv_quot"}[o]
        return self.lift([a, b], lambda t: X(f"({fn} {t[0]} {t[1]})", FV))

    def cmp1(self, a, op, b, node):
        """one comparison of two already evaluated operands -> Coq bool term"""
        k = type(op)
        if k in (ast.Is, ast.IsNot):
            if not (isinstance(a.ty, tuple) and a.ty[0] == "opt" and b.ty == "NONELIT"):
                self.err("`is` is accepted only as `<optional value> is [not] None`", node)
            return f"(is_none {a.term})" if k is ast.Is else f"(negb (is_none {a.term}))"
        if a.ty == STR and b.ty == STR:
            if k is ast.Eq:
                return f"(String.eqb {a.term} {b.term})"
            if k is ast.NotEq:
                return f"(negb (String.eqb {a.term} {b.term}))"
            self.err("comparison operator not accepted on strings", node)
        if FK in (a.ty, b.ty):
            a, b = self.coerce(a, FK, node), self.coerce(b, FK, node)
            if k is ast.Gt:
                return f"(ocmp kgtb {a.term} {b.term})"
            if k is ast.Lt:
                return f"(ocmp kgtb {b.term} {a.term})"
            self.err("on lattice values only > and < are accepted", node)
        if a.ty not in NUM_RANK or b.ty not in NUM_RANK:
            self.err(f"comparison of {a.ty} and {b.ty}", node)
        ty = a.ty if NUM_RANK[a.ty] >= NUM_RANK[b.ty] else b.ty
        a, b = self.coerce(a, ty, node), self.coerce(b, ty, node)
        if a.mon or b.mon:
            self.err("internal: unevaluated operand", node)
        if ty == Z:
            t = {ast.LtE: "({0} <=? {1})%Z", ast.Lt: "({0} <? {1})%Z", ast.GtE: "({1} <=? {0})%Z", ast.Gt: "({1} <? {0})%Z",
                 ast.Eq: "({0} =? {1})%Z", ast.NotEq: "(negb ({0} =? {1})%Z)"}
        elif ty == Q:
            t = {ast.LtE: "(Qle_bool {0} {1})", ast.Lt: "(q_ltb {0} {1})", ast.GtE: "(Qle_bool {1} {0})", ast.Gt: "(q_ltb {1} {0})"}
        else:
            t = {ast.LtE: "(fv_leb {0} {1})", ast.Lt: "(fv_ltb {0} {1})", ast.GtE: "(fv_leb {1} {0})", ast.Gt: "(fv_ltb {1} {0})"}
        if k not in t:
            self.err("comparison operator not accepted on " + ty, node)
        return t[k].format(a.term, b.term)

    def compare(self, node, env):
        operands = [self.E(node.left, env)] + [self.E(c, env) for c in node.comparators]
        ops = node.ops

        def chain(i, prev):
            """prev: pure X of operand i; returns X of type B for `prev op_i operand_{i+1} ...`"""
            nxt = operands[i + 1]

            def with_next(t):
                cur = X(t[0], nxt.ty, False, nxt.lit)
                c = self.cmp1(prev, ops[i], cur, node)
                if i + 1 == len(ops):
                    return X(c, B)
                more = chain(i + 1, cur)
                if more.mon:
                    return X(f"(if {c} then {more.term} else Ok false)", B, True)
                return X(f"({c} && {more.term})", B)
            if nxt.ty == "NONELIT":
                return with_next(["None"])
            return self.lift([nxt], with_next)
        first = operands[0]
        return self.lift([first], lambda t: chain(0, X(t[0], first.ty, False, first.lit)))

    def call(self, node, env):
        f = node.func
        args, kws = node.args, node.keywords
        fn = ast.unparse(f)
        if isinstance(f, ast.Name) and f.id not in env:
            if f.id == CLASS:
                return self.method_call(MTAB["__init__"], None, args, kws, node, env)
            if kws and f.id != "multivariate_normal":
                self.err("keyword arguments not accepted here", node)
            if f.id == "multivariate_normal":
                if args or sorted(k.arg for k in kws) != ["cov", "mean"]:
                    self.err("multivariate_normal is accepted as multivariate_normal(mean=.., cov=..)", node)
                kw = {k.arg: k.value for k in kws}
                order = [k.arg for k in kws]
                mean, cov = self.E(kw["mean"], env), self.E(kw["cov"], env)
                if mean.ty != FVL or cov.ty != MAT:
                    self.err(f"multivariate_normal(mean={mean.ty}, cov={cov.ty})", node)
                parts = [mean, cov] if order == ["mean", "cov"] else [cov, mean]
                return self.lift(parts, lambda t: X(
                    f"(o_mvn {t[0]} {t[1]})" if order == ["mean", "cov"] else f"(o_mvn {t[1]} {t[0]})", KERN, True))
            if f.id == "round" and len(args) == 1:
                a = self.coerce(self.E(args[0], env), Q, node)
                return self.lift([a], lambda t: X(f"(py_round {t[0]})", Z))
            if f.id == "abs" and len(args) == 1:
                a = self.E(args[0], env)
                if a.ty == Z:
                    return self.lift([a], lambda t: X(f"(Z.abs {t[0]})", Z))
                a = self.coerce(a, Q, node)
                return self.lift([a], lambda t: X(f"(Qabs {t[0]})", Q))
            if f.id in ("min", "max") and len(args) == 2:
                a, b = self.coerce(self.E(args[0], env), Q, node), self.coerce(self.E(args[1], env), Q, node)
                return self.lift([a, b], lambda t: X(f"(py_{f.id} {t[0]} {t[1]})", Q))
            if f.id == "float" and len(args) == 1:
                a = self.coerce(self.E(args[0], env), Q, node)
                return self.lift([a], lambda t: X(f"(py_float {t[0]})", Q))
            if f.id == "int" and len(args) == 1:
                a = self.E(args[0], env)
                if a.ty != Z:
                    self.err(f"int() of {a.ty}", node)
                return a
            if f.id == "isinstance" and len(args) == 2:
                a = self.E(args[0], env)
                if a.ty == LAT and ast.unparse(args[1]) == CLASS:
                    return X("true", B)
                self.err("isinstance not accepted here: " + ast.unparse(node), node)
            self.err("call not accepted: " + f.id, node)
        if fn.startswith("np.") and isinstance(f, ast.Attribute) and isinstance(f.value, ast.Name) and "np" not in env:
            name = f.attr
            if name == "array" and len(args) == 1 and (not kws or (len(kws) == 1 and kws[0].arg == "dtype"
                                                                     and ast.unparse(kws[0].value) == "float")):
                a = self.E(args[0], env)
                if a.ty != QL:
                    self.err(f"np.array of {a.ty}", node)
                return a
            if kws:
                self.err("keyword arguments not accepted here", node)
            if name == "isnan" and len(args) == 1:
                a = self.E(args[0], env)
                if a.ty == FV:
                    return self.lift([a], lambda t: X(f"(fv_isnan {t[0]})", B))
                if a.ty == FK:
                    return self.lift([a], lambda t: X(f"(fk_isnan {t[0]})", B))
                self.err(f"np.isnan of {a.ty}", node)
            if name == "linspace" and len(args) == 3:
                a, b, n = (self.coerce(self.E(args[0], env), Q, node), self.coerce(self.E(args[1], env), Q, node),
                           self.E(args[2], env))
                if n.ty != Z:
                    self.err("np.linspace: the number of samples is not an int", node)
                return self.lift([a, b, n], lambda t: X(f"(np_linspace {t[0]} {t[1]} {t[2]})", QL, True))
            if name == "zeros" and len(args) == 1:
                s = self.E(args[0], env)
                if s.ty != Z3:
                    self.err(f"np.zeros({s.ty})", node)
                return self.lift([s], lambda t: X(f"(np_zeros k0 {t[0]})", ARR, True))
            if name == "eye" and len(args) == 1:
                n = self.E(args[0], env)
                if n.ty != Z:
                    self.err("np.eye of a non-int", node)
                return self.lift([n], lambda t: X(f"(np_eye {t[0]})", MAT))
            if name == "abs" and len(args) == 1:
                a = self.E(args[0], env)
                if a.ty == FVA:
                    return self.lift([a], lambda t: X(f"(np_abs {t[0]})", FVA))
                self.err(f"np.abs of {a.ty}", node)
            if name == "argmin" and len(args) == 1:
                a = self.E(args[0], env)
                if a.ty != FVA:
                    self.err(f"np.argmin of {a.ty}", node)
                return self.lift([a], lambda t: X(f"(np_argmin {t[0]})", Z, True))
            if name == "sqrt" and len(args) == 1:
                a = self.coerce(self.E(args[0], env), FV, node)
                return self.lift([a], lambda t: X(f"(o_sqrt {t[0]})", FV))
            self.err("numpy function not accepted: " + fn, node)
        if isinstance(f, ast.Attribute):
            if isinstance(f.value, ast.Name) and f.value.id == "self":
                if f.attr not in MTAB:
                    self.err("method call not accepted: self." + f.attr, node)
                mt = MTAB[f.attr]
                if mt.writes or mt.ctor:
                    self.err(f"self.{f.attr} stores into self: accepted only as a statement", node)
                return self.method_call(mt, "self", args, kws, node, env)
            recv = self.E(f.value, env)
            if kws:
                self.err("keyword arguments not accepted here", node)
            if recv.ty == LAT:
                if f.attr not in MTAB or MTAB[f.attr].writes or MTAB[f.attr].ctor:
                    self.err(f"method {f.attr} on another lattice is not accepted", node)
                if recv.mon:
                    self.err("receiver may raise", node)
                return self.method_call(MTAB[f.attr], recv.term, args, kws, node, env)
            if recv.ty == PT:
                if args or f.attr not in P_METH:
                    self.err(f"particle method {f.attr} is not part of the fragment", node)
                return self.lift([recv], lambda t: X(f"(pfv {slit(f.attr + '()')} {t[0]})", P_METH[f.attr]))
            if recv.ty == KERN and f.attr == "pdf" and len(args) == 1:
                a = self.E(args[0], env)
                if a.ty != FVL:
                    self.err("pdf is accepted on a list literal of floats", node)
                return self.lift([recv, a], lambda t: X(f"(o_pdf {t[0]} {t[1]})", FK))
            if recv.ty == FVA and f.attr == "argmin" and not args:
                return self.lift([recv], lambda t: X(f"(np_argmin {t[0]})", Z, True))
            self.err("method call not accepted: " + fn, node)
        self.err("call not accepted: " + fn[:60], node)

    def method_call(self, mt, recv, args, kws, node, env):
        sig = self.sigs[mt.name]
        if kws:
            self.err("keyword arguments not accepted in calls of the translated methods", node)
        if len(args) > len(sig["params"]):
            self.err(f"too many arguments for {mt.name}", node)
        parts = []
        for (pn, pty), a in zip(sig["params"], args):
            parts.append(self.coerce(self.E(a, env), pty, node))
        extra = []
        for pn, pty in sig["params"][len(args):]:
            if pn not in sig["defaults"]:
                self.err(f"argument {pn} of {mt.name} is missing", node)
            extra.append(f"gen_default_{mt.name}_{pn}")
        self.calls.add(mt.name)
        head = mt.coq if recv is None else f"{mt.coq} {recv}"
        ret = LAT if (mt.writes or mt.ctor) else mt.ret
        return self.lift(parts, lambda t: X(("(" + " ".join([head] + list(t) + extra) + ")"), ret, True))

    # ------------------------------------------------------------------ statements
    def bind(self, name, x, env, cont):
        env2 = dict(env)
        env2[name] = Var(vname(name), x.ty, x.lit if not x.mon else None)
        body = cont(env2)
        if x.mon:
            if body == f"(Ok {vname(name)})":
                return x.term
            return f"(rbind {x.term} (fun {vname(name)} => {body}))"
        return f"(let {vname(name)} := {x.term} in {body})"

    def assign_name(self, name, x, env, cont, node):
        """x = e: an existing variable keeps its type when the new value can be coerced to it"""
        if name == "self":
            self.err("assignment to self", node)
        if x.ty in ("NONELIT",):
            self.err("None is assigned to a local", node)
        if name in env and env[name].ty != x.ty and self.coercible(x.ty, env[name].ty):
            x = self.coerce(x, env[name].ty, node)
        return self.bind(name, x, env, cont)

    def store_grid(self, target, env, node):
        """X.grid_[i, j, k] as an assignment target -> (object name, array term, index X)"""
        if not (isinstance(target, ast.Subscript) and isinstance(target.value, ast.Attribute)
                and isinstance(target.value.value, ast.Name) and target.value.attr in SETTABLE):
            self.err("assignment target not accepted: " + ast.unparse(target), node)
        obj = target.value.value.id
        if obj not in env or env[obj].ty != LAT:
            self.err(f"{obj} is not a lattice", node)
        if obj == "self" and not self.cur.writes:
            self.err(f"{self.cur.name} is declared as not storing into self", node)
        return obj, target.value.attr, self.index3(target.slice, env)

    def S(self, stmts, env, k, kc):
        """k(env): what follows the statements; kc(env): what `continue` / the end of a loop body does (None
        outside a loop)"""
        if not stmts:
            return k(env)
        st, rest = stmts[0], stmts[1:]

        def cont(env2):
            return self.S(rest, env2, k, kc)
        if isinstance(st, ast.Expr) and isinstance(st.value, ast.Constant) and isinstance(st.value.value, str):
            return cont(env)
        if isinstance(st, ast.Pass):
            return cont(env)
        if isinstance(st, ast.Raise):
            if rest:
                self.err("statements after raise", rest[0])
            e = st.exc
            if not (isinstance(e, ast.Call) and isinstance(e.func, ast.Name) and e.func.id in EXN and not e.keywords
                    and all(_is_msg(a) for a in e.args) and st.cause is None):
                self.err("raise of this form not accepted", st)
            return f"(Err {e.func.id})"
        if isinstance(st, ast.Continue):
            if rest:
                self.err("statements after continue", rest[0])
            if kc is None:
                self.err("continue outside a loop", st)
            return kc(env)
        if isinstance(st, ast.Return):
            if rest:
                self.err("statements after return", rest[0])
            if kc is not None:
                self.err("return inside a loop not accepted", st)
            if self.cur.writes or self.cur.ctor:
                self.err("return in a method that stores into self", st)
            if st.value is None:
                self.err("bare return not accepted", st)
            x = self.coerce(self.E(st.value, env), self.cur.ret, st)
            return self.m(x)
        if isinstance(st, ast.AnnAssign):
            if st.value is None:
                self.err("annotated assignment not accepted", st)
            st = ast.copy_location(ast.Assign(targets=[st.target], value=st.value), st)
        if isinstance(st, ast.Assign):
            if len(st.targets) != 1:
                self.err("chained assignment not accepted", st)
            tg = st.targets[0]
            if isinstance(tg, ast.Name):
                return self.assign_name(tg.id, self.E(st.value, env), env, cont, st)
            if isinstance(tg, ast.Tuple) and all(isinstance(e, ast.Name) for e in tg.elts):
                x = self.E(st.value, env)
                if not (isinstance(x.ty, tuple) and x.ty[0] == "tup" and len(x.ty[1]) == len(tg.elts)):
                    self.err(f"cannot unpack a value of type {x.ty}", st)
                names = [e.id for e in tg.elts]
                if len(set(names)) != len(names) or "self" in names:
                    self.err("unpacking target not accepted", st)
                env2 = dict(env)
                for n, ty in zip(names, x.ty[1]):
                    env2[n] = Var(vname(n), ty)
                p = "'(" + ", ".join(vname(n) for n in names) + ")"
                if x.mon:
                    return f"(rbind {x.term} (fun {p} => {cont(env2)}))"
                return f"(let {p} := {x.term} in {cont(env2)})"
            if isinstance(tg, ast.Attribute) and isinstance(tg.value, ast.Name) and tg.value.id == "self":
                if self.ctor_attrs is None:
                    self.err("attribute store outside __init__ not accepted: " + ast.unparse(tg), st)
                if tg.attr not in ATTR_TY:
                    self.err(f"attribute {tg.attr} is not part of the object", st)
                x = self.coerce(self.E(st.value, env), ATTR_TY[tg.attr], st)
                nm = "a_" + tg.attr
                saved = dict(self.ctor_attrs)
                self.ctor_attrs[tg.attr] = Var(nm, ATTR_TY[tg.attr], x.lit if not x.mon else None)
                body = cont(env)
                self.ctor_attrs = saved
                if x.mon:
                    return f"(rbind {x.term} (fun {nm} => {body}))"
                return f"(let {nm} := {x.term} in {body})"
            obj, attr, idx = self.store_grid(tg, env, st)
            v = self.coerce(self.E(st.value, env), FK, st)
            o = env[obj].name
            new = self.lift([idx, v], lambda t: X(f"(arr_set ({attr} {o}) {t[0]} {t[1]})", ARR, True))
            g = self.fresh("g")
            return f"(rbind {new.term} (fun {g} => let {o} := set_{attr} {o} {g} in {cont(env)}))"
        if isinstance(st, ast.AugAssign):
            if isinstance(st.target, ast.Name):
                name = st.target.id
                if name not in env:
                    self.err(f"name {name} is not bound here", st)
                cur = X(env[name].name, env[name].ty, lit=env[name].lit)
                return self.assign_name(name, self.binop(st, cur, st.op, self.E(st.value, env)), env, cont, st)
            obj, attr, idx = self.store_grid(st.target, env, st)
            o = env[obj].name
            rhs = self.E(st.value, env)

            def upd(t):
                old = X(f"(arr_get ({attr} {o}) {t[0]})", FK, True)
                val = self.lift([old], lambda u: self.coerce(self.binop(st, X(u[0], FK), st.op, X(t[1], rhs.ty, False, rhs.lit)), FK, st))
                return self.lift([val], lambda u: X(f"(arr_set ({attr} {o}) {t[0]} {u[0]})", ARR, True))
            # Python evaluates the target's index, reads the cell, evaluates the right side, then stores
            new = self.lift([idx, rhs], upd)
            g = self.fresh("g")
            return f"(rbind {new.term} (fun {g} => let {o} := set_{attr} {o} {g} in {cont(env)}))"
        if isinstance(st, ast.Expr) and isinstance(st.value, ast.Call):
            c = st.value
            if ast.unparse(c.func) == "warnings.warn":
                if len(c.args) != 1 or c.keywords or not _is_msg(c.args[0]):
                    self.err("warnings.warn is accepted with one text argument", st)
                return cont(env)
            if isinstance(c.func, ast.Attribute) and isinstance(c.func.value, ast.Name) and c.func.value.id == "self" \
                    and c.func.attr in MTAB and MTAB[c.func.attr].writes:
                if not self.cur.writes:
                    self.err(f"{self.cur.name} is declared as not storing into self", st)
                x = self.method_call(MTAB[c.func.attr], "self", c.args, c.keywords, st, env)
                body = cont(env)
                if body == "(Ok self)":
                    return x.term
                return f"(rbind {x.term} (fun self => {body}))"
            self.err("expression statement not accepted: " + ast.unparse(c.func), st)
        if isinstance(st, ast.If):
            return self.tr_if(st, rest, env, k, kc)
        if isinstance(st, ast.For):
            return self.tr_for(st, rest, env, k, kc)
        self.err("statement not accepted: " + type(st).__name__, st)

    def identity_rebind(self, st, env):
        """`if isinstance(values, list): values = np.array(values, dtype=float)` on a QL name"""
        t = st.test
        if not (isinstance(t, ast.Call) and isinstance(t.func, ast.Name) and t.func.id == "isinstance" and len(t.args) == 2
                and isinstance(t.args[0], ast.Name) and ast.unparse(t.args[1]) == "list" and not st.orelse
                and len(st.body) == 1 and isinstance(st.body[0], ast.Assign)):
            return False
        nm = t.args[0].id
        a = st.body[0]
        if nm not in env or env[nm].ty != QL or len(a.targets) != 1 or ast.unparse(a.targets[0]) != nm:
            return False
        return ast.unparse(a.value) in (f"np.array({nm}, dtype=float)", f"np.array({nm})", f"np.asarray({nm}, dtype=float)")

    TYPE_RANK = [Z, Q, FV, FK, B, STR, QL, FVA, FVL, KERN, MAT, ARR, PT, PL, LAT]

    def canonical(self, names, env):
        """carried / joined variables in a canonical order: by type, then by order of first binding (so that reordering
        independent initialisations gives the same term)"""
        def key(n):
            t = env[n].ty
            return (self.TYPE_RANK.index(t) if t in self.TYPE_RANK else len(self.TYPE_RANK), names.index(n))
        return sorted(names, key=key)

    def tr_if(self, st, rest, env, k, kc):
        if self.identity_rebind(st, env):
            return self.S(rest, env, k, kc)
        c = self.cond(st.test, env)
        tb, te = terminates(st.body), terminates(st.orelse)

        def ite(b, e):
            if c.mon:
                v = self.fresh("c")
                return f"(rbind {c.term} (fun {v} => if {v} then {b} else {e}))"
            return f"(if {c.term} then {b} else {e})"
        if tb and te:
            if rest:
                self.err("statements after an if whose branches all leave", rest[0])
            return ite(self.S(st.body, env, k, kc), self.S(st.orelse, env, k, kc))
        if tb:
            return ite(self.S(st.body, env, k, kc), self.S(st.orelse + rest, env, k, kc))
        if te:
            return ite(self.S(st.body + rest, env, k, kc), self.S(st.orelse, env, k, kc))
        if not rest:
            return ite(self.S(st.body, env, k, kc), self.S(st.orelse, env, k, kc))
        # join: the names assigned in the statement that exist before it or are read afterwards
        asg = assigned([st])
        old = [n for n in env if n in asg]
        new = [n for n in asg if n not in env and read_later(n, rest)]
        seen = {}

        def kcollect(e):
            for n in old + new:
                if n not in e:
                    self.err(f"variable {n} is read after this statement but not bound on every path", st)
                seen.setdefault(n, []).append(e[n].ty)
            return "COLLECT"
        saved_n = self.n
        self.S(st.body, env, kcollect, kc)
        self.S(st.orelse, env, kcollect, kc)
        self.n = saved_n
        target = {}
        for n in old + new:
            tys = seen.get(n, [])
            ty = env[n].ty if n in env else None
            for t_ in tys:
                ty = t_ if ty is None else self.join_ty(ty, t_, st)
            if ty is None:
                self.err(f"no path through this statement falls through (variable {n})", st)
            target[n] = ty
        jv = self.canonical(old, env) + new

        def kj(e):
            parts = [self.coerce(X(e[n].name, e[n].ty, lit=e[n].lit), target[n], st) for n in jv]
            return self.m(self.lift(parts, lambda t: X(tup(list(t)), "S")))
        term = ite(self.S(st.body, env, kj, kc), self.S(st.orelse, env, kj, kc))
        env2 = dict(env)
        for n in jv:
            env2[n] = Var(vname(n), target[n])
        if not jv:
            return f"(rbind {term} (fun _ => {self.S(rest, env2, k, kc)}))"
        return f"(rbind {term} (fun {pat([vname(n) for n in jv])} => {self.S(rest, env2, k, kc)}))"

    def tr_for(self, st, rest, env, k, kc):
        if st.orelse:
            self.err("for-else not accepted", st)
        for n in ast.walk(st):
            if isinstance(n, ast.Break):
                self.err("break not accepted", n)
        tnames = target_names(st.target)
        if not (isinstance(st.target, ast.Name) or (isinstance(st.target, ast.Tuple)
                                                     and all(isinstance(e, ast.Name) for e in st.target.elts))):
            self.err("loop target not accepted", st)
        for tn in tnames:
            if tn in env or tn == "self":
                self.err(f"loop variable {tn} shadows a bound name", st)
        it = st.iter
        if isinstance(it, ast.Call) and isinstance(it.func, ast.Name) and it.func.id == "range":
            if len(it.args) != 1 or it.keywords:
                self.err("range(n) only", st)
            n = self.E(it.args[0], env)
            if n.ty != Z:
                self.err("range of a non-int", st)
            items, eltys = self.lift([n], lambda t: X(f"(py_range {t[0]})", "ITER")), [Z]
        elif isinstance(it, ast.Call) and ast.unparse(it.func) == "np.ndindex":
            if len(it.args) != 1 or it.keywords:
                self.err("np.ndindex(shape) only", st)
            s = self.E(it.args[0], env)
            if s.ty != Z3:
                self.err(f"np.ndindex of {s.ty}", st)
            items, eltys = self.lift([s], lambda t: X(f"(np_ndindex {t[0]})", "ITER")), [Z, Z, Z]
        else:
            items = self.E(it, env)
            if items.ty != PL:
                self.err(f"iteration over {items.ty}", st)
            eltys = [PT]
        if len(eltys) != len(tnames):
            self.err("loop target does not match the items", st)
        asg = assigned(st.body)
        for n in asg:
            if n not in env and n not in tnames and read_later(n, rest):
                self.err(f"variable {n} is first bound inside the loop and read after it", st)
        for tn in tnames:
            if read_later(tn, rest):
                self.err(f"loop variable {tn} is read after the loop", st)
        state = self.canonical([n for n in env if n in asg], env)
        pre = []            # widenings of loop-carried variables: (name, Var) rebinding before the loop
        env0 = dict(env)
        while True:
            envb = dict(env0)
            for tn, ty in zip(tnames, eltys):
                envb[tn] = Var(vname(tn), ty)

            def k_next(e):
                for n in state:
                    if e[n].ty != env0[n].ty:
                        if self.coercible(env0[n].ty, e[n].ty):
                            raise Widen(n, e[n].ty)
                        self.err(f"loop-carried variable {n} changes type from {env0[n].ty} to {e[n].ty}", st)
                return "(Ok " + tup([e[n].name for n in state]) + ")"
            saved_n = self.n
            try:
                body = self.S(st.body, envb, k_next, k_next)
                break
            except Widen as w:
                if w.name not in state:
                    raise
                self.n = saved_n
                x = self.coerce(X(env0[w.name].name, env0[w.name].ty, lit=env0[w.name].lit), w.ty, st)
                if x.mon:
                    self.err("internal: monadic widening", st)
                pre.append((w.name, x.term))
                env0[w.name] = Var(vname(w.name), w.ty)
        # the body becomes a definition of its own: <method>_loop<n> <free variables> <state> <item>
        sp = pat([env0[n].name for n in state])
        lp = pat([vname(tn) for tn in tnames])
        init = tup([env0[n].name for n in state])
        lname = f"{self.cur.coq}_loop{self.loop_ids[id(st)]}"
        # its free variables, in the order of their first occurrence in the body (stable under renaming and under
        # reordering of the statements in front of the loop)
        occ = {}
        for n in env0:
            if n not in state:
                mo = re.search(r"(?<![A-Za-z0-9_'])" + re.escape(env0[n].name) + r"(?![A-Za-z0-9_'])", body)
                if mo:
                    occ[n] = mo.start()
        free = sorted(occ, key=occ.get)
        params = " ".join(f"({env0[n].name} : {cty(env0[n].ty)})" for n in free)
        stty = "unit" if not state else cty(env0[state[0]].ty) if len(state) == 1 else "(" + " * ".join(cty(env0[n].ty) for n in state) + ")"
        itty = cty(eltys[0]) if len(eltys) == 1 else "(" + " * ".join(cty(t) for t in eltys) + ")"
        self.aux = [a for a in self.aux if not a.startswith(f"Definition {lname} ")]
        self.aux.append(f"Definition {lname} {params} (st_ : {stty}) (it_ : {itty}) : result {stty} :=\n"
                        f"  let {sp} := st_ in let {lp} := it_ in\n  {body}.\n")
        fn = "(" + " ".join([lname] + [env0[n].name for n in free]) + ")"
        loop = self.lift([items], lambda t: X(f"(foldM {fn} {t[0]} {init})", "S", True))
        after = self.S(rest, env0, k, kc)
        if after == "(Ok " + init + ")":
            term = loop.term
        else:
            term = f"(rbind {loop.term} (fun {sp} => {after}))"
        for name, t in reversed(pre):
            term = f"(let {vname(name)} := {t} in {term})"
        return term

    # ------------------------------------------------------------------ functions
    def function(self, fdef, mt):
        sig = self.sigs[mt.name]
        self.cur, self.n = mt, 0
        env = {}
        if not mt.ctor:
            env["self"] = Var("self", LAT)
        for pn, pty in sig["params"]:
            env[pn] = Var(vname(pn), pty)
        self.ctor_attrs = {} if mt.ctor else None
        self.aux = []
        self.loop_ids = {}
        for n in ast.walk(fdef):          # breadth first; renumber in source order
            if isinstance(n, ast.For):
                self.loop_ids[id(n)] = (n.lineno, n.col_offset)
        for i, key in enumerate(sorted(self.loop_ids, key=lambda q: self.loop_ids[q])):
            self.loop_ids[key] = i + 1

        def kend(e):
            if mt.ctor:
                missing = [a for a, _ in ATTRS if a not in self.ctor_attrs]
                if missing:
                    self.err("__init__ does not assign " + ", ".join(missing), fdef)
                return "(Ok (Lat " + " ".join(self.ctor_attrs[a].name for a, _ in ATTRS) + "))"
            if mt.writes:
                return "(Ok self)"
            if mt.ret == NONE:
                return "(Ok tt)"
            if isinstance(mt.ret, tuple) and mt.ret[0] == "opt":
                return "(Ok None)"
            self.err("the method may end without returning", fdef)
        term = self.S(strip_doc(fdef.body), env, kend, None)
        params = " ".join(f"({vname(pn)} : {cty(pty)})" for pn, pty in sig["params"])
        selfp = "" if mt.ctor else "(self : lat K) "
        ret = LAT if (mt.writes or mt.ctor) else mt.ret
        return "\n".join(self.aux + [f"Definition {mt.coq} {selfp}{params} : result {cty(ret)} :=\n  {term}.\n"])


def signature(fdef, mt, path):
    a = fdef.args
    if a.vararg or a.kwarg or a.kwonlyargs or a.posonlyargs or not a.args or a.args[0].arg != "self":
        raise TranslateError("parameter kinds not accepted", fdef, path)
    if fdef.decorator_list:
        raise TranslateError("decorators not accepted", fdef, path)
    args = a.args[1:]
    if len(args) != len(mt.ptypes):
        raise TranslateError(f"{mt.name}: {len(args)} parameters, the fragment knows {len(mt.ptypes)}", fdef, path)
    defaults = dict(zip([p.arg for p in args[len(args) - len(a.defaults):]], a.defaults))
    params, dflt = [], {}
    for p, ty in zip(args, mt.ptypes):
        params.append((p.arg, ty))
        d = defaults.get(p.arg)
        if d is None:
            continue
        if isinstance(d, ast.Constant) and d.value is None and isinstance(ty, tuple) and ty[0] == "opt":
            dflt[p.arg] = (cty(ty), "None")
        elif isinstance(d, ast.Constant) and isinstance(d.value, bool) and ty == B:
            dflt[p.arg] = ("bool", "true" if d.value else "false")
        elif isinstance(d, ast.Constant) and isinstance(d.value, str) and ty == STR:
            dflt[p.arg] = ("string", slit(d.value))
        else:
            raise TranslateError(f"default of {p.arg} not accepted", fdef, path)
    return {"params": params, "defaults": dflt}


def translate():
    tree, path = parse(SRC)
    cls = find_class(tree, CLASS)
    fdefs = {m.name: find_func(cls, m.name) for m in METHODS}
    for m in METHODS:
        if sum(1 for n in cls.body if isinstance(n, ast.FunctionDef) and n.name == m.name) != 1:
            raise TranslateError(f"method {m.name} is defined more than once", fdefs[m.name], path)
    sigs = {m.name: signature(fdefs[m.name], m, path) for m in METHODS}
    tr = Translator(path, sigs)
    defs, deps = {}, {}
    for m in METHODS:
        tr.calls = set()
        defs[m.name] = tr.function(fdefs[m.name], m)
        deps[m.name] = set(tr.calls)
    order, state = [], {}

    def visit(n):
        if state.get(n) == 2:
            return
        if state.get(n) == 1:
            raise TranslateError("recursion between the translated methods at " + n)
        state[n] = 1
        for d in sorted(deps[n], key=[m.name for m in METHODS].index):
            visit(d)
        state[n] = 2
        order.append(n)
    for m in METHODS:
        visit(m.name)
    return {"sigs": sigs, "defs": defs, "order": order, "fdefs": fdefs}


def generate():
    t = translate()
    out = [HEADER,
           "From Coq Require Import String List ZArith QArith Qabs Bool.\n"
           "From SX Require Import Lib.Py Lib.QCheck Model.SmearRt.\nImport ListNotations.\n\n",
           "(* defaults of the parameters *)\n"]
    for m in METHODS:
        for p, (ty, term) in t["sigs"][m.name]["defaults"].items():
            if "K" in ty:
                raise TranslateError("a default of a carrier type")
            out.append(f"Definition gen_default_{m.name}_{p} : {ty} := {term}.\n")
    out.append("\nSection Methods.\n"
               "  Variable K : Type.\n  Variables (k0 k1 : K) (kadd kmul kdiv : K -> K -> K) (kgtb : K -> K -> bool) (kofq : Q -> K).\n"
               "  Variable P : Type.\n  Variable pfv : string -> P -> fv.\n  Variable pfk : string -> P -> option K.\n"
               "  Variable KERN : Type.\n  Variable o_mvn : list fv -> smat -> result KERN.\n"
               "  Variable o_pdf : KERN -> list fv -> option K.\n  Variable o_sqrt : fv -> fv.\n\n")
    for name in t["order"]:
        src = " ".join(ast.unparse(t["fdefs"][name].args).split())
        out.append(f"(* def {name}({src}) *)\n" + t["defs"][name] + "\n")
    out.append("End Methods.\n")
    return "".join(out)


def main(outdir):
    return write_if_changed(outdir + "/GenSmear.v", generate())

"""Gen/GenEccMethods.v from src/sparkx/EventCharacteristics.py: the WHOLE bodies of

    EventCharacteristics.set_event_data        -> gen_set_event_data            : ecself -> evarg -> result ecself
    EventCharacteristics.__init__              -> gen_init                      : ecself -> evarg -> result ecself
    EventCharacteristics.eccentricity_from_particles -> gen_eccentricity_from_particles : ecself -> Z -> option Z -> string -> result cx
    EventCharacteristics.eccentricity_from_lattice   -> gen_eccentricity_from_lattice   : ecself -> Z -> option Z -> result cx
    EventCharacteristics.eccentricity          -> gen_eccentricity              : ecself -> Z -> option Z -> string -> result cx
    defaults of their parameters               -> gen_default_<method>_<parameter>

as Gallina functions over coq/Model/EccRt.v, statement by statement in source order.  Proofs/Ecc_Source.v proves
them equal to the hand model Model/Ecc.v.  (tools/py2coq/gen_ecc.py, which extracts the table- and formula-shaped
parts into Gen/GenEcc.v, is independent of this file and stays as it is.)

Conventions of the translation (the proofs rely on them):
  * a Python local `x` is the Coq variable `v_x`, rebinding is shadowing; `self` is `v_self`, an attribute
    assignment `self.a = e` rebinds it (`set_a v_self e`); a method without `return` gives back the object;
  * everything is in the exception monad `result` (Lib/Py.v): `x = e` is `let` when e cannot raise, else `bind`;
    operands are evaluated left to right; `and`/`or` are `&&`/`||`, or andM/orM when an operand may raise;
  * `if` whose body leaves (raise/return) : `if c then <body> else <rest>`; otherwise the names assigned in the
    branches are joined as a tuple (in order of first assignment) and the rest follows;
  * `for x in e: body` is `fold_leftM` over the loop-carried variables = the names bound before the loop and
    assigned in it, ordered by their first read AFTER the loop (then by binding order); iterating the event data
    is `ev_iter` (TypeError for a non-sequence), `for i, j, k in np.ndindex(s)` iterates `np_ndindex s`;
  * types of the fragment: int (Z), Optional[int] (option Z: harmonic_m; used as a number it is `need_int`, TypeError
    on None), str, float (`fl`: Python float or numpy float64, see EccRt.v), Optional[float] (`need_float`),
    complex (`cx`), bool, the event data (`evarg`), a list element (`pyobj`), a shape, a coordinate triple;
  * numbers: an int meeting a float is converted (`fl_of_int`); `a / <non-zero literal>` is `fl_divc`, any other
    division `fl_div` (may raise ZeroDivisionError); `a ** <int literal >= 0>` is `fl_powi`, `a ** <float>` is
    `fl_powf` (ORACLE upow); `A + B * 1j` with float A, B is `cx_make A B` (the only accepted use of a complex
    literal), unary minus on it `cx_neg`;
  * `x is None` / `is not None`: `opt_is_none` on Optional[int], `int_is_none` (= false) on an int;
  * `isinstance(e, T)` on the event data / a list element: `ev_isinstance` / `obj_isinstance` with the listed types;
  * `<element>.name` is `obj_attr` (AttributeError when the element is not a Particle);
  * calls: np.arctan2 / np.cos / np.sin -> np_arctan2 / np_cos / np_sin (ORACLES uatan2, ucos, usin);
    `<event data>.grid_.shape`, `.get_coordinates(i, j, k)`, `.get_value_by_index(i, j, k)` -> ev_grid_shape,
    ev_get_coordinates, ev_get_value_by_index (AttributeError when the event data is not a Lattice3D);
    `self.<translated method>(...)` with positional or keyword arguments, omitted ones take the callee's default;
  * raise Cls(<message>) is `Err Cls`; messages, docstrings and type annotations are not translated; `pass` is nothing;
    None / an int literal given for an Optional[int] parameter of a translated method is `None` / `Some k`.
Oracles (Section variables of the generated file): upow, uatan2, ucos, usin; kis0 is the zero test of the carrier.
Pinned textually (normalised with ast.unparse, compared with the copy below, fail-closed) - these are methods of
ANOTHER class whose meaning is fixed in EccRt.v (lat_get_value, lat_get_coordinates, lat_is_valid_index,
lat_get_value_by_index):  Lattice3D.__get_value, get_coordinates, __is_valid_index, get_value_by_index;
and the three import lines that give `np`, `Particle`, `Lattice3D` their meaning.
Fail-closed: every statement / expression shape that is not accepted below raises TranslateError with the position.
"""
import ast
from .core import *

SRC = "src/sparkx/EventCharacteristics.py"
LATTICE_SRC = "src/sparkx/Lattice3D.py"
OUTPUTS = ["GenEccMethods"]
# callee before caller
METHODS = ["set_event_data", "__init__", "eccentricity_from_particles", "eccentricity_from_lattice", "eccentricity"]

INT, OINT, STR, FL, OFL, CX, BOOL, EV, OBJ, SHAPE, T3FL, SELF, ITEMS, IDX = (
    "INT", "OINT", "STR", "FL", "OFL", "CX", "BOOL", "EV", "OBJ", "SHAPE", "T3FL", "SELF", "ITEMS", "IDX")
COQ_TY = {INT: "Z", OINT: "(option Z)", STR: "string", FL: "fl", OFL: "(option fl)", CX: "cx", BOOL: "bool", EV: "evarg",
          OBJ: "pyobj", SELF: "ecself", SHAPE: "(Z * Z * Z)", T3FL: "(fl * fl * fl)"}
PARAM_TY = {"harmonic_n": INT, "harmonic_m": OINT, "weight_quantity": STR, "event_data": EV}
SELF_ATTRS = {"event_data_": EV, "has_lattice_": BOOL}
EXN = {"TypeError", "ValueError", "IndexError", "KeyError", "AttributeError", "ZeroDivisionError"}
ISINSTANCE = {"list": "T_list", "np.ndarray": "T_ndarray", "Lattice3D": "T_Lattice3D", "Particle": "T_Particle"}
IMPORTS = ["import numpy as np", "from sparkx.Particle import Particle", "from sparkx.Lattice3D import Lattice3D"]
LATTICE_PINNED = {
    "__get_value": ("(self, index: int, values: np.ndarray, num_points: int)",
                    "if index < 0 or index >= num_points:\n    raise ValueError('Index is outside the specified range.')\n"
                    "return values[index]"),
    "get_coordinates": ("(self, i: int, j: int, k: int)",
                        "x = self.__get_value(i, self.x_values_, self.num_points_x_)\n"
                        "y = self.__get_value(j, self.y_values_, self.num_points_y_)\n"
                        "z = self.__get_value(k, self.z_values_, self.num_points_z_)\n"
                        "return (x, y, z)"),
    "__is_valid_index": ("(self, i: int, j: int, k: int)",
                         "return 0 <= i < self.num_points_x_ and 0 <= j < self.num_points_y_ and (0 <= k < self.num_points_z_)"),
    "get_value_by_index": ("(self, i: int, j: int, k: int)",
                           "if not self.__is_valid_index(i, j, k):\n"
                           "    warnings.warn('Provided indices are outside the lattice range.')\n    return None\n"
                           "else:\n    return self.grid_[i, j, k]"),
}

PRELUDE = """From Coq Require Import List ZArith Bool String.
From SX Require Import Lib.KRing Lib.Py Model.Ecc Model.EccRt.
Import ListNotations.

Section Methods.
  Variable K : Type.
  Variables (k0 k1 : K) (kadd kmul ksub kdiv : K -> K -> K) (kopp : K -> K).
  Variable kis0 : K -> bool.
  (* oracles: `**` with a float exponent, np.arctan2, np.cos, np.sin *)
  Variables (upow uatan2 : K -> K -> K) (ucos usin : K -> K).
  Notation fl := (EccRt.fl K).
  Notation cx := (EccRt.cx K).
  Notation pyobj := (EccRt.pyobj K).
  Notation evarg := (EccRt.evarg K).
  Notation ecself := (EccRt.ecself K).
  Notation fl_add := (EccRt.fl_add K kadd).
  Notation fl_sub := (EccRt.fl_sub K ksub).
  Notation fl_mul := (EccRt.fl_mul K kmul).
  Notation fl_neg := (EccRt.fl_neg K kopp).
  Notation fl_div := (EccRt.fl_div K kdiv kis0).
  Notation fl_divc := (EccRt.fl_divc K kdiv).
  Notation k_lit := (EccRt.k_lit K k0 k1 kadd kmul kopp).
  Notation fl_lit := (EccRt.fl_lit K k0 k1 kadd kmul kopp).
  Notation fl_of_int := (EccRt.fl_of_int K k0 k1 kadd kmul kopp).
  Notation fl_powi := (EccRt.fl_powi K k1 kmul).
  Notation fl_powf := (EccRt.fl_powf K upow).
  Notation np_arctan2 := (EccRt.np_arctan2 K uatan2).
  Notation np_cos := (EccRt.np_cos K ucos).
  Notation np_sin := (EccRt.np_sin K usin).
  Notation cx_neg := (EccRt.cx_neg K kopp).

"""


def z_lit(v):
    return f"{v}%Z" if v >= 0 else f"({v})%Z"


def s_lit(s):
    if any(ord(c) > 126 or ord(c) < 32 or c == '"' for c in s):
        raise TranslateError("string literal not accepted: " + repr(s))
    return f'"{s}"%string'


def vname(py):
    if not py.replace("_", "a").isalnum():
        raise TranslateError("identifier not accepted: " + py)
    return "v_" + py


class X:
    """a translated expression: Coq term, fragment type, monadic (term : result T) or pure (term : T), int literal"""

    def __init__(self, term, ty, mon=False, lit=None):
        self.term, self.ty, self.mon, self.lit = term, ty, mon, lit


class Var:
    def __init__(self, name, ty):
        self.name, self.ty = name, ty


def _is_msg(node):
    if isinstance(node, ast.Constant) and isinstance(node.value, str):
        return True
    if isinstance(node, ast.JoinedStr):
        return all(isinstance(v, ast.Constant) for v in node.values)
    if isinstance(node, ast.BinOp) and isinstance(node.op, ast.Add):
        return _is_msg(node.left) and _is_msg(node.right)
    return False


def terminates(stmts):
    if not stmts:
        return False
    last = stmts[-1]
    if isinstance(last, (ast.Return, ast.Raise)):
        return True
    if isinstance(last, ast.If):
        return terminates(last.body) and terminates(last.orelse)
    return False


def assigned(stmts):
    """names (re)bound by the statements in order of first assignment, nested blocks included; an attribute
    assignment or a call of a translated method that updates the object rebinds `self`"""
    out = []

    def add(n):
        if n not in out:
            out.append(n)

    def target(t):
        if isinstance(t, ast.Name):
            add(t.id)
        elif isinstance(t, ast.Tuple):
            for e in t.elts:
                target(e)
        elif isinstance(t, ast.Attribute) and isinstance(t.value, ast.Name):
            add(t.value.id)
    for st in stmts:
        if isinstance(st, ast.Assign):
            for t in st.targets:
                target(t)
        elif isinstance(st, ast.AugAssign):
            target(st.target)
        elif isinstance(st, ast.If):
            for n in assigned(st.body) + assigned(st.orelse):
                add(n)
        elif isinstance(st, ast.For):
            target(st.target)
            for n in assigned(st.body):
                add(n)
        elif (isinstance(st, ast.Expr) and isinstance(st.value, ast.Call) and isinstance(st.value.func, ast.Attribute)
              and isinstance(st.value.func.value, ast.Name)):
            add(st.value.func.value.id)
    return out


def loads_in_order(stmts):
    """names read by the statements, in source order"""
    found = []
    for st in stmts:
        for n in ast.walk(st):
            if isinstance(n, ast.Name) and isinstance(n.ctx, ast.Load):
                found.append((n.lineno, n.col_offset, n.id))
    out = []
    for _, _, name in sorted(found):
        if name not in out:
            out.append(name)
    return out


class Translator:
    def __init__(self, path):
        self.path = path
        self.n = 0
        self.sigs = {}            # translated methods: name -> {"params": [(name, ty)], "defaults": {...}, "ret": ty}
        self.ret_seen = []

    def err(self, msg, node):
        raise TranslateError(msg, node, self.path)

    def fresh(self, base="t"):
        self.n += 1
        return f"{base}{self.n}_"

    # ------------------------------------------------------------------ plumbing
    def lift(self, parts, f):
        """parts: [X]; f(pure terms) -> X.  Monadic parts are bound left to right (Python's evaluation order)."""
        names, binds = [], []
        for p in parts:
            if p.mon:
                v = self.fresh()
                binds.append((v, p.term))
                names.append(v)
            else:
                names.append(p.term)
        r = f(names)
        if not binds:
            return r
        inner = r.term if r.mon else f"(Ok {r.term})"
        for v, term in reversed(binds):
            inner = f"(bind {term} (fun {v} => {inner}))"
        return X(inner, r.ty, True)

    @staticmethod
    def m(x):
        return x.term if x.mon else f"(Ok {x.term})"

    def number(self, x, node):
        """Optional[int] / Optional[float] used as a number"""
        if x.ty == OINT:
            return self.lift([x], lambda t: X(f"(need_int {t[0]})", INT, True))
        if x.ty == OFL:
            return self.lift([x], lambda t: X(f"(need_float {t[0]})", FL, True))
        if x.ty in (INT, FL):
            return x
        self.err(f"a value of type {x.ty} where a number is needed", node)

    def to_fl(self, x, node):
        x = self.number(x, node)
        if x.ty == FL:
            return x
        return self.lift([x], lambda t: X(f"(fl_of_int {t[0]})", FL))

    # ------------------------------------------------------------------ expressions
    def E(self, node, env):
        if isinstance(node, ast.Constant):
            v = node.value
            if isinstance(v, bool):
                return X("true" if v else "false", BOOL)
            if v is None:
                self.err("None is accepted only in `is None` / `is not None` and as a default", node)
            if isinstance(v, int):
                return X(z_lit(v), INT, lit=v)
            if isinstance(v, float):
                if v != v or v in (float("inf"), float("-inf")) or float(int(v)) != v:
                    self.err("float literal must be finite with an integral value", node)
                return X(f"(fl_lit {z_lit(int(v))})", FL, lit=int(v))
            if isinstance(v, str):
                return X(s_lit(v), STR)
            self.err("constant not accepted: " + repr(v), node)
        if isinstance(node, ast.Name):
            if node.id not in env:
                self.err(f"name {node.id} is not bound here", node)
            v = env[node.id]
            return X(v.name, v.ty)
        if isinstance(node, ast.Attribute):
            if isinstance(node.value, ast.Name) and node.value.id == "self":
                if node.attr not in SELF_ATTRS:
                    self.err("attribute of self not accepted: " + node.attr, node)
                return X(f"({node.attr} {env['self'].name})", SELF_ATTRS[node.attr])
            if node.attr == "shape" and isinstance(node.value, ast.Attribute) and node.value.attr == "grid_":
                b = self.E(node.value.value, env)
                if b.ty != EV:
                    self.err(f".grid_.shape of {b.ty}", node)
                return self.lift([b], lambda t: X(f"(ev_grid_shape {t[0]})", SHAPE, True))
            b = self.E(node.value, env)
            if b.ty == OBJ:
                return self.lift([b], lambda t: X(f"(obj_attr {t[0]} {s_lit(node.attr)})", FL, True))
            self.err("attribute access not accepted: " + ast.unparse(node), node)
        if isinstance(node, ast.UnaryOp) and isinstance(node.op, ast.USub):
            a = self.E(node.operand, env)
            if a.ty == CX:
                return self.lift([a], lambda t: X(f"(cx_neg {t[0]})", CX))
            if a.ty == INT and a.lit is not None:
                return X(z_lit(-a.lit), INT, lit=-a.lit)
            a = self.number(a, node)
            if a.ty == INT:
                return self.lift([a], lambda t: X(f"(- {t[0]})%Z", INT))
            return self.lift([a], lambda t: X(f"(fl_neg {t[0]})", FL))
        if isinstance(node, ast.BinOp):
            r = node.right
            if (isinstance(node.op, ast.Add) and isinstance(r, ast.BinOp) and isinstance(r.op, ast.Mult)
                    and isinstance(r.right, ast.Constant) and isinstance(r.right.value, complex)):
                if r.right.value != 1j:
                    self.err("the only complex literal accepted is 1j", node)
                a, b = self.E(node.left, env), self.E(r.left, env)
                if a.ty != FL or b.ty != FL:
                    self.err(f"`A + B * 1j` with A : {a.ty}, B : {b.ty}", node)
                return self.lift([a, b], lambda t: X(f"(cx_make {t[0]} {t[1]})", CX))
            return self.binop(node, self.E(node.left, env), node.op, self.E(node.right, env))
        if isinstance(node, ast.Call):
            return self.call(node, env)
        self.err("expression not accepted: " + type(node).__name__ + " " + ast.unparse(node)[:60], node)

    def binop(self, node, a, op, b):
        names = {ast.Add: "add", ast.Sub: "sub", ast.Mult: "mul"}
        if isinstance(op, ast.Pow):
            if b.ty == INT and b.lit is not None and b.lit >= 0:
                a = self.to_fl(a, node)
                return self.lift([a], lambda t: X(f"(fl_powi {t[0]} {b.lit}%nat)", FL))
            if b.ty == FL:
                a = self.to_fl(a, node)
                return self.lift([a, b], lambda t: X(f"(fl_powf {t[0]} {t[1]})", FL))
            self.err(f"`**` with an exponent of type {b.ty}", node)
        if isinstance(op, ast.Div):
            if b.lit is not None:
                if b.lit == 0:
                    self.err("division by the literal zero", node)
                a = self.to_fl(a, node)
                return self.lift([a], lambda t: X(f"(fl_divc {t[0]} (k_lit {z_lit(b.lit)}))", FL))
            a, b = self.to_fl(a, node), self.to_fl(b, node)
            return self.lift([a, b], lambda t: X(f"(fl_div {t[0]} {t[1]})", FL, True))
        if type(op) not in names:
            self.err("operator not accepted: " + type(op).__name__, node)
        o = names[type(op)]
        a, b = self.number(a, node), self.number(b, node)
        if a.ty == INT and b.ty == INT:
            sym = {"add": "+", "sub": "-", "mul": "*"}[o]
            return self.lift([a, b], lambda t: X(f"({t[0]} {sym} {t[1]})%Z", INT))
        a, b = self.to_fl(a, node), self.to_fl(b, node)
        return self.lift([a, b], lambda t: X(f"(fl_{o} {t[0]} {t[1]})", FL))

    def call(self, node, env):
        f = node.func
        src = ast.unparse(f)
        if src in ("np.arctan2", "np.cos", "np.sin"):
            want = 2 if src == "np.arctan2" else 1
            if node.keywords or len(node.args) != want:
                self.err(f"{src} takes {want} positional argument(s)", node)
            args = [self.to_fl(self.E(a, env), node) for a in node.args]
            fn = src.replace("np.", "np_")
            return self.lift(args, lambda t: X(f"({fn} {' '.join(t)})", FL))
        if src == "np.ndindex":
            if node.keywords or len(node.args) != 1:
                self.err("np.ndindex(shape) only", node)
            s = self.E(node.args[0], env)
            if s.ty != SHAPE:
                self.err(f"np.ndindex of {s.ty}", node)
            return self.lift([s], lambda t: X(f"(np_ndindex {t[0]})", IDX))
        if isinstance(f, ast.Attribute) and isinstance(f.value, ast.Name) and f.value.id == "self":
            return self.self_call(node, env)
        if isinstance(f, ast.Attribute) and f.attr in ("get_coordinates", "get_value_by_index"):
            recv = self.E(f.value, env)
            if recv.ty != EV:
                self.err(f"{f.attr} of {recv.ty}", node)
            if node.keywords or len(node.args) != 3:
                self.err(f"{f.attr}(i, j, k) only", node)
            args = [self.E(a, env) for a in node.args]
            if any(a.ty != INT for a in args):
                self.err(f"{f.attr}: the indices must be ints", node)
            ty = T3FL if f.attr == "get_coordinates" else OFL
            return self.lift([recv] + args, lambda t: X(f"(ev_{f.attr} {' '.join(t)})", ty, True))
        self.err("call not accepted: " + src, node)

    def self_call(self, node, env):
        name = node.func.attr
        if name not in self.sigs:
            self.err("method call not accepted: self." + name, node)
        sig = self.sigs[name]
        pnames = [p for p, _ in sig["params"]]
        given = {}
        if len(node.args) > len(pnames):
            self.err(f"too many arguments for {name}", node)
        for p, a in zip(pnames, node.args):
            given[p] = a
        for kw in node.keywords:
            if kw.arg is None or kw.arg not in pnames or kw.arg in given:
                self.err(f"keyword argument of {name} not accepted: {kw.arg}", node)
            given[kw.arg] = kw.value
        parts = [X(env["self"].name, SELF)]
        for p, ty in sig["params"]:
            if p in given:
                g = given[p]
                if ty == OINT and isinstance(g, ast.Constant) and g.value is None:
                    x = X("(@None Z)", OINT)
                elif ty == OINT and isinstance(g, ast.Constant) and isinstance(g.value, int) and not isinstance(g.value, bool):
                    x = X(f"(Some {z_lit(g.value)})", OINT)
                else:
                    x = self.E(g, env)
                if x.ty != ty:
                    self.err(f"argument {p} of {name}: {x.ty}, expected {ty}", node)
            elif p in sig["defaults"]:
                x = X(f"gen_default_{sig['coq']}_{p}", ty)
            else:
                self.err(f"argument {p} of {name} is missing", node)
            parts.append(x)
        return self.lift(parts, lambda t: X(f"(gen_{sig['coq']} {' '.join(t)})", sig["ret"], True))

    # ------------------------------------------------------------------ conditions -> X of type BOOL
    def types_of(self, node):
        tys = node.elts if isinstance(node, ast.Tuple) else [node]
        out = []
        for t in tys:
            s = ast.unparse(t)
            if s not in ISINSTANCE:
                self.err("isinstance type not accepted: " + s, node)
            out.append(ISINSTANCE[s])
        return "[" + "; ".join(out) + "]"

    def C(self, node, env):
        if isinstance(node, ast.BoolOp):
            parts = [self.C(v, env) for v in node.values]
            is_and = isinstance(node.op, ast.And)
            if all(not p.mon for p in parts):
                return X("(" + (" && " if is_and else " || ").join(p.term for p in parts) + ")", BOOL)
            term = self.m(parts[-1])
            for p in reversed(parts[:-1]):
                term = f"({'andM' if is_and else 'orM'} {self.m(p)} {term})"
            return X(term, BOOL, True)
        if isinstance(node, ast.UnaryOp) and isinstance(node.op, ast.Not):
            return self.lift([self.C(node.operand, env)], lambda t: X(f"(negb {t[0]})", BOOL))
        if isinstance(node, ast.Compare):
            return self.compare(node, env)
        if isinstance(node, ast.Call) and isinstance(node.func, ast.Name) and node.func.id == "isinstance":
            if node.keywords or len(node.args) != 2:
                self.err("isinstance(x, T) only", node)
            a = self.E(node.args[0], env)
            tys = self.types_of(node.args[1])
            fn = {EV: "ev_isinstance", OBJ: "obj_isinstance"}.get(a.ty)
            if fn is None:
                self.err(f"isinstance of {a.ty}", node)
            return self.lift([a], lambda t: X(f"({fn} {t[0]} {tys})", BOOL))
        if isinstance(node, (ast.Name, ast.Attribute)):
            x = self.E(node, env)
            if x.ty != BOOL:
                self.err(f"truth value of {x.ty} not accepted", node)
            return x
        self.err("condition not accepted: " + ast.unparse(node)[:70], node)

    def compare(self, node, env):
        if len(node.ops) != 1:
            self.err("chained comparison not accepted", node)
        op, rhs = node.ops[0], node.comparators[0]
        if isinstance(op, (ast.Is, ast.IsNot)):
            if not (isinstance(rhs, ast.Constant) and rhs.value is None):
                self.err("`is` accepted only against None", node)
            a = self.E(node.left, env)
            fn = {OINT: "opt_is_none", INT: "int_is_none"}.get(a.ty)
            if fn is None:
                self.err(f"`is None` on {a.ty}", node)
            neg = isinstance(op, ast.IsNot)
            return self.lift([a], lambda t: X(f"(negb ({fn} {t[0]}))" if neg else f"({fn} {t[0]})", BOOL))
        a, b = self.E(node.left, env), self.E(rhs, env)
        if a.ty == STR and b.ty == STR:
            if not isinstance(op, (ast.Eq, ast.NotEq)):
                self.err("comparison of strings accepted only with == / !=", node)
            neg = isinstance(op, ast.NotEq)
            return self.lift([a, b], lambda t: X(f"(negb (String.eqb {t[0]} {t[1]}))" if neg else f"(String.eqb {t[0]} {t[1]})", BOOL))
        a, b = self.number(a, node), self.number(b, node)
        if a.ty != INT or b.ty != INT:
            self.err(f"comparison of {a.ty} and {b.ty} not accepted", node)
        table = {ast.LtE: "({0} <=? {1})%Z", ast.Lt: "({0} <? {1})%Z", ast.GtE: "({1} <=? {0})%Z", ast.Gt: "({1} <? {0})%Z",
                 ast.Eq: "({0} =? {1})%Z", ast.NotEq: "(negb ({0} =? {1})%Z)"}
        if type(op) not in table:
            self.err("comparison operator not accepted: " + type(op).__name__, node)
        return self.lift([a, b], lambda t: X(table[type(op)].format(t[0], t[1]), BOOL))

    # ------------------------------------------------------------------ statements
    def tuple_of(self, names, env):
        ts = [env[n].name for n in names]
        return "tt" if not ts else ts[0] if len(ts) == 1 else "(" + ", ".join(ts) + ")"

    def pat_of(self, names, env):
        ts = [env[n].name for n in names]
        return "_" if not ts else ts[0] if len(ts) == 1 else "'(" + ", ".join(ts) + ")"

    def bind_name(self, name, x, env, cont):
        if name in env and env[name].ty != x.ty:
            raise TranslateError(f"variable {name} changes type from {env[name].ty} to {x.ty}")
        if x.ty not in COQ_TY:
            raise TranslateError(f"a value of type {x.ty} cannot be stored in a variable")
        env2 = dict(env)
        env2[name] = Var(vname(name), x.ty)
        if x.mon:
            return f"(bind {x.term} (fun {vname(name)} => {cont(env2)}))"
        return f"(let {vname(name)} := {x.term} in {cont(env2)})"

    def S(self, stmts, env, k, in_loop):
        if not stmts:
            return k(env)
        st, rest = stmts[0], stmts[1:]

        def cont(env2):
            return self.S(rest, env2, k, in_loop)
        if isinstance(st, ast.Expr) and isinstance(st.value, ast.Constant) and isinstance(st.value.value, str):
            return cont(env)
        if isinstance(st, ast.Pass):
            return cont(env)
        if isinstance(st, ast.Raise):
            if rest:
                self.err("statements after raise", rest[0])
            e = st.exc
            if not (isinstance(e, ast.Call) and isinstance(e.func, ast.Name) and e.func.id in EXN and not e.keywords
                    and all(_is_msg(a) for a in e.args) and st.cause is None):
                self.err("raise of this form not accepted", st)
            return f"(Err {e.func.id})"
        if isinstance(st, ast.Return):
            if rest:
                self.err("statements after return", rest[0])
            if in_loop:
                self.err("return inside a loop not accepted", st)
            if st.value is None:
                self.err("bare return not accepted", st)
            x = self.E(st.value, env)
            self.ret_seen.append(x.ty)
            return self.m(x)
        if isinstance(st, ast.Assign):
            if len(st.targets) != 1:
                self.err("multiple assignment targets not accepted", st)
            t = st.targets[0]
            x = self.E(st.value, env)
            if isinstance(t, ast.Name):
                if t.id == "self":
                    self.err("assignment to self", st)
                return self.bind_name(t.id, x, env, cont)
            if isinstance(t, ast.Attribute) and isinstance(t.value, ast.Name) and t.value.id == "self":
                if t.attr not in SELF_ATTRS:
                    self.err("attribute of self not accepted: " + t.attr, st)
                if x.ty != SELF_ATTRS[t.attr]:
                    self.err(f"self.{t.attr} receives {x.ty}, expected {SELF_ATTRS[t.attr]}", st)
                s = env["self"].name
                upd = self.lift([x], lambda a: X(f"(set_{t.attr} {s} {a[0]})", SELF))
                return self.bind_name("self", upd, env, cont)
            if isinstance(t, ast.Tuple) and all(isinstance(e, ast.Name) for e in t.elts):
                if x.ty != T3FL or len(t.elts) != 3:
                    self.err(f"tuple assignment of {x.ty} to {len(t.elts)} names", st)
                names = [e.id for e in t.elts]
                if len(set(names)) != 3 or "self" in names:
                    self.err("tuple assignment targets must be three different names", st)
                for n in names:
                    if n in env and env[n].ty != FL:
                        self.err(f"variable {n} changes type", st)
                env2 = dict(env)
                for n in names:
                    env2[n] = Var(vname(n), FL)
                pat = "'(" + ", ".join(vname(n) for n in names) + ")"
                return f"(bind {self.m(x)} (fun {pat} => {cont(env2)}))"
            self.err("assignment target not accepted", st)
        if isinstance(st, ast.AugAssign):
            if not isinstance(st.target, ast.Name):
                self.err("assignment target not accepted", st)
            name = st.target.id
            if name not in env:
                self.err(f"name {name} is not bound here", st)
            x = self.binop(st, X(env[name].name, env[name].ty), st.op, self.E(st.value, env))
            return self.bind_name(name, x, env, cont)
        if isinstance(st, ast.Expr) and isinstance(st.value, ast.Call):
            c = st.value
            if not (isinstance(c.func, ast.Attribute) and isinstance(c.func.value, ast.Name) and c.func.value.id == "self"):
                self.err("expression statement not accepted: " + ast.unparse(c.func), st)
            x = self.self_call(c, env)
            if x.ty != SELF:
                self.err("the value of this call is discarded", st)
            return self.bind_name("self", x, env, cont)
        if isinstance(st, ast.If):
            return self.tr_if(st, rest, env, k, in_loop)
        if isinstance(st, ast.For):
            return self.tr_for(st, rest, env, k, in_loop)
        self.err("statement not accepted: " + type(st).__name__, st)

    def tr_if(self, st, rest, env, k, in_loop):
        c = self.C(st.test, env)

        def ite(b, e):
            if c.mon:
                v = self.fresh("c")
                return f"(bind {c.term} (fun {v} => if {v} then {b} else {e}))"
            return f"(if {c.term} then {b} else {e})"
        tb, te = terminates(st.body), terminates(st.orelse)
        if tb and te and rest:
            self.err("statements after an if whose branches all leave", rest[0])
        if tb:
            return ite(self.S(st.body, env, k, in_loop), self.S(st.orelse + rest, env, k, in_loop))
        if not rest:
            return ite(self.S(st.body, env, k, in_loop), self.S(st.orelse, env, k, in_loop))
        # join: the names assigned in the branches, in order of first assignment
        jvars = assigned([st])
        tys = {}

        def kj(e):
            for n in jvars:
                if n not in e:
                    self.err(f"variable {n} is not assigned in every branch that continues", st)
                if tys.setdefault(n, e[n].ty) != e[n].ty:
                    self.err(f"variable {n} has different types in the branches", st)
                if n in env and env[n].ty != e[n].ty:
                    self.err(f"variable {n} changes type in a branch", st)
            return "(Ok " + self.tuple_of(jvars, e) + ")"
        term = ite(self.S(st.body, env, kj, in_loop), self.S(st.orelse, env, kj, in_loop))
        if set(tys) != set(jvars):
            self.err("no branch of this if continues", st)
        env2 = dict(env)
        for n in jvars:
            env2[n] = Var(vname(n), tys[n])
        return f"(bind {term} (fun {self.pat_of(jvars, env2)} => {self.S(rest, env2, k, in_loop)}))"

    def tr_for(self, st, rest, env, k, in_loop):
        if st.orelse:
            self.err("for-else not accepted", st)
        for n in ast.walk(st):
            if isinstance(n, (ast.Continue, ast.Break)):
                self.err("continue / break not accepted", n)
        it = self.E(st.iter, env)
        if it.ty == EV:
            items = self.lift([it], lambda t: X(f"(ev_iter {t[0]})", ITEMS, True))
            if not isinstance(st.target, ast.Name):
                self.err("loop target over the event data must be a name", st)
            targets, elty, tpat = [st.target.id], OBJ, vname(st.target.id)
        elif it.ty == IDX:
            items = it
            if not (isinstance(st.target, ast.Tuple) and len(st.target.elts) == 3
                    and all(isinstance(e, ast.Name) for e in st.target.elts)):
                self.err("loop target over np.ndindex must be three names", st)
            targets, elty = [e.id for e in st.target.elts], INT
            if len(set(targets)) != 3:
                self.err("loop targets must be different names", st)
            tpat = "'(" + ", ".join(vname(n) for n in targets) + ")"
        else:
            self.err(f"iteration over {it.ty}", st)
        for tn in targets:
            if tn in env:
                self.err(f"loop variable {tn} shadows a bound name", st)
        asg = assigned(st.body)
        later = loads_in_order(rest)
        for n in asg + targets:
            if n not in env and n in later:
                self.err(f"variable {n} is first bound inside the loop and read after it", st)
        bound = [n for n in env if n in asg]
        state = [n for n in later if n in bound] + [n for n in bound if n not in later]
        envb = dict(env)
        for tn in targets:
            envb[tn] = Var(vname(tn), elty)

        def k_next(e):
            for n in state:
                if e[n].ty != env[n].ty:
                    self.err(f"loop-carried variable {n} changes type", st)
            return f"(Ok {self.tuple_of(state, e)})"
        body = self.S(st.body, envb, k_next, True)
        pat = self.pat_of(state, env)
        fpat = pat if state else "(_ : unit)"
        loop = self.lift([items], lambda t: X(f"(fold_leftM (fun {fpat} {tpat} => {body}) {t[0]} {self.tuple_of(state, env)})", "S", True))
        return f"(bind {loop.term} (fun {pat} => {self.S(rest, env, k, in_loop)}))"

    # ------------------------------------------------------------------ functions
    def function(self, fdef):
        a = fdef.args
        if a.vararg or a.kwarg or a.kwonlyargs or a.posonlyargs or not a.args or a.args[0].arg != "self":
            self.err("parameter kinds not accepted", fdef)
        if fdef.decorator_list:
            self.err("decorators not accepted", fdef)
        for n in ast.walk(fdef):
            if n is not fdef and isinstance(n, (ast.FunctionDef, ast.Lambda, ast.ClassDef, ast.Global, ast.Nonlocal)):
                self.err("nested definitions not accepted", n)
        args = a.args[1:]
        dnodes = dict(zip([p.arg for p in args[len(args) - len(a.defaults):]], a.defaults))
        params, defaults = [], {}
        for p in args:
            if p.arg not in PARAM_TY:
                self.err(f"parameter {p.arg} is not part of the fragment", fdef)
            ty = PARAM_TY[p.arg]
            params.append((p.arg, ty))
            d = dnodes.get(p.arg)
            if d is not None:
                if ty == OINT and isinstance(d, ast.Constant) and d.value is None:
                    defaults[p.arg] = "(@None Z)"
                elif ty == OINT and isinstance(d, ast.Constant) and isinstance(d.value, int) and not isinstance(d.value, bool):
                    defaults[p.arg] = f"(Some {z_lit(d.value)})"
                elif ty == INT and isinstance(d, ast.Constant) and isinstance(d.value, int) and not isinstance(d.value, bool):
                    defaults[p.arg] = z_lit(d.value)
                elif ty == STR and isinstance(d, ast.Constant) and isinstance(d.value, str):
                    defaults[p.arg] = s_lit(d.value)
                else:
                    self.err(f"default of {p.arg} not accepted", fdef)
        coq = fdef.name.strip("_")
        env = {"self": Var("v_self", SELF)}
        for pn, pty in params:
            env[pn] = Var(vname(pn), pty)
        has_return = any(isinstance(n, ast.Return) for n in ast.walk(fdef))

        def kend(e):
            if has_return:
                self.err("the method may end without returning", fdef)
            return f"(Ok {e['self'].name})"
        self.ret_seen, self.n = [], 0
        term = self.S(strip_doc(fdef.body), env, kend, False)
        tys = set(self.ret_seen)
        if not has_return:
            ret = SELF
        elif len(tys) == 1:
            ret = tys.pop()
        else:
            self.err("return statements of different types: " + repr(sorted(tys)), fdef)
        if ret not in COQ_TY:
            self.err(f"return type {ret} not accepted", fdef)
        self.sigs[fdef.name] = {"params": params, "defaults": defaults, "ret": ret, "coq": coq}
        out = []
        for p, term_d in defaults.items():
            out.append(f"  Definition gen_default_{coq}_{p} : {COQ_TY[dict(params)[p]]} := {term_d}.\n")
        ps = " ".join(f"({vname(pn)} : {COQ_TY[pty]})" for pn, pty in params)
        src = " ".join(ast.unparse(fdef.args).split())
        out.append(f"  (* def {fdef.name}({src}) *)\n"
                   f"  Definition gen_{coq} (v_self : ecself) {ps} : result {COQ_TY[ret]} :=\n    {term}.\n\n")
        return "".join(out)


def check_pinned():
    tree, path = parse(SRC)
    have = [ast.unparse(n) for n in tree.body if isinstance(n, (ast.Import, ast.ImportFrom))]
    for line in IMPORTS:
        if line not in have:
            raise TranslateError(f"{path}: import line `{line}` not found (np / Particle / Lattice3D would mean something else)")
    for n in ast.walk(tree):
        if isinstance(n, ast.Name) and isinstance(n.ctx, ast.Store) and n.id in ("np", "Particle", "Lattice3D", "isinstance"):
            raise TranslateError(f"{n.id} is rebound", n, path)
        if isinstance(n, ast.arg) and n.arg in ("np", "Particle", "Lattice3D", "isinstance"):
            raise TranslateError(f"{n.arg} is rebound by a parameter", n, path)
    ltree, lpath = parse(LATTICE_SRC)
    cls = find_class(ltree, "Lattice3D")
    for name, (want_args, want_body) in LATTICE_PINNED.items():
        f = find_func(cls, name)
        if f.decorator_list:
            raise TranslateError(f"Lattice3D.{name}: decorators not accepted", f, lpath)
        args = "(" + " ".join(ast.unparse(f.args).split()) + ")"
        body = "\n".join(ast.unparse(s) for s in strip_doc(f.body))
        if args != want_args or body != want_body:
            raise TranslateError(f"Lattice3D.{name} differs from the pinned text (its meaning is fixed in Model/EccRt.v)", f, lpath)


def generate():
    check_pinned()
    tree, path = parse(SRC)
    cls = find_class(tree, "EventCharacteristics")
    tr = Translator(path)
    out = [HEADER, PRELUDE]
    for name in METHODS:
        fs = [n for n in cls.body if isinstance(n, ast.FunctionDef) and n.name == name]
        if len(fs) != 1:
            raise TranslateError(f"expected exactly one definition of EventCharacteristics.{name}, found {len(fs)}")
        out.append(tr.function(fs[0]))
    out.append("End Methods.\n")
    return "".join(out)


def main(outdir):
    return write_if_changed(outdir + "/GenEccMethods.v", generate())

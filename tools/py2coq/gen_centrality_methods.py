"""Gen/GenCentralityMethods.v from src/sparkx/CentralityClasses.py: the WHOLE method bodies of CentralityClasses as
Gallina over Model/CentralityRt.v.

Translated AS WRITTEN (statements in order, conditions with their operators and constants, indices, argument order,
exception classes):
  __create_centrality_classes  -> gen_create_centrality_classes : cself -> result cself
  __init__                     -> gen_init                      : pyarg T -> pyarg Q -> list nat * result cself
  get_centrality_class         -> gen_get_centrality_class      : cself -> T -> result Z
  output_centrality_classes    -> gen_output_centrality_classes : cself -> file -> pystr -> file * result unit
Proofs/Centrality_Source.v proves each of them equal to the hand model Model/Centrality.v (plus the closed forms of
the sub-sample averages and of the written lines, which Model/Centrality.v does not contain).

Conventions of the translation (the runtime file and the proofs rely on them):
  * a Python local `x` is the Coq variable `v_x`, rebinding is shadowing; `self` (a record of optional attributes,
    None = never assigned, reading it raises AttributeError), the list of warnings `w` (in __init__) and the one
    output file `fs` (in output_centrality_classes) are threaded like locals; `__init__` starts from `cs_new`;
  * a result is a plain value, `result X` (the method may raise) or `P * result X` (P = warnings / file, which
    survive an exception); `raise Cls(..)` is `Err Cls`; l[i] is `pyget` (IndexError), l[a:b] is `py_slice`;
    sub-expressions that may raise are evaluated left to right before the statement that contains them, except
    the right operand of and/or, the branches of `a if c else b` and the element of all(..)/any(..), which are
    evaluated only when Python evaluates them;
  * `if C: A else: B` whose branches fall through joins on the variables they assign; a loop carries the variables
    that its body assigns and that exist before it, in the order of their first assignment inside the body
    (fold_left / loopE / loopS of Model/CentralityRt.v: plain, with exceptions, with the file or the warnings -
    so renaming a local or reordering the initialisations before a loop changes nothing); the loop targets and the variables
    first assigned in a loop body are local to the iteration (reading them after the loop is rejected); a loop that
    contains `return` must not carry variables (loopR);
  * `if not isinstance(x, (list, np.ndarray)): <raise>` narrows the argument x to the list of its elements
    (`arg_narrow`), `if not isinstance(x, str): <raise>` to a string (`str_narrow`); before that guard x cannot be used;
  * numbers: Python int = Z, bin edge / float as a value = Q (exact, no rounding), multiplicity = T with the order
    `leb` (`<` is `negb (leb b a)`, the literal 0 is `t0`), a stored minimum that may be np.inf = ext T, an average
    = F (uninterpreted: np.mean, np.sqrt, + - * / ** on F are the section variables f_mean, f_sqrt, f_add, f_sub,
    f_mul, f_div, f_pow, f_lit - oracles); int / int and int * float promote to Q; int(x) = Qtrunc; x % n = Z.modulo;
    a literal takes the type of the other operand; division and % only by a non-zero literal;
  * sorted(l, reverse=True) = py_sorted_rev leb (stable, descending), l.sort() = q_sort (stable, ascending),
    set() / s.add(x) / x in s = set_empty / set_add / set_mem;
  * `warnings.warn(..)` = `w ++ [k]`, k the ordinal of the warn statement within the method (the text is dropped);
    the text of an exception is dropped;
  * `with open(fname, mode) as h:` = fs_open; `h.write(<str | f-string>)`: the text must end in its only newline
    and becomes ONE line = the list of its pieces (literal text `PS`, a formatted value `{e}` the typed hole
    PZ/PQ/PT/PE/PF; conversions and format specs are rejected);
  * a local list that was stored into an attribute must not be mutated afterwards (aliasing is not modelled); the
    in-place `centrality_bins.sort()` is not visible to the caller in the model.
Nothing is pinned textually.  Fail-closed: every statement / expression shape that is not listed in `Tr.blk` /
`Tr.ex` raises TranslateError with the source location.
"""
import ast
from fractions import Fraction
from .core import *

SRC = "src/sparkx/CentralityClasses.py"
OUTPUTS = ["GenCentralityMethods"]

SELF_ATTRS = {"events_multiplicity_": ("list", "T"), "centrality_bins_": ("list", "Q"),
              "dNchdetaMin_": ("list", "extT"), "dNchdetaMax_": ("list", "T"),
              "dNchdetaAvg_": ("list", "F"), "dNchdetaAvgErr_": ("list", "F")}
EXN = {"TypeError", "ValueError", "IndexError", "KeyError", "AttributeError", "ZeroDivisionError"}
SEQ_TYS = {"list": "Ty_list", "np.ndarray": "Ty_ndarray"}
STR_TYS = {"str": "Ty_str"}
KINDS = ["pure", "exn", "st"]
PIECE = {"Z": "PZ", "Q": "PQ", "T": "PT", "extT": "PE", "F": "PF", "str": "PS"}


class Meth:
    def __init__(self, py, coq, params, ret, kind, pvar=None, self_w=False, ctor=False):
        self.py, self.coq, self.ptypes, self.ret, self.kind = py, coq, params, ret, kind
        self.pvar, self.self_w, self.ctor = pvar, self_w, ctor


METHODS = [
    Meth("__create_centrality_classes", "gen_create_centrality_classes", [], "unit", "exn", self_w=True),
    Meth("__init__", "gen_init", [("arg", "T"), ("arg", "Q")], "unit", "st", pvar="w", self_w=True, ctor=True),
    Meth("get_centrality_class", "gen_get_centrality_class", ["T"], "Z", "exn"),
    Meth("output_centrality_classes", "gen_output_centrality_classes", ["strarg"], "unit", "st", pvar="fs"),
]
PVAR_TY = {"w": "(list nat)", "fs": "(file T F)"}


class NeedKind(Exception):
    """the construct needs exceptions / the threaded state, but is being translated as a plain value"""


def cty(t):
    if isinstance(t, tuple):
        if t[0] == "list":
            return "(list " + (cty(t[1]) if t[1] is not None else "_") + ")"
        raise TranslateError("type without a Coq counterpart: " + repr(t))
    return {"Q": "Q", "Z": "Z", "T": "T", "F": "F", "bool": "bool", "str": "string", "extT": "(ext T)", "setQ": "qset",
            "unit": "unit", "self": "(cself T F)", "w": "(list nat)", "fs": "(file T F)"}[t]


def qlit(fr):
    n, d = fr.numerator, fr.denominator
    return f"({n} # {d})" if n >= 0 else f"(({n}) # {d})"


def zlit(n):
    return f"{n}%Z" if n >= 0 else f"({n})%Z"


def slit(s):
    if any(ord(c) > 126 or ord(c) < 32 for c in s) or '"' in s:
        raise TranslateError("string literal not accepted: " + repr(s))
    return '"' + s + '"%string'


def vname(py):
    return "v_" + py


def tup(names):
    return "tt" if not names else names[0] if len(names) == 1 else "(" + ", ".join(names) + ")"


def is_num(n):
    return isinstance(n, ast.Constant) and isinstance(n.value, (int, float)) and not isinstance(n.value, bool)


def num_of(n):
    """numeric literal (possibly negated) -> Fraction plus 'was written as a float', else None"""
    if isinstance(n, ast.UnaryOp) and isinstance(n.op, ast.USub) and is_num(n.operand):
        v = n.operand.value
        if v != v or abs(v) == float("inf"):
            return None
        return -Fraction(v), isinstance(v, float)
    if is_num(n):
        v = n.value
        if v != v or abs(v) == float("inf"):
            return None
        return Fraction(v), isinstance(v, float)
    return None


def terminal(stmts):
    return bool(stmts) and isinstance(stmts[-1], (ast.Raise, ast.Return))


def has_return(stmts):
    return any(isinstance(x, ast.Return) for s in stmts for x in ast.walk(s))


def self_attr(node):
    """self.<attr> -> attr"""
    if isinstance(node, ast.Attribute) and isinstance(node.value, ast.Name) and node.value.id == "self":
        return node.attr
    return None


class Tr:
    """translation of one method"""

    def __init__(self, meth, fdef, table, path):
        self.m, self.f, self.table, self.path = meth, fdef, table, path
        self.binds, self.n = [], 0
        self.kind = meth.kind
        self.stored = set()          # locals that were stored into an attribute (aliases)
        self.warns = [x for x in ast.walk(fdef) if isinstance(x, ast.Call) and ast.unparse(x.func) == "warnings.warn"]
        self.warns.sort(key=lambda x: (x.lineno, x.col_offset))

    def err(self, msg, node=None):
        return TranslateError(f"{self.m.py}: {msg}", node, self.path)

    def fresh(self, hint="x"):
        self.n += 1
        return f"{hint}{self.n}"

    # ------------------------------------------------------------------ results / exceptions in the current kind
    def raise_(self, cls):
        if self.kind == "pure":
            raise NeedKind("exn")
        if self.kind == "st":
            return f"({self.m.pvar}, Err {cls})"
        return f"(Err {cls})"

    def ok(self, val):
        if self.kind == "pure":
            return val
        if self.kind == "st":
            return f"({self.m.pvar}, Ok {val})"
        if self.kind == "ret":
            raise self.err("internal: ok() in a returning loop")
        return f"(Ok {val})"

    def wrap(self, binds, inner):
        """the raising sub-expressions of one statement around the text of the statement and everything after it"""
        for p, term in reversed(binds):
            inner = f"match {term} with\n| Err e_ => {self.raise_('e_')}\n| Ok {p} =>\n{inner}\nend"
        return inner

    @staticmethod
    def wrap_local(binds, inner):
        """the same for an expression that is evaluated conditionally: a term of type result _"""
        for p, term in reversed(binds):
            inner = f"(match {term} with Err e_ => Err e_ | Ok {p} => {inner} end)"
        return inner

    def local(self, fn):
        saved, self.binds = self.binds, []
        try:
            r = fn()
            b = self.binds
        finally:
            self.binds = saved
        return r, b

    # ------------------------------------------------------------------ environments
    @staticmethod
    def bind(env, name, coq, ty):
        e = dict(env)
        e[name] = (coq, ty)
        return e

    def unify_ty(self, ta, tb, node):
        if ta == tb:
            return ta
        if isinstance(ta, tuple) and isinstance(tb, tuple) and ta[0] == tb[0] == "list":
            if ta[1] is None:
                return tb
            if tb[1] is None:
                return ta
        raise self.err(f"a variable has the types {ta} and {tb} on two paths", node)

    def coerce(self, text, ty, want, node=None):
        if want is None or ty == want:
            return text
        if ty == "T" and want == "extT":
            return f"(Val {text})"
        if ty == "Z" and want == "Q":
            return f"(inject_Z {text})"
        if isinstance(ty, tuple) and isinstance(want, tuple) and ty[0] == want[0] == "list" and (ty[1] is None or want[1] is None):
            return text
        raise self.err(f"value of type {ty} where {want} is expected: {ast.unparse(node) if node is not None else text}", node)

    # ------------------------------------------------------------------ expressions
    def num(self, node, want):
        fr, is_float = num_of(node)
        if want == "T":
            if fr != 0:
                raise self.err("only the literal 0 is accepted where a multiplicity is expected", node)
            return "t0", "T"
        if want == "F":
            return f"(f_lit {qlit(fr)})", "F"
        if want == "Q" or (is_float and want != "Z"):
            return qlit(fr), "Q"
        if fr.denominator != 1 or is_float:
            raise self.err("float literal where an int is expected", node)
        return zlit(fr.numerator), "Z"

    def truth(self, node, env):
        t, ty = self.ex(node, env)
        if ty != "bool":
            raise self.err(f"truth value of a {ty} not accepted", node)
        return t

    def ex(self, n, env, want=None):
        if num_of(n) is not None:
            return self.num(n, want)
        if isinstance(n, ast.Constant):
            v = n.value
            if isinstance(v, bool):
                return ("true" if v else "false"), "bool"
            if isinstance(v, str):
                return slit(v), "str"
            raise self.err("literal not accepted: " + repr(v), n)
        if isinstance(n, ast.Name):
            if n.id not in env:
                raise self.err(f"name `{n.id}` is not bound here", n)
            c, ty = env[n.id]
            if isinstance(ty, tuple) and ty[0] in ("arg", "fh") or ty in ("strarg", "self"):
                raise self.err(f"`{n.id}` ({ty}) cannot be used as a value here (no isinstance guard before?)", n)
            return c, ty
        if isinstance(n, ast.UnaryOp):
            if isinstance(n.op, ast.Not):
                return f"(negb {self.truth(n.operand, env)})", "bool"
            if isinstance(n.op, ast.USub):
                t, ty = self.ex(n.operand, env, want)
                if ty == "Q":
                    return f"(Qopp {t})", "Q"
                if ty == "Z":
                    return f"(Z.opp {t})", "Z"
            raise self.err("unary operator not accepted", n)
        if isinstance(n, ast.BinOp):
            return self.binop(n, env, want)
        if isinstance(n, ast.BoolOp):
            return self.boolop(n.values, isinstance(n.op, ast.And), env), "bool"
        if isinstance(n, ast.Compare):
            return self.compare(n, env), "bool"
        if isinstance(n, ast.IfExp):
            return self.ifexp(n, env, want)
        if isinstance(n, ast.List):
            if n.elts:
                raise self.err("only the empty list literal is accepted", n)
            return "[]", (want if isinstance(want, tuple) and want[0] == "list" else ("list", None))
        if isinstance(n, ast.Subscript):
            return self.subscript(n, env)
        if isinstance(n, ast.Attribute):
            return self.attribute(n, env)
        if isinstance(n, ast.Call):
            return self.call(n, env, want)
        raise self.err("expression not accepted: " + ast.unparse(n)[:80], n)

    def binop(self, n, env, want):
        lit_l, lit_r = num_of(n.left) is not None, num_of(n.right) is not None
        if lit_l and lit_r:
            raise self.err("arithmetic on two literals not accepted", n)
        if isinstance(n.op, ast.Pow):
            a, ta = self.ex(n.left, env)
            if ta != "F" or not lit_r:
                raise self.err("power: only <average> ** <int literal> is accepted", n)
            return f"(f_pow {a} {zlit(int_const(n.right, self.path))})", "F"
        # a literal takes the type of the other operand (int / int and int * float promote to Q)
        if lit_l:
            b, tb = self.ex(n.right, env)
            a, ta = self.ex(n.left, env, "Q" if isinstance(n.op, ast.Div) and tb == "Z" else tb)
        else:
            a, ta = self.ex(n.left, env)
            b, tb = self.ex(n.right, env, ("Q" if isinstance(n.op, ast.Div) and ta == "Z" else ta) if lit_r else None)
        if {ta, tb} == {"Z", "Q"} or (ta == tb == "Z" and isinstance(n.op, ast.Div)):
            a, b = self.coerce(a, ta, "Q", n.left), self.coerce(b, tb, "Q", n.right)
            ta = tb = "Q"
        if ta != tb or ta not in ("Q", "Z", "F"):
            raise self.err(f"arithmetic on {ta} and {tb}", n)
        if isinstance(n.op, (ast.Div, ast.Mod)):
            d = num_of(n.right)
            if d is None or d[0] == 0:
                raise self.err("division / modulo only by a non-zero literal", n)
        ops = {ast.Add: {"Q": "Qplus", "Z": "Z.add", "F": "f_add"}, ast.Sub: {"Q": "Qminus", "Z": "Z.sub", "F": "f_sub"},
               ast.Mult: {"Q": "Qmult", "Z": "Z.mul", "F": "f_mul"}, ast.Div: {"Q": "Qdiv", "F": "f_div"},
               ast.Mod: {"Z": "Z.modulo"}}
        o = ops.get(type(n.op), {}).get(ta)
        if o is None:
            raise self.err(f"operator {type(n.op).__name__} on {ta} not accepted", n)
        return f"({o} {a} {b})", ta

    def boolop(self, values, is_and, env):
        a = self.truth(values[0], env)
        if len(values) == 1:
            return a
        (rest, b) = self.local(lambda: self.boolop(values[1:], is_and, env))
        if not b:
            return f"({a} {'&&' if is_and else '||'} {rest})"
        x = self.fresh("b")
        r = self.wrap_local(b, f"Ok {rest}")
        self.binds.append((x, f"(if {a} then {r} else Ok false)" if is_and else f"(if {a} then Ok true else {r})"))
        return x

    def cmp1(self, op, a, ta, b, tb, node):
        if isinstance(op, (ast.In, ast.NotIn)):
            if ta == "Q" and tb == "setQ":
                t = f"(set_mem {a} {b})"
                return t if isinstance(op, ast.In) else f"(negb {t})"
            raise self.err(f"`in` on {ta} and {tb} not accepted", node)
        if ta == "extT" and tb == "T":                  # m op x  ==  x op' m
            a, ta, b, tb = b, tb, a, ta
            op = {ast.Lt: ast.Gt, ast.LtE: ast.GtE, ast.Gt: ast.Lt, ast.GtE: ast.LtE}.get(type(op), type(op))()
        if ta == "T" and tb == "extT":
            f = {ast.GtE: "te_ge", ast.Lt: "te_lt", ast.LtE: "te_le", ast.Gt: "te_gt"}.get(type(op))
            if f is None:
                raise self.err(f"comparison {type(op).__name__} with a value that may be inf not accepted", node)
            return f"({f} leb {a} {b})"
        if isinstance(op, (ast.Gt, ast.GtE)):
            a, ta, b, tb = b, tb, a, ta
            op = ast.Lt() if isinstance(op, ast.Gt) else ast.LtE()
        if {ta, tb} == {"Z", "Q"}:
            a, b = self.coerce(a, ta, "Q", node), self.coerce(b, tb, "Q", node)
            ta = tb = "Q"
        if ta != tb:
            raise self.err(f"comparison of {ta} with {tb}", node)
        table = {("Q", ast.Lt): "(q_lt {a} {b})", ("Q", ast.LtE): "(Qle_bool {a} {b})", ("Q", ast.Eq): "(Qeq_bool {a} {b})",
                 ("Q", ast.NotEq): "(negb (Qeq_bool {a} {b}))",
                 ("T", ast.Lt): "(t_lt leb {a} {b})", ("T", ast.LtE): "(t_le leb {a} {b})",
                 ("Z", ast.Lt): "({a} <? {b})%Z", ("Z", ast.LtE): "({a} <=? {b})%Z", ("Z", ast.Eq): "({a} =? {b})%Z",
                 ("Z", ast.NotEq): "(negb ({a} =? {b})%Z)"}
        f = table.get((ta, type(op)))
        if f is None:
            raise self.err(f"comparison {type(op).__name__} on {ta} not accepted", node)
        return f.format(a=a, b=b)

    def compare(self, n, env):
        if len(n.ops) != 1:
            raise self.err("chained comparison not accepted", n)
        l, r = n.left, n.comparators[0]
        ll, lr = num_of(l) is not None, num_of(r) is not None
        if ll and lr:
            raise self.err("comparison of two literals not accepted", n)
        if ll:
            b, tb = self.ex(r, env)
            a, ta = self.ex(l, env, "T" if tb == "extT" else tb)
        else:
            a, ta = self.ex(l, env)
            b, tb = self.ex(r, env, ("T" if ta == "extT" else ta) if lr else None)
        return self.cmp1(n.ops[0], a, ta, b, tb, n)

    def ifexp(self, n, env, want):
        c = self.truth(n.test, env)
        (a, ta), ba = self.local(lambda: self.ex(n.body, env, want))
        (b, tb), bb = self.local(lambda: self.ex(n.orelse, env, want))
        if ta != tb:
            if {ta, tb} == {"T", "extT"}:
                a, b = self.coerce(a, ta, "extT", n), self.coerce(b, tb, "extT", n)
                ta = "extT"
            elif {ta, tb} == {"Z", "Q"}:
                a, b = self.coerce(a, ta, "Q", n), self.coerce(b, tb, "Q", n)
                ta = "Q"
            else:
                raise self.err(f"branches of different types {ta} / {tb}", n)
        if not ba and not bb:
            return f"(if {c} then {a} else {b})", ta
        x = self.fresh("x")
        self.binds.append((x, f"(if {c} then {self.wrap_local(ba, f'Ok {a}')} else {self.wrap_local(bb, f'Ok {b}')})"))
        return x, ta

    def subscript(self, n, env):
        v, tv = self.ex(n.value, env)
        if not (isinstance(tv, tuple) and tv[0] == "list" and tv[1] is not None):
            raise self.err(f"subscript of a {tv} not accepted", n)
        if isinstance(n.slice, ast.Slice):
            s = n.slice
            if s.lower is None or s.upper is None or s.step is not None:
                raise self.err("only slices l[a:b] with both bounds are accepted", n)
            a, ta = self.ex(s.lower, env, "Z")
            b, tb = self.ex(s.upper, env, "Z")
            if ta != "Z" or tb != "Z":
                raise self.err("slice bounds must be ints", n)
            return f"(py_slice {v} {a} {b})", tv
        i, ti = self.ex(n.slice, env, "Z")
        if ti != "Z":
            raise self.err("list index must be an int", n)
        x = self.fresh("x")
        self.binds.append((x, f"(pyget {v} {i})"))
        return x, tv[1]

    def attribute(self, n, env):
        a = self_attr(n)
        if a is not None:
            if a not in SELF_ATTRS:
                raise self.err("unknown attribute self." + a, n)
            if "self" not in env:
                raise self.err("self is not available here", n)
            x = self.fresh("a")
            self.binds.append((x, f"(rd ({a} self))"))
            return x, SELF_ATTRS[a]
        if ast.unparse(n) == "np.inf" and "np" not in env:
            return "Inf", "extT"
        raise self.err("attribute not accepted: " + ast.unparse(n)[:80], n)

    def genexp(self, n, env, is_all):
        g = n.args[0]
        if len(g.generators) != 1 or g.generators[0].ifs or g.generators[0].is_async \
                or not isinstance(g.generators[0].target, ast.Name):
            raise self.err("generator shape not accepted", n)
        gen = g.generators[0]
        it, ity = self.iterable(gen.iter, env)
        x = vname(gen.target.id)
        if gen.target.id in env:
            raise self.err(f"generator variable `{gen.target.id}` shadows a local", n)
        body, b = self.local(lambda: self.truth(g.elt, self.bind(env, gen.target.id, x, ity)))
        if not b:
            return f"({'forallb' if is_all else 'existsb'} (fun {x} => {body}) {it})", "bool"
        r = self.fresh("b")
        self.binds.append((r, f"({'all_res' if is_all else 'any_res'} (fun {x} => {self.wrap_local(b, f'Ok {body}')}) {it})"))
        return r, "bool"

    def iterable(self, node, env):
        """range(..) or a list: (term, element type)"""
        if isinstance(node, ast.Call) and isinstance(node.func, ast.Name) and node.func.id == "range" and "range" not in env:
            if node.keywords or len(node.args) not in (1, 2):
                raise self.err("range with one or two arguments expected", node)
            ts = [self.ex(a, env, "Z") for a in node.args]
            if any(t[1] != "Z" for t in ts):
                raise self.err("range bounds must be ints", node)
            lo, hi = ("0%Z", ts[0][0]) if len(ts) == 1 else (ts[0][0], ts[1][0])
            return f"(py_range {lo} {hi})", "Z"
        l, tl = self.ex(node, env)
        if not (isinstance(tl, tuple) and tl[0] == "list" and tl[1] is not None):
            raise self.err(f"iteration over a {tl} not accepted", node)
        return l, tl[1]

    def call(self, n, env, want):
        f = n.func
        src = ast.unparse(f)
        if isinstance(f, ast.Name) and f.id not in env:
            if f.id == "len" and len(n.args) == 1 and not n.keywords:
                v, tv = self.ex(n.args[0], env)
                if isinstance(tv, tuple) and tv[0] == "list":
                    return f"(zlen {v})", "Z"
                raise self.err(f"len of a {tv}", n)
            if f.id in ("all", "any") and len(n.args) == 1 and not n.keywords and isinstance(n.args[0], ast.GeneratorExp):
                return self.genexp(n, env, f.id == "all")
            if f.id == "sorted" and len(n.args) == 1:
                rev = False
                for kw in n.keywords:
                    if kw.arg != "reverse" or not (isinstance(kw.value, ast.Constant) and isinstance(kw.value.value, bool)):
                        raise self.err("sorted: only reverse=<True|False> is accepted", n)
                    rev = kw.value.value
                if len(n.keywords) > 1:
                    raise self.err("sorted: repeated keyword", n)
                v, tv = self.ex(n.args[0], env)
                if tv != ("list", "T"):
                    raise self.err(f"sorted of a {tv} not accepted", n)
                return f"({'py_sorted_rev' if rev else 'py_sorted'} leb {v})", tv
            if f.id == "set" and not n.args and not n.keywords:
                return "set_empty", "setQ"
            if f.id == "int" and len(n.args) == 1 and not n.keywords:
                v, tv = self.ex(n.args[0], env)
                if tv == "Q":
                    return f"(Qtrunc {v})", "Z"
                if tv == "Z":
                    return v, "Z"
                raise self.err(f"int() of a {tv} not accepted", n)
            raise self.err("call not accepted: " + ast.unparse(n)[:80], n)
        if src == "np.mean" and "np" not in env and len(n.args) == 1 and not n.keywords:
            v, tv = self.ex(n.args[0], env)
            if tv != ("list", "T"):
                raise self.err(f"np.mean of a {tv} not accepted", n)
            return f"(f_mean {v})", "F"
        if src == "np.sqrt" and "np" not in env and len(n.args) == 1 and not n.keywords:
            v, tv = self.ex(n.args[0], env, "F")
            if tv != "F":
                raise self.err(f"np.sqrt of a {tv} not accepted", n)
            return f"(f_sqrt {v})", "F"
        raise self.err("call not accepted: " + ast.unparse(n)[:80], n)

    def line_of(self, node, env):
        """the argument of handle.write(..): one line as a list of pieces"""
        if isinstance(node, ast.Constant) and isinstance(node.value, str):
            values = [node]
        elif isinstance(node, ast.JoinedStr):
            values = node.values
        else:
            raise self.err("write: a string literal or an f-string is expected", node)
        parts = []
        for v in values:
            if isinstance(v, ast.Constant) and isinstance(v.value, str):
                parts.append(("lit", v.value))
            elif isinstance(v, ast.FormattedValue):
                if v.conversion != -1 or v.format_spec is not None:
                    raise self.err("f-string conversion / format spec not accepted", node)
                t, ty = self.ex(v.value, env)
                if ty not in PIECE:
                    raise self.err(f"formatted value of type {ty} not accepted", node)
                parts.append(("val", f"{PIECE[ty]} {t}"))
            else:
                raise self.err("f-string part not accepted", node)
        text = "".join(p[1] for p in parts if p[0] == "lit")
        if not (parts and parts[-1][0] == "lit" and parts[-1][1].endswith("\n") and text.count("\n") == 1):
            raise self.err("write: the text must end in its only newline (one line per write)", node)
        parts[-1] = ("lit", parts[-1][1][:-1])
        out = []
        for kind, p in parts:
            if kind == "lit":
                if p:
                    out.append("PS " + slit(p))
            else:
                out.append(p)
        return "[" + "; ".join(out) + "]"

    # ------------------------------------------------------------------ statements
    def assigned(self, stmts):
        """names (re)bound by the statements, in order; 'self' for attribute stores, '$p' for the threaded state"""
        out = []

        def add(x):
            if x not in out:
                out.append(x)

        def walk(s):
            if isinstance(s, (ast.Assign, ast.AnnAssign, ast.AugAssign)):
                tg = s.targets[0] if isinstance(s, ast.Assign) else s.target
                if isinstance(tg, ast.Name):
                    add(tg.id)
                elif self_attr(tg) is not None:
                    add("self")
                else:
                    raise self.err("assignment target not accepted", s)
            elif isinstance(s, ast.Expr) and isinstance(s.value, ast.Call):
                f = s.value.func
                if ast.unparse(f) == "warnings.warn":
                    add("$p")
                elif isinstance(f, ast.Attribute) and isinstance(f.value, ast.Name):
                    if f.value.id == "self":
                        callee = self.table.get(f.attr)
                        if callee is not None and callee[0].self_w:
                            add("self")
                        if callee is not None and callee[0].kind == "st":
                            add("$p")
                    elif f.attr == "write":
                        add("$p")
                    else:
                        add(f.value.id)
                elif isinstance(f, ast.Attribute) and self_attr(f.value) is not None:
                    add("self")
            elif isinstance(s, ast.With):
                add("$p")
                for b in s.body:
                    walk(b)
            elif isinstance(s, (ast.If, ast.For)):
                for b in s.body + s.orelse:
                    walk(b)
        for s in stmts:
            walk(s)
        return out

    def cname(self, x, env):
        return "self" if x == "self" else self.m.pvar if x == "$p" else env[x][0]

    def check_alias(self, name, node):
        if name in self.stored:
            raise self.err(f"`{name}` was stored into an attribute and is mutated afterwards (aliasing is not modelled)", node)

    def blk(self, stmts, env, k, loop):
        if not stmts:
            return k(env)
        s, rest = stmts[0], stmts[1:]

        def R(e):
            return self.blk(rest, e, k, loop)

        if isinstance(s, ast.Pass):
            return R(env)
        if isinstance(s, ast.Expr) and isinstance(s.value, ast.Constant) and isinstance(s.value.value, str):
            return R(env)
        if isinstance(s, ast.Expr) and isinstance(s.value, ast.Call):
            return self.call_stmt(s, env, R)
        if isinstance(s, (ast.Assign, ast.AnnAssign)):
            if isinstance(s, ast.Assign):
                if len(s.targets) != 1:
                    raise self.err("multiple assignment targets", s)
                tg = s.targets[0]
            else:
                tg = s.target
                if s.value is None:
                    raise self.err("annotation without value", s)
            if isinstance(tg, ast.Name):
                if tg.id in env and env[tg.id][1] in ("strarg", "self") or tg.id == "self":
                    raise self.err("assignment to this name not accepted", s)
                (e, te), binds = self.local(lambda: self.ex(s.value, env))
                if isinstance(s.value, ast.Name) and (isinstance(te, tuple) or te == "setQ"):
                    raise self.err("copy of a mutable local (alias) not accepted", s)
                v = vname(tg.id)
                self.stored.discard(tg.id)
                return self.wrap(binds, f"let {v} := {e} in\n" + R(self.bind(env, tg.id, v, te)))
            a = self_attr(tg)
            if a is not None and a in SELF_ATTRS:
                if not self.m.self_w or "self" not in env:
                    raise self.err("attribute store in a method declared not to store", s)
                w = SELF_ATTRS[a]

                def comp():
                    e, te = self.ex(s.value, env, w)
                    return self.coerce(e, te, w, s.value)
                e, binds = self.local(comp)
                if isinstance(s.value, ast.Name):
                    self.stored.add(s.value.id)
                return self.wrap(binds, f"let self := set_{a} self (Some {e}) in\n" + R(env))
            raise self.err("assignment target not accepted", s)
        if isinstance(s, ast.Raise):
            if not (isinstance(s.exc, ast.Call) and isinstance(s.exc.func, ast.Name) and s.exc.func.id in EXN
                    and s.cause is None and not s.exc.keywords
                    and all(isinstance(a, ast.Constant) and isinstance(a.value, str) for a in s.exc.args)):
                raise self.err("raise of an unexpected exception", s)
            return self.raise_(s.exc.func.id)
        if isinstance(s, ast.Return):
            if rest:
                raise self.err("statements after return", s)
            if self.kind == "pure":
                raise NeedKind("exn")
            if s.value is None:
                return self.ret("tt", "unit", s)
            (e, te), binds = self.local(lambda: self.ex(s.value, env, self.m.ret))
            return self.wrap(binds, self.ret(e, te, s))
        if isinstance(s, ast.If):
            return self.if_(s, rest, env, k, loop)
        if isinstance(s, ast.For):
            return self.for_(s, rest, env, k, loop)
        if isinstance(s, ast.With):
            return self.with_(s, rest, env, k, loop)
        raise self.err("statement not accepted: " + type(s).__name__, s)

    def ret(self, e, te, node):
        e = self.coerce(e, te, self.m.ret, node)
        if self.kind == "ret":
            return f"(Ok (Some {e}))"
        if self.kind != self.m.kind:
            raise self.err("return inside a nested construct not accepted", node)
        if self.m.self_w:
            if self.m.ret != "unit":
                raise self.err("a method that stores attributes must return None", node)
            return self.ok("self")
        return self.ok(e)

    def call_stmt(self, s, env, R):
        c = s.value
        f = c.func
        fsrc = ast.unparse(f)
        if fsrc == "warnings.warn" and "warnings" not in env:
            if self.m.pvar != "w":
                raise self.err("warnings are not modelled in this method", s)
            if len(c.args) != 1 or c.keywords or not isinstance(c.args[0], (ast.Constant, ast.JoinedStr)):
                raise self.err("warnings.warn(<text>) expected", s)
            k = [i for i, x in enumerate(self.warns) if x is c][0]
            return f"let w := (w ++ [{k}%nat])%list in\n" + R(env)
        if isinstance(f, ast.Attribute) and isinstance(f.value, ast.Name) and f.value.id in env and f.value.id != "self":
            x = f.value.id
            vx, tx = env[x]
            if f.attr == "append" and isinstance(tx, tuple) and tx[0] == "list" and len(c.args) == 1 and not c.keywords:
                self.check_alias(x, s)
                (e, te), binds = self.local(lambda: self.ex(c.args[0], env, tx[1]))
                if tx[1] is not None:
                    e = self.coerce(e, te, tx[1], c)
                if isinstance(te, tuple):
                    raise self.err("append of a list not accepted", s)
                return self.wrap(binds, f"let {vx} := ({vx} ++ [{e}])%list in\n"
                                 + R(self.bind(env, x, vx, ("list", te if tx[1] is None else tx[1]))))
            if f.attr == "add" and tx == "setQ" and len(c.args) == 1 and not c.keywords:
                (e, te), binds = self.local(lambda: self.ex(c.args[0], env, "Q"))
                e = self.coerce(e, te, "Q", c)
                return self.wrap(binds, f"let {vx} := (set_add {e} {vx}) in\n" + R(env))
            if f.attr == "sort" and not c.args and not c.keywords and tx in (("list", "Q"), ("list", "T")):
                self.check_alias(x, s)
                t = f"(q_sort {vx})" if tx == ("list", "Q") else f"(py_sorted leb {vx})"
                return f"let {vx} := {t} in\n" + R(env)
            if f.attr == "write" and isinstance(tx, tuple) and tx[0] == "fh" and len(c.args) == 1 and not c.keywords:
                if self.kind != "st" or self.m.pvar != "fs":
                    raise NeedKind("st")
                ln, binds = self.local(lambda: self.line_of(c.args[0], env))
                return self.wrap(binds + [("fs", f"(fs_write fs {tx[1]} {ln})")], R(env))
            raise self.err("statement not accepted: " + ast.unparse(s)[:80], s)
        if isinstance(f, ast.Attribute) and f.attr == "append" and self_attr(f.value) in SELF_ATTRS \
                and len(c.args) == 1 and not c.keywords:
            a = self_attr(f.value)
            if not self.m.self_w or "self" not in env:
                raise self.err("attribute update in a method declared not to store", s)
            w = SELF_ATTRS[a][1]

            def comp():
                cur, _ = self.ex(f.value, env)
                e, te = self.ex(c.args[0], env, w)
                return cur, self.coerce(e, te, w, c.args[0])
            (cur, e), binds = self.local(comp)
            return self.wrap(binds, f"let self := set_{a} self (Some ({cur} ++ [{e}])%list) in\n" + R(env))
        if isinstance(f, ast.Attribute) and isinstance(f.value, ast.Name) and f.value.id == "self":
            if f.attr not in self.table:
                raise self.err("call of an unknown method self." + f.attr, s)
            callee, _ = self.table[f.attr]
            if c.args or c.keywords or callee.ptypes or callee.kind != "exn" or not callee.self_w or callee.ret != "unit":
                raise self.err("only a call self.<method>() of a method without arguments that raises/stores is accepted", s)
            if not self.m.self_w or "self" not in env:
                raise self.err("call of a method that stores attributes from one that is declared not to", s)
            return self.wrap([("self", f"({callee.coq} self)")], R(env))
        raise self.err("statement not accepted: " + ast.unparse(s)[:80], s)

    def isinstance_guard(self, test, env):
        """`not isinstance(<argument>, <classes>)` -> (name, narrowing function, Coq list of classes, narrowed type)"""
        if not (isinstance(test, ast.UnaryOp) and isinstance(test.op, ast.Not) and isinstance(test.operand, ast.Call)
                and isinstance(test.operand.func, ast.Name) and test.operand.func.id == "isinstance"
                and "isinstance" not in env):
            return None
        c = test.operand
        if len(c.args) != 2 or c.keywords or not isinstance(c.args[0], ast.Name) or c.args[0].id not in env:
            raise self.err("isinstance(<argument>, <classes>) expected", test)
        name = c.args[0].id
        ty = env[name][1]
        classes = [ast.unparse(e) for e in c.args[1].elts] if isinstance(c.args[1], ast.Tuple) else [ast.unparse(c.args[1])]
        if isinstance(ty, tuple) and ty[0] == "arg":
            tab, fn, nty = SEQ_TYS, "arg_narrow", ("list", ty[1])
        elif ty == "strarg":
            tab, fn, nty = STR_TYS, "str_narrow", "str"
        else:
            raise self.err(f"isinstance on `{name}` ({ty}) not accepted", test)
        if not classes or any(x not in tab for x in classes) or any(x in env for x in ("list", "str", "np")):
            raise self.err(f"isinstance classes {classes} not accepted for `{name}`", test)
        return name, fn, "[" + "; ".join(tab[x] for x in classes) + "]", nty

    def if_(self, s, rest, env, k, loop):
        body, orelse = s.body, s.orelse
        g = self.isinstance_guard(s.test, env)
        if g is not None:
            if not terminal(body) or orelse:
                raise self.err("an isinstance guard must end in raise / return and have no else", s)
            name, fn, tys, nty = g
            v = vname(name)
            a = self.blk(body, env, k, loop)
            b = self.blk(rest, self.bind(env, name, v, nty), k, loop)
            return f"match {fn} {v} {tys} with\n| None => {a}\n| Some {v} =>\n{b}\nend"
        c, binds = self.local(lambda: self.truth(s.test, env))
        if terminal(body):
            a = self.blk(body, env, k, loop)
            b = self.blk(orelse + rest, env, k, loop)
            return self.wrap(binds, f"if {c}\nthen {a}\nelse\n{b}")
        if terminal(orelse):
            a = self.blk(body + rest, env, k, loop)
            b = self.blk(orelse, env, k, loop)
            return self.wrap(binds, f"if {c}\nthen\n{a}\nelse {b}")
        # both branches fall through: join on the variables they assign (plain values), else duplicate the rest
        av, bv = self.assigned(body), self.assigned(orelse)
        names = [x for x in av + [y for y in bv if y not in av] if x in env or x in ("self", "$p") or (x in av and x in bv)]
        saved_kind, saved_n, saved_stored = self.kind, self.n, set(self.stored)
        try:
            self.kind = "pure"
            seen = []

            def kj(e):
                seen.append(e)
                return tup([self.cname(x, e) for x in names])
            a = self.blk(body, env, kj, None)
            b = self.blk(orelse, env, kj, None)
            self.kind = saved_kind
            e2 = dict(env)
            for x in names:
                if x in ("self", "$p"):
                    continue
                ty = seen[0][x][1]
                for e in seen[1:]:
                    ty = self.unify_ty(ty, e[x][1], s)
                e2 = self.bind(e2, x, vname(x), ty)
            cn = [self.cname(x, e2) for x in names]
            p = "_" if not cn else cn[0] if len(cn) == 1 else "'(" + ", ".join(cn) + ")"
            return self.wrap(binds, f"let {p} := (if {c}\nthen {a}\nelse {b}) in\n" + self.blk(rest, e2, k, loop))
        except NeedKind:
            self.kind, self.n, self.stored = saved_kind, saved_n, saved_stored
            a = self.blk(body + rest, env, k, loop)
            b = self.blk(orelse + rest, env, k, loop)
            return self.wrap(binds, f"if {c}\nthen\n{a}\nelse\n{b}")
        finally:
            self.kind = saved_kind

    def for_(self, s, rest, env, k, loop):
        if s.orelse:
            raise self.err("for-else not accepted", s)
        it = s.iter
        enum = isinstance(it, ast.Call) and isinstance(it.func, ast.Name) and it.func.id == "enumerate" and "enumerate" not in env
        if enum:
            if not (isinstance(s.target, ast.Tuple) and len(s.target.elts) == 2 and all(isinstance(e, ast.Name) for e in s.target.elts)):
                raise self.err("enumerate needs a target `i, x`", s)
            if len(it.args) != 1 or it.keywords:
                raise self.err("enumerate(<list>) expected", s)
            targets = [e.id for e in s.target.elts]
            seq_node = it.args[0]
        else:
            if not isinstance(s.target, ast.Name):
                raise self.err("loop target not accepted", s)
            targets = [s.target.id]
            seq_node = it
        if len(set(targets)) != len(targets) or any(t in env for t in targets):
            raise self.err("a loop target shadows a variable that exists before the loop", s)
        (l, ety), binds = self.local(lambda: self.iterable(seq_node, env))
        if enum:
            seq = f"(enumerate_from 0%Z {l})"
            xa = f"'(({vname(targets[0])}, {vname(targets[1])}) : Z * {cty(ety)})"
            ebody = self.bind(self.bind(env, targets[0], vname(targets[0]), "Z"), targets[1], vname(targets[1]), ety)
        else:
            seq = l
            xa = f"({vname(targets[0])} : {cty(ety)})"
            ebody = self.bind(env, targets[0], vname(targets[0]), ety)
        asg = self.assigned(s.body)
        if any(t in asg for t in targets):
            raise self.err("assignment to a loop target not accepted", s)
        if loop is not None:
            raise self.err("nested loops not accepted", s)
        # ---- a loop that returns
        if has_return(s.body):
            if asg or self.kind != "exn" or self.m.kind != "exn":
                raise self.err("a loop with `return` must not assign variables and must be in a method that may raise", s)
            self.kind = "ret"
            try:
                btext = self.blk(s.body, ebody, lambda e: "(Ok None)", lambda e: "(Ok None)")
            finally:
                self.kind = "exn"
            after = self.blk(rest, env, k, loop)
            return self.wrap(binds, f"match loopR (fun {xa} =>\n{btext}) {seq} with\n| Err e_ => Err e_\n"
                                    f"| Ok (Some r_) => Ok r_\n| Ok None =>\n{after}\nend")
        # carried variables in the order of their first assignment INSIDE the body (insensitive to the names and to
        # the order of the initialisations before the loop)
        carried = [x for x in asg if x in env or (x == "self" and self.m.self_w) or (x == "$p" and self.m.pvar)]
        if "self" in carried and "self" not in env:
            raise self.err("self is not available here", s)
        top = KINDS.index(self.kind if self.kind != "ret" else "exn")
        for kind in KINDS[:top + 1]:
            if kind == "exn" and "$p" in carried:
                continue                                   # the threaded state must survive an exception
            cs = [x for x in carried if not (kind == "st" and x == "$p")]
            saved_kind, saved_n, saved_stored = self.kind, self.n, set(self.stored)
            self.kind = kind
            envs = []
            try:
                def kb(e):
                    envs.append(e)
                    return self.ok(tup([self.cname(x, e) for x in cs]))
                btext = self.blk(s.body, ebody, kb, kb)
            except NeedKind:
                self.n, self.stored = saved_n, saved_stored
                continue
            finally:
                self.kind = saved_kind
            e2 = dict(env)
            for x in cs:
                if x in ("self", "$p"):
                    continue
                ty = env[x][1]
                for e in envs:
                    ty = self.unify_ty(ty, e[x][1], s)
                e2 = self.bind(e2, x, vname(x), ty)
            after = self.blk(rest, e2, k, loop)
            cn = [self.cname(x, e2) for x in cs]
            tys = [cty("self") if x == "self" else PVAR_TY[self.m.pvar] if x == "$p" else cty(e2[x][1]) for x in cs]
            st0 = tup([self.cname(x, env) for x in cs])
            if not cn:
                sp = "(_ : unit)"
            elif len(cn) == 1:
                sp = f"({cn[0]} : {tys[0]})"
            else:
                sp = "'((" + ", ".join(cn) + ") : " + " * ".join(tys) + ")"
            pt = "_" if not cn else cn[0] if len(cn) == 1 else "'(" + ", ".join(cn) + ")"
            if kind == "pure":
                txt = f"let {pt} := fold_left (fun {sp} {xa} =>\n{btext}) {seq} {st0} in\n{after}"
            elif kind == "exn":
                txt = (f"match loopE (fun {sp} {xa} =>\n{btext}) {seq} {st0} with\n"
                       f"| Err e_ => {self.raise_('e_')}\n| Ok {tup(cn) if cn else '_'} =>\n{after}\nend")
            else:
                p = self.m.pvar
                txt = (f"match loopS (fun ({p} : {PVAR_TY[p]}) {sp} {xa} =>\n{btext}) {seq} {p} {st0} with\n"
                       f"| ({p}, Err e_) => ({p}, Err e_)\n| ({p}, Ok {tup(cn) if cn else '_'}) =>\n{after}\nend")
            return self.wrap(binds, txt)
        raise NeedKind("st")

    def with_(self, s, rest, env, k, loop):
        if len(s.items) != 1:
            raise self.err("with: one item expected", s)
        it = s.items[0]
        c = it.context_expr
        if not (isinstance(c, ast.Call) and isinstance(c.func, ast.Name) and c.func.id == "open" and "open" not in env
                and len(c.args) == 2 and not c.keywords and isinstance(c.args[0], ast.Name)
                and isinstance(c.args[1], ast.Constant) and isinstance(c.args[1].value, str)):
            raise self.err("with: expected open(<file name>, <mode literal>)", s)
        if env.get(c.args[0].id, (None, None))[1] != "str" or self.m.pvar != "fs":
            raise self.err("with: the opened name is not the method's (checked) file name parameter", s)
        if not isinstance(it.optional_vars, ast.Name) or it.optional_vars.id in env:
            raise self.err("with: target not accepted", s)
        if self.kind != "st":
            raise NeedKind("st")
        h = it.optional_vars.id
        mode = slit(c.args[1].value)

        def after(e):
            e3 = {kk: v for kk, v in e.items() if kk != h}
            return self.blk(rest, e3, k, loop)
        inner = self.blk(s.body, self.bind(env, h, "tt", ("fh", mode)), after, loop)
        return self.wrap([("fs", f"(fs_open fs {mode})")], inner)

    # ------------------------------------------------------------------ a whole method
    def method(self):
        f, m = self.f, self.m
        a = f.args
        if a.vararg or a.kwarg or a.kwonlyargs or a.posonlyargs or a.defaults or not a.args or a.args[0].arg != "self":
            raise self.err("parameter list shape not accepted", f)
        if f.decorator_list:
            raise self.err("decorators not accepted", f)
        pn = [x.arg for x in a.args[1:]]
        if len(pn) != len(m.ptypes):
            raise self.err(f"expected {len(m.ptypes)} parameters, found {len(pn)}: {pn}", f)
        env = {"self": ("self", "self")}
        hdr = []
        for p, ty in zip(pn, m.ptypes):
            env[p] = (vname(p), ty)
            ct = f"pyarg {cty(ty[1])}" if isinstance(ty, tuple) and ty[0] == "arg" else "pystr" if ty == "strarg" else cty(ty)
            hdr.append(f"({vname(p)} : {ct})")
        base = "(cself T F)" if m.self_w else cty(m.ret)
        rt = f"(result {base})"
        if m.kind == "st":
            rt = f"({PVAR_TY[m.pvar]} * {rt})"

        def end(e):
            if m.ret != "unit":
                raise self.err("control reaches the end of a method that returns a value", f)
            return self.ret("tt", "unit", f)
        body = self.blk(strip_doc(f.body), env, end, None)
        head = ([] if m.ctor else ["(self : cself T F)"]) + (["(fs : file T F)"] if m.pvar == "fs" else []) + hdr
        pre = ("let self := (@cs_new T F) in\n" if m.ctor else "") + ("let w := (@nil nat) in\n" if m.pvar == "w" else "")
        return f"Definition {m.coq} {' '.join(head)} : {rt} :=\n{pre}{body}.\n"


def generate():
    tree, path = parse(SRC)
    cls = find_class(tree, "CentralityClasses")
    table = {}
    for m in METHODS:
        table[m.py] = (m, find_func(cls, m.py))
    known = {m.py for m in METHODS}
    for n in cls.body:
        if isinstance(n, ast.FunctionDef) and n.name not in known:
            raise TranslateError(f"method {n.name} of CentralityClasses is not covered by the translation", n, path)
        if not isinstance(n, ast.FunctionDef) and not (isinstance(n, ast.Expr) and isinstance(n.value, ast.Constant)):
            raise TranslateError("class-level statement not accepted", n, path)
    if cls.bases or cls.keywords or cls.decorator_list:
        raise TranslateError("base classes / decorators of CentralityClasses not accepted", cls, path)
    out = [HEADER,
           "(* CentralityClasses.py as written, over Model/CentralityRt.v; see tools/py2coq/gen_centrality_methods.py for the\n"
           "   conventions.  T / leb / t0: the multiplicities; F and f_*: the averages (uninterpreted float arithmetic). *)\n"
           "From Coq Require Import List ZArith QArith Qround Bool String.\nFrom SX Require Import Lib.Py Model.CentralityRt.\n"
           "Import ListNotations.\n\nSection Gen.\nVariables T F : Type.\nVariable leb : T -> T -> bool.\nVariable t0 : T.\n"
           "Variable f_mean : list T -> F.\nVariable f_sqrt : F -> F.\nVariables f_add f_sub f_mul f_div : F -> F -> F.\n"
           "Variable f_pow : F -> Z -> F.\nVariable f_lit : Q -> F.\n\n"]
    for m in METHODS:
        _, fdef = table[m.py]
        out.append(f"(* ---- {m.py} ---- *)\n" + Tr(m, fdef, table, path).method() + "\n")
    out.append("End Gen.\n")
    return "".join(out)


def main(outdir):
    return write_if_changed(outdir + "/GenCentralityMethods.v", generate())

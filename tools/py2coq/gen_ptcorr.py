"""Gen/GenPtCorr.v from src/sparkx/MultiParticlePtCorrelations.py (poly extractor)."""
import ast
from .core import *
from . import poly

SRC = "src/sparkx/MultiParticlePtCorrelations.py"
OUTPUTS = ["GenPtCorr"]


def generate():
    tree, path = parse(SRC)
    cls = find_class(tree, "MultiParticlePtCorrelations")
    out = [HEADER, "From Coq Require Import ZArith List.\nFrom SX Require Import Lib.KRing.\n",
           "Section Gen.\n  Variable K : Type.\n  Variables (k0 k1 : K) (kadd kmul ksub : K -> K -> K) (kopp : K -> K).\n"]

    # ---- numerators / denominators --------------------------------------
    f = find_func(cls, "_transverse_momentum_correlations_event_num_denom")
    loops = [n for n in strip_doc(f.body) if isinstance(n, ast.For)]
    if len(loops) != 1:
        raise TranslateError("expected exactly one for-loop", f, path)
    loop = loops[0]
    if not (isinstance(loop.target, ast.Name) and isinstance(loop.iter, ast.Call)
            and isinstance(loop.iter.func, ast.Name) and loop.iter.func.id == "range"
            and len(loop.iter.args) == 1 and ast.unparse(loop.iter.args[0]) == "self.max_order"):
        raise TranslateError("expected `for order in range(self.max_order)`", loop, path)
    var = loop.target.id
    if len(loop.body) != 1:
        raise TranslateError("loop body must be a single if-chain", loop, path)
    chain, els = poly.if_chain(loop.body[0], var, path)
    if els:
        raise TranslateError("unexpected else branch in order chain", loop, path)
    arrays = {"Pk": "P", "Wk": "W"}
    orders = []
    for c, body in chain:
        got = {}
        for st in body:
            if not (isinstance(st, ast.Assign) and len(st.targets) == 1
                    and isinstance(st.targets[0], ast.Subscript)
                    and isinstance(st.targets[0].value, ast.Name)
                    and ast.unparse(st.targets[0].slice) == var):
                raise TranslateError("expected `N[order] = ...` / `D[order] = ...`", st, path)
            name = st.targets[0].value.id
            if name not in ("N", "D") or name in got:
                raise TranslateError("unexpected assignment target " + name, st, path)
            got[name] = poly.expr(st.value, arrays, path, {var: c})
        if set(got) != {"N", "D"}:
            raise TranslateError("branch must assign N and D", body[0], path)
        if c in [o for o, _ in orders]:
            raise TranslateError("duplicate order branch", body[0], path)
        orders.append((c, got))
    for c, got in orders:
        for nm in ("N", "D"):
            out.append(f"  Definition gen_{nm}_{c} (P W : nat -> K) : K :=\n    {got[nm]}.\n")
    for nm in ("N", "D"):
        out.append(f"  Definition gen_{nm} (order : nat) (P W : nat -> K) : option K :=\n    match order with\n")
        for c, _ in orders:
            out.append(f"    | {c}%nat => Some (gen_{nm}_{c} P W)\n")
        out.append("    | _ => None\n    end.\n")
    # the result of the loop is appended once per event
    tail = [ast.unparse(n) for n in strip_doc(f.body) if not isinstance(n, ast.For)]
    expect = ["Pk, Wk = self._P_W_k(particle_list_event)", "N = np.zeros(self.max_order)",
              "D = np.zeros(self.max_order)", "self.N_events.append(N)", "self.D_events.append(D)"]
    if tail != expect:
        raise TranslateError("statements around the order loop changed: " + repr(tail), f, path)

    # ---- cumulants ------------------------------------------------------
    f = find_func(cls, "_kappa_cumulant")
    body = strip_doc(f.body)
    if not (len(body) == 2 and isinstance(body[1], ast.Return) and ast.unparse(body[1].value) == "kappa"):
        raise TranslateError("expected if-chain followed by `return kappa`", f, path)
    chain, els = poly.if_chain(body[0], "k", path)
    if not (len(els) == 1 and isinstance(els[0], ast.Raise)):
        raise TranslateError("expected final `else: raise`", f, path)
    ks = []
    for c, b in chain:
        if not (len(b) == 1 and isinstance(b[0], ast.Assign) and ast.unparse(b[0].targets[0]) == "kappa"):
            raise TranslateError("expected `kappa = ...`", b[0], path)
        out.append(f"  Definition gen_kappa_{c} (C : nat -> K) : K :=\n    {poly.expr(b[0].value, {'C': 'C'}, path)}.\n")
        ks.append(c)
    out.append("  Definition gen_kappa (k : nat) (C : nat -> K) : option K :=\n    match k with\n")
    for c in ks:
        out.append(f"    | {c}%nat => Some (gen_kappa_{c} C)\n")
    out.append("    | _ => None\n    end.\n")

    # ---- admissible max_order (constructor validation) --------------------
    f = find_func(cls, "__init__")
    lo = hi = None
    for st in strip_doc(f.body):
        if isinstance(st, ast.If) and any(isinstance(x, ast.Raise) for x in st.body):
            t = st.test
            if isinstance(t, ast.BoolOp) and isinstance(t.op, ast.Or) and len(t.values) == 2:
                a, b = t.values
                if (isinstance(a, ast.Compare) and isinstance(a.ops[0], ast.Lt)
                        and ast.unparse(a.left) == "self.max_order"
                        and isinstance(b, ast.Compare) and isinstance(b.ops[0], ast.Gt)
                        and ast.unparse(b.left) == "self.max_order"):
                    lo = int_const(a.comparators[0], path)
                    hi = int_const(b.comparators[0], path)
    if lo is None:
        raise TranslateError("max_order validation not recognised", f, path)
    out.append(f"  Definition gen_max_order_lo : nat := {lo}%nat.\n  Definition gen_max_order_hi : nat := {hi}%nat.\n")
    out.append("End Gen.\n")
    return "".join(out)


def main(outdir):
    return write_if_changed(outdir + "/GenPtCorr.v", generate())

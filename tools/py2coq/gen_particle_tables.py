"""Gen/GenParticleMap.v: the column tables of Particle.__initialize_from_array and the ASCII header map of
OscarLoader._set_custom_attr_list (`tables` extractor: dict/list literals only, fail-closed)."""
import ast
from .core import *

OUTPUTS = ["GenParticleMap"]


def s(x):
    return '"' + x.replace('"', '""') + '"'


def lit(node, path):
    try:
        return ast.literal_eval(node)
    except Exception:
        raise TranslateError("expected a literal", node, path)


def generate():
    tree, path = parse("src/sparkx/Particle.py")
    cls = find_class(tree, "Particle")
    f = find_func(cls, "_Particle__initialize_from_array") if False else None
    for n in cls.body:
        if isinstance(n, ast.FunctionDef) and n.name == "__initialize_from_array":
            f = n
    if f is None:
        raise TranslateError("__initialize_from_array not found")
    mapping = None
    in_lists = []
    relaxed = None
    slack = None
    for n in ast.walk(f):
        if isinstance(n, ast.Assign) and len(n.targets) == 1 and isinstance(n.targets[0], ast.Name) \
                and n.targets[0].id == "attribute_mapping":
            mapping = lit(n.value, path)
        if isinstance(n, ast.If) and isinstance(n.test, ast.Compare) and len(n.test.ops) == 1 \
                and isinstance(n.test.ops[0], ast.In) and isinstance(n.test.left, ast.Name) \
                and n.test.left.id == "attribute" and isinstance(n.test.comparators[0], ast.List):
            body = ast.unparse(n.body[0])
            in_lists.append((lit(n.test.comparators[0], path), body))
        if isinstance(n, ast.Compare) and len(n.ops) == 1 and isinstance(n.ops[0], ast.In) \
                and isinstance(n.left, ast.Name) and n.left.id == "input_format" \
                and isinstance(n.comparators[0], ast.List):
            relaxed = lit(n.comparators[0], path)
        if isinstance(n, ast.Compare) and len(n.ops) == 1 and isinstance(n.ops[0], ast.GtE) \
                and isinstance(n.comparators[0], ast.BinOp) and isinstance(n.comparators[0].op, ast.Sub) \
                and "len(attribute_mapping[input_format])" in ast.unparse(n.comparators[0].left):
            slack = int_const(n.comparators[0].right, path)
    if mapping is None or len(in_lists) != 2 or relaxed is None or slack is None:
        raise TranslateError("tables of __initialize_from_array not recognised", f, path)
    (fl, fbody), (il, ibody) = in_lists
    if "float(particle_array[index[1]])" not in fbody or "int(particle_array[index[1]])" not in ibody:
        raise TranslateError("cast branches changed: " + fbody + " / " + ibody, f, path)
    out = [HEADER, "From Coq Require Import List String.\nImport ListNotations.\nLocal Open Scope string_scope.\n"]
    out.append("Definition gen_mapping : list (string * list (string * (nat * nat))) :=\n  [\n")
    rows = []
    for fmt, d in mapping.items():
        ents = "; ".join(f"({s(a)}, ({v[0]}, {v[1]}))" for a, v in d.items())
        rows.append(f"   ({s(fmt)}, [{ents}])")
    out.append(";\n".join(rows) + "\n  ]%nat.\n")
    out.append("Definition gen_float_fields : list string := [" + "; ".join(s(x) for x in fl) + "].\n")
    out.append("Definition gen_int_fields : list string := [" + "; ".join(s(x) for x in il) + "].\n")
    out.append("Definition gen_relaxed_formats : list string := [" + "; ".join(s(x) for x in relaxed) + "].\n")
    out.append(f"Definition gen_relax_slack : nat := {slack}%nat.\n")

    tree, path = parse("src/sparkx/loader/OscarLoader.py")
    cls = find_class(tree, "OscarLoader")
    f = find_func(cls, "_set_custom_attr_list")
    am = None
    for n in ast.walk(f):
        if isinstance(n, ast.Assign) and isinstance(n.targets[0], ast.Name) and n.targets[0].id == "attr_map":
            am = lit(n.value, path)
    if am is None:
        raise TranslateError("attr_map not found", f, path)
    out.append("Definition gen_attr_map : list (string * string) := [" +
               "; ".join(f"({s(k)}, {s(v)})" for k, v in am.items()) + "].\n")
    return "".join(out)


def main(outdir):
    return write_if_changed(outdir + "/GenParticleMap.v", generate())

"""Gen/GenLattice.v from src/sparkx/Lattice3D.py: the table- and formula-shaped parts.

  * __is_valid_index / __get_value            -> index guards over Python ints (Z)
  * add_particle_data: quantity dispatch       -> association list  quantity string -> what is read from the particle
  * add_particle_data: `value_to_add = ...`    -> field expression (the cell-volume factor lives here)
  * add_particle_data: normalisation           -> the guard on `norm` (a Q predicate) and the division by `norm`
Everything else of Lattice3D is control flow around numpy and is modelled by hand (Model/Lattice.v, Model/Smear.v).
Fail-closed: any other shape raises TranslateError.
"""
import ast
from fractions import Fraction
from .core import *
from . import ratexpr

SRC = "src/sparkx/Lattice3D.py"
OUTPUTS = ["GenLattice"]


def _chained_bounds(node, var, path):
    """`0 <= var < self.num_points_?_`  ->  (lo, 'le'|'lt', 'le'|'lt', upper-source)"""
    if not (isinstance(node, ast.Compare) and len(node.ops) == 2 and isinstance(node.comparators[0], ast.Name)
            and node.comparators[0].id == var):
        raise TranslateError("expected `c <= %s < n`" % var, node, path)
    lo = int_const(node.left, path)
    ops = []
    for o in node.ops:
        if isinstance(o, ast.LtE):
            ops.append("<=?")
        elif isinstance(o, ast.Lt):
            ops.append("<?")
        else:
            raise TranslateError("comparison operator not accepted in index guard", node, path)
    return lo, ops[0], ops[1], ast.unparse(node.comparators[1])


def valid_index(cls, path):
    f = find_func(cls, "_Lattice3D__is_valid_index") if any(
        isinstance(n, ast.FunctionDef) and n.name == "_Lattice3D__is_valid_index" for n in cls.body) else find_func(cls, "__is_valid_index")
    body = strip_doc(f.body)
    if not (len(body) == 1 and isinstance(body[0], ast.Return) and isinstance(body[0].value, ast.BoolOp)
            and isinstance(body[0].value.op, ast.And) and len(body[0].value.values) == 3):
        raise TranslateError("__is_valid_index: expected `return A and B and C`", f, path)
    args = [a.arg for a in f.args.args[1:]]
    if args != ["i", "j", "k"]:
        raise TranslateError("__is_valid_index: unexpected parameters", f, path)
    want = ["self.num_points_x_", "self.num_points_y_", "self.num_points_z_"]
    parts = []
    for v, node, up in zip(args, body[0].value.values, want):
        lo, o1, o2, upper = _chained_bounds(node, v, path)
        if upper != up:
            raise TranslateError(f"__is_valid_index: {v} is compared with {upper}, expected {up}", node, path)
        parts.append((lo, o1, o2))
    if len(set(parts)) != 1:
        raise TranslateError("__is_valid_index: the three axes are guarded differently", f, path)
    lo, o1, o2 = parts[0]
    return (f"(* {ast.unparse(body[0].value.values[0])}   (same shape on the three axes) *)\n"
            f"Definition gen_valid1 (i n : Z) : bool := (({lo} {o1} i) && (i {o2} n))%Z.\n")


def coord_guard(cls, path):
    f = find_func(cls, "__get_value")
    body = strip_doc(f.body)
    if not (len(body) == 2 and isinstance(body[0], ast.If) and len(body[0].body) == 1 and isinstance(body[0].body[0], ast.Raise)
            and not body[0].orelse and isinstance(body[1], ast.Return) and ast.unparse(body[1].value) == "values[index]"):
        raise TranslateError("__get_value: expected `if <guard>: raise ...; return values[index]`", f, path)
    exc = body[0].body[0].exc
    cls_name = exc.func.id if isinstance(exc, ast.Call) and isinstance(exc.func, ast.Name) else None
    if cls_name not in ("ValueError", "IndexError", "TypeError"):
        raise TranslateError("__get_value: unexpected exception class", body[0], path)
    t = body[0].test
    if not (isinstance(t, ast.BoolOp) and isinstance(t.op, ast.Or) and len(t.values) == 2):
        raise TranslateError("__get_value: expected `A or B`", t, path)
    env = {"index": "index", "num_points": "n"}
    a = ratexpr.compare(t.values[0], env, path)
    b = ratexpr.compare(t.values[1], env, path)
    return (f"(* if {ast.unparse(t)}: raise {cls_name} *)\n"
            f"Definition gen_coord_bad (index n : Z) : bool := {a} || {b}.\n"
            f"Definition gen_coord_err : errcls := {cls_name}.\n")


def smearing(cls, path):
    f = find_func(cls, "add_particle_data")
    out = []
    # ---- quantity dispatch: first statement of the particle loop that is an if-chain on `quantity`
    loop = [n for n in strip_doc(f.body) if isinstance(n, ast.For)]
    if len(loop) != 1 or ast.unparse(loop[0].iter) != "particle_data":
        raise TranslateError("add_particle_data: expected one loop over particle_data", f, path)
    chain = None
    for st in loop[0].body:
        if isinstance(st, ast.If) and isinstance(st.test, ast.Compare) and ast.unparse(st.test.left) == "quantity":
            chain = st
            break
    if chain is None:
        raise TranslateError("add_particle_data: quantity dispatch not found", f, path)
    rows = []
    cur = chain
    while True:
        t = cur.test
        if not (isinstance(t, ast.Compare) and len(t.ops) == 1 and isinstance(t.ops[0], ast.Eq)
                and ast.unparse(t.left) == "quantity" and isinstance(t.comparators[0], ast.Constant)
                and isinstance(t.comparators[0].value, str)):
            raise TranslateError("quantity dispatch: expected `quantity == \"...\"`", cur, path)
        if not (len(cur.body) == 1 and isinstance(cur.body[0], ast.Assign) and ast.unparse(cur.body[0].targets[0]) == "value"):
            raise TranslateError("quantity dispatch: expected `value = ...`", cur, path)
        v = cur.body[0].value
        if isinstance(v, ast.Attribute) and isinstance(v.value, ast.Name) and v.value.id == "particle":
            sel = f'QAttr "{v.attr}"'
        elif isinstance(v, ast.Constant) and isinstance(v.value, (int, float)) and not isinstance(v.value, bool) and v.value == 1:
            sel = "QOne"
        else:
            raise TranslateError("quantity dispatch: value must be `particle.<attr>` or 1.0", cur, path)
        key = t.comparators[0].value
        if key in [k for k, _ in rows]:
            raise TranslateError("quantity dispatch: duplicate key " + key, cur, path)
        rows.append((key, sel))
        if len(cur.orelse) == 1 and isinstance(cur.orelse[0], ast.If):
            cur = cur.orelse[0]
            continue
        els = cur.orelse
        break
    if not (len(els) == 1 and isinstance(els[0], ast.Raise) and isinstance(els[0].exc, ast.Call)
            and isinstance(els[0].exc.func, ast.Name) and els[0].exc.func.id == "ValueError"):
        raise TranslateError("quantity dispatch: expected final `else: raise ValueError`", chain, path)
    out.append("Inductive qsel := QAttr (name : string) | QOne.\n"
               "Definition gen_quantity_table : list (string * qsel) :=\n  ["
               + ";\n   ".join(f'("{k}", {s})' for k, s in rows) + "].\n"
               "Definition gen_quantity_unknown : errcls := ValueError.\n")
    # ---- value_to_add and the normalisation
    vta = [n for n in ast.walk(f) if isinstance(n, ast.Assign) and ast.unparse(n.targets[0]) == "value_to_add"
           and not (isinstance(n.value, ast.Constant))]
    if len(vta) != 1:
        raise TranslateError("add_particle_data: expected exactly one `value_to_add = <expr>`", f, path)
    env = {"value": "value", "smearing_factor": "sf", "self.cell_volume_": "vol"}
    e = ratexpr.expr(vta[0].value, env, path, ratexpr.FIELD)
    out.append("Section Deposit.\n  Variable K : Type.\n  Variables (k0 k1 : K) (kadd kmul ksub kdiv : K -> K -> K) (kopp : K -> K).\n"
               f"  (* value_to_add = {ast.unparse(vta[0].value)} *)\n"
               f"  Definition gen_value_to_add (value sf vol : K) : K := {e}.\n")
    norm_if = [n for n in ast.walk(f) if isinstance(n, ast.If) and "norm" in ast.unparse(n.test)
               and any(isinstance(b, ast.AugAssign) for b in n.body)]
    if len(norm_if) != 1:
        raise TranslateError("add_particle_data: normalisation `if <guard on norm>: grid /= norm` not found", f, path)
    ni = norm_if[0]
    if not (len(ni.body) == 1 and not ni.orelse and isinstance(ni.body[0].op, ast.Div)
            and ast.unparse(ni.body[0].value) == "norm" and ast.unparse(ni.body[0].target) == "temp_lattice.grid_[i, j, k]"):
        raise TranslateError("normalisation: expected `temp_lattice.grid_[i, j, k] /= norm`", ni, path)
    out.append("  (* temp_lattice.grid_[i, j, k] /= norm *)\n"
               "  Definition gen_normalise (t norm : K) : K := (kdiv t norm).\nEnd Deposit.\n")
    t = ni.test
    if not (isinstance(t, ast.Compare) and len(t.ops) == 1):
        raise TranslateError("normalisation guard: expected a single comparison", t, path)
    left, right, op = t.left, t.comparators[0], t.ops[0]
    if ast.unparse(left) == "abs(norm)":
        lhs = "(Qabs norm)"
    elif ast.unparse(left) == "norm":
        lhs = "norm"
    else:
        raise TranslateError("normalisation guard: left side must be `norm` or `abs(norm)`", t, path)
    if not (isinstance(right, ast.Constant) and isinstance(right.value, (int, float)) and not isinstance(right.value, bool)):
        raise TranslateError("normalisation guard: right side must be a numeric literal", t, path)
    c = Fraction(right.value)
    cq = f"({c.numerator} # {c.denominator})" if c >= 0 else f"(({c.numerator}) # {c.denominator})"
    if isinstance(op, ast.Gt):
        g = f"negb (Qle_bool {lhs} {cq})"
    elif isinstance(op, ast.GtE):
        g = f"Qle_bool {cq} {lhs}"
    elif isinstance(op, ast.NotEq):
        g = f"negb (Qeq_bool {lhs} {cq})"
    else:
        raise TranslateError("normalisation guard: operator must be > >= or !=", t, path)
    out.append(f"(* if {ast.unparse(t)}: ... /= norm *)\nDefinition gen_norm_ok (norm : Q) : bool := {g}.\n")
    return "".join(out)


def generate():
    tree, path = parse(SRC)
    cls = find_class(tree, "Lattice3D")
    out = [HEADER, "From Coq Require Import List ZArith QArith Qabs Bool String.\nFrom SX Require Import Lib.KRing Lib.Py.\n"
           "Import ListNotations.\nLocal Open Scope string_scope.\n\n"]
    out.append(valid_index(cls, path))
    out.append(coord_guard(cls, path))
    out.append(smearing(cls, path))
    return "".join(out)


def main(outdir):
    return write_if_changed(outdir + "/GenLattice.v", generate())

"""Gen/GenStorer.v (C04): the bookkeeping methods of the storer classes, translated statement by statement from the
CURRENT source into Gallina over Model/StorerRt.v (a dynamically typed Python/numpy fragment on the state record of
Model/Storer.v).  Proofs/C04_Source.v proves the hand model equal to what is generated here.

  BaseStorer._update_num_output_per_event_after_filter   -> gen_update_after_filter self
  BaseStorer.particle_list                                -> gen_particle_list self
  BaseStorer.num_events / num_output_per_event / particle_objects_list -> gen_num_events / ... self
  BaseStorer.__add__                                      -> gen_add self other
  Oscar / Jetscape / ParticleObjectStorer._update_after_merge -> gen_uam_<cls> self other, gen_update_after_merge (dispatch)
  every filter wrapper of BaseStorer and of the subclasses -> ONE term gen_filter_method g self (they must all agree)
  ParticleObjectStorer.__init__ (the recount after BaseStorer.__init__) -> gen_pobj_init_recount first self
  __add__: which attributes of the sum are assigned, and whether from a newly built object -> gen_add_assigned

Control flow (if/elif/else joins, for loops with loop-carried variables, early return / raise) is the machinery of
pyfrag.Translator; expressions, conditions and the statement forms of this fragment are defined here.  Fail-closed: any
statement or expression shape that is not listed raises TranslateError.
"""
import ast
from .core import *
from . import pyfrag
from .pyfrag import V, Var, cname, zlit, qlit

OUTPUTS = ["GenStorer"]
BASE = "src/sparkx/BaseStorer.py"
FILTER = "src/sparkx/Filter.py"
SUBS = [("Oscar", "src/sparkx/Oscar.py", "Oscar", "COscar"), ("Jetscape", "src/sparkx/Jetscape.py", "Jetscape", "CJetscape"),
        ("PObj", "src/sparkx/ParticleObjectStorer.py", "ParticleObjectStorer", "CPobj")]
CLASS_CTOR = {"Oscar": "COscar", "Jetscape": "CJetscape", "ParticleObjectStorer": "CPobj"}
RECOUNT = "_update_num_output_per_event_after_filter"
MERGE = "_update_after_merge"
ATTR = {"particle_list_": "A_events", "num_output_per_event_": "A_counts", "num_events_": "A_nevents",
        "event_end_lines_": "A_xend", "oscar_format_": "A_fmt", "particle_type_": "A_ptype",
        "particle_type_defining_string_": "A_ptype_str", "sigmaGen_": "A_sigma", "loader_": "A_loader"}
ERR = {"TypeError", "ValueError", "IndexError", "KeyError", "AttributeError", "ZeroDivisionError"}
# second component of sigmaGen_ (an error estimate with a sqrt): outside the model, pinned by its text
SIGMA_ERR = "0.5 * np.sqrt(self.sigmaGen_[1] ** 2 + other.sigmaGen_[1] ** 2)"
# methods of BaseStorer the model takes from BaseStorer for every class: a subclass must not override them
NOT_OVERRIDDEN = ["__add__", "particle_list", RECOUNT, "num_events", "num_output_per_event", "particle_objects_list"]
PRIMS = {"__nil__", "__nilnil__", "__setattr__", "__setitem__", "__setitem2__", "__iadd_colslice__", "__append__",
         "__uam__", "__recount__", "__shallow_copy__"}


def prim(name, args, at):
    n = ast.Call(func=ast.Name(id=name, ctx=ast.Load()), args=list(args), keywords=[])
    return ast.fix_missing_locations(ast.copy_location(n, at))


def assign(name, value, at):
    n = ast.Assign(targets=[ast.Name(id=name, ctx=ast.Store())], value=value)
    return ast.fix_missing_locations(ast.copy_location(n, at))


def load(name, at):
    return ast.copy_location(ast.Name(id=name, ctx=ast.Load()), at)


class Lists(ast.NodeTransformer):
    """[] and [[]] become primitives (the translator of pyfrag treats list literals in its own typed way)"""
    def visit_List(self, node):
        if isinstance(node.ctx, ast.Load):
            if not node.elts:
                return prim("__nil__", [], node)
            if len(node.elts) == 1 and isinstance(node.elts[0], ast.List) and not node.elts[0].elts:
                return prim("__nilnil__", [], node)
        return self.generic_visit(node)


class Desugar:
    """statements of the accepted fragment -> assignments to plain names, if, for, return, raise, pass, warn"""
    def __init__(self, path):
        self.path = path

    def err(self, msg, node):
        raise TranslateError(msg, node, self.path)

    def attr_of_name(self, t):
        return isinstance(t, ast.Attribute) and isinstance(t.value, ast.Name)

    def attr_const(self, t):
        if t.attr not in ATTR:
            self.err(f"attribute {t.attr} is not part of the storer state of the model", t)
        return ast.copy_location(ast.Constant(value=t.attr), t)

    def as_load(self, t):
        t2 = ast.parse(ast.unparse(t), mode="eval").body
        for n in ast.walk(t2):
            ast.copy_location(n, t)
        return t2

    def plain_index(self, i):
        if isinstance(i, (ast.Slice, ast.Tuple)):
            self.err("index form not accepted in an assignment target", i)
        return i

    def store(self, target, value, st):
        """target = value  as one assignment to a plain name"""
        if isinstance(target, ast.Name):
            return assign(target.id, value, st)
        if self.attr_of_name(target):
            x = target.value.id
            return assign(x, prim("__setattr__", [load(x, st), self.attr_const(target), value], st), st)
        if isinstance(target, ast.Subscript):
            base, idx = target.value, self.plain_index(target.slice)
            if isinstance(base, ast.Subscript):
                inner, i = base.value, self.plain_index(base.slice)
                if isinstance(inner, ast.Name) or self.attr_of_name(inner):
                    return self.store(inner, prim("__setitem2__", [self.as_load(inner), i, idx, value], st), st)
            if isinstance(base, ast.Name) or self.attr_of_name(base):
                return self.store(base, prim("__setitem__", [self.as_load(base), idx, value], st), st)
        self.err("assignment target not accepted: " + ast.unparse(target), st)

    def block(self, stmts):
        out, i = [], 0
        while i < len(stmts):
            st = stmts[i]
            nxt = stmts[i + 1] if i + 1 < len(stmts) else None
            # c = self.__class__.__new__(self.__class__) ; c.__dict__.update(self.__dict__)
            if (isinstance(st, (ast.Assign, ast.AnnAssign)) and st.value is not None
                    and ast.unparse(st.value) == "self.__class__.__new__(self.__class__)"):
                tg = st.targets[0] if isinstance(st, ast.Assign) and len(st.targets) == 1 else getattr(st, "target", None)
                if not (isinstance(tg, ast.Name) and isinstance(nxt, ast.Expr)
                        and ast.unparse(nxt.value) == f"{tg.id}.__dict__.update(self.__dict__)"):
                    self.err("a new object must be followed at once by `<it>.__dict__.update(self.__dict__)`", st)
                out.append(assign(tg.id, prim("__shallow_copy__", [load("self", st)], st), st))
                i += 2
                continue
            out += self.stmt(st)
            i += 1
        return out

    def stmt(self, st):
        if isinstance(st, (ast.Pass, ast.Return, ast.Raise)):
            return [st]
        if isinstance(st, ast.Expr) and isinstance(st.value, ast.Constant) and isinstance(st.value.value, str):
            return []
        if isinstance(st, ast.AnnAssign):
            if st.value is None:
                self.err("annotation without a value", st)
            return [self.store(st.target, st.value, st)]
        if isinstance(st, ast.Assign):
            if len(st.targets) != 1:
                self.err("multiple assignment targets", st)
            return [self.store(st.targets[0], st.value, st)]
        if isinstance(st, ast.AugAssign):
            if not isinstance(st.op, ast.Add):
                self.err("augmented assignment other than += not accepted", st)
            t = st.target
            if isinstance(t, ast.Name) or self.attr_of_name(t):
                v = ast.copy_location(ast.BinOp(left=self.as_load(t), op=ast.Add(), right=st.value), st)
                return [self.store(t, v, st)]
            if (isinstance(t, ast.Subscript) and isinstance(t.value, ast.Name) and isinstance(t.slice, ast.Tuple)
                    and len(t.slice.elts) == 2 and isinstance(t.slice.elts[0], ast.Slice)
                    and t.slice.elts[0].lower is not None and t.slice.elts[0].upper is None and t.slice.elts[0].step is None
                    and not isinstance(t.slice.elts[1], (ast.Slice, ast.Tuple))):
                a = t.value.id
                return [assign(a, prim("__iadd_colslice__", [load(a, st), t.slice.elts[0].lower, t.slice.elts[1], st.value], st), st)]
            self.err("augmented assignment target not accepted: " + ast.unparse(t), st)
        if isinstance(st, ast.Expr) and isinstance(st.value, ast.Call):
            c = st.value
            fn = ast.unparse(c.func)
            if fn == "warnings.warn":
                return [st]
            if isinstance(c.func, ast.Attribute) and isinstance(c.func.value, ast.Name) and not c.keywords:
                x = c.func.value.id
                if c.func.attr == "append" and len(c.args) == 1:
                    return [assign(x, prim("__append__", [load(x, st), c.args[0]], st), st)]
                if c.func.attr == MERGE and len(c.args) == 1:
                    return [assign(x, prim("__uam__", [load(x, st), c.args[0]], st), st)]
                if c.func.attr == RECOUNT and not c.args:
                    return [assign(x, prim("__recount__", [load(x, st)], st), st)]
            self.err("expression statement not accepted: " + ast.unparse(st)[:70], st)
        if isinstance(st, ast.If):
            n = ast.If(test=st.test, body=self.block(st.body) or [ast.copy_location(ast.Pass(), st)], orelse=self.block(st.orelse))
            return [ast.copy_location(n, st)]
        if isinstance(st, ast.For):
            if st.orelse:
                self.err("for-else not accepted", st)
            n = ast.For(target=st.target, iter=st.iter, body=self.block(st.body) or [ast.copy_location(ast.Pass(), st)],
                        orelse=[], type_comment=None)
            return [ast.copy_location(n, st)]
        self.err("statement not accepted: " + type(st).__name__, st)


class Tr(pyfrag.Translator):
    CMP = {ast.LtE: "py_le", ast.Lt: "py_lt", ast.GtE: "py_ge", ast.Gt: "py_gt", ast.Eq: "py_eq", ast.NotEq: "py_ne"}

    def __init__(self, path, filters=(), params=()):
        super().__init__(path, {}, set(), set())
        self.filters, self.params = set(filters), list(params)
        self.kind = "pure"

    # ---- expressions: everything is a dynamically typed value
    def const(self, node):
        v = node.value
        if v is None:
            return "VNone"
        if isinstance(v, bool):
            return f"(VBool {'true' if v else 'false'})"
        if isinstance(v, int):
            return f"(VInt {zlit(v)})"
        if isinstance(v, float) and v == v and v not in (float("inf"), float("-inf")):
            return f"(VFloat {qlit(v)})"
        self.err("constant not accepted: " + repr(v), node)

    def un(self, f, node, env):
        t, _, mon = self.E(node, env)
        term, mon = self.lift([(t, mon)], lambda a: (f"({f} {a[0]})", True))
        return term, V, mon

    def nary(self, f, nodes, env, order=None):
        """f applied to the values of nodes; `order`: evaluation order (indices), default left to right"""
        parts = [None] * len(nodes)
        seq = order or list(range(len(nodes)))
        ev = []
        for i in seq:
            t, _, mon = self.E(nodes[i], env)
            ev.append((i, t, mon))
        names = {}

        def k(a):
            for (i, _, _), x in zip(ev, a):
                names[i] = x
            return f"({f} {' '.join(names[i] for i in range(len(nodes)))})", True
        term, mon = self.lift([(t, mon) for _, t, mon in ev], k)
        return term, V, mon

    def E(self, node, env):
        if isinstance(node, ast.Constant):
            return self.const(node), V, False
        if isinstance(node, ast.Name):
            if node.id not in env:
                self.err(f"name {node.id} is not bound here", node)
            v = env[node.id]
            if v.opt:
                return f"(py_unbound {v.name})", V, True
            return v.name, V, False
        if isinstance(node, ast.UnaryOp) and isinstance(node.op, ast.USub) and isinstance(node.operand, ast.Constant) \
                and isinstance(node.operand.value, (int, float)) and not isinstance(node.operand.value, bool):
            return self.const(ast.Constant(value=-node.operand.value)), V, False
        if isinstance(node, ast.Attribute):
            if node.attr == "size":
                return self.un("py_size", node.value, env)
            if node.attr == "ndim":
                return self.un("py_ndim", node.value, env)
            if node.attr in ATTR:
                t, _, mon = self.E(node.value, env)
                a = ATTR[node.attr]
                term, mon = self.lift([(t, mon)], lambda x: (f"(py_getattr {x[0]} {a})", True))
                return term, V, mon
            self.err("attribute not accepted: " + ast.unparse(node), node)
        if isinstance(node, ast.Subscript):
            s = node.slice
            if isinstance(s, ast.Tuple):
                if len(s.elts) == 2 and isinstance(s.elts[0], ast.Slice) and s.elts[0].lower is None \
                        and s.elts[0].upper is None and s.elts[0].step is None and not isinstance(s.elts[1], (ast.Slice, ast.Tuple)):
                    return self.nary("py_getcol", [node.value, s.elts[1]], env)
                if len(s.elts) == 2 and not any(isinstance(e, (ast.Slice, ast.Tuple)) for e in s.elts):
                    return self.nary("py_getitem2", [node.value, s.elts[0], s.elts[1]], env)
                self.err("index form not accepted: " + ast.unparse(node), node)
            if isinstance(s, ast.Slice):
                self.err("slice not accepted: " + ast.unparse(node), node)
            return self.nary("py_getitem", [node.value, s], env)
        if isinstance(node, ast.BinOp):
            op = {ast.Add: "py_add", ast.Sub: "py_sub", ast.Div: "py_div"}.get(type(node.op))
            if op is None:
                self.err("arithmetic operator not accepted: " + ast.unparse(node), node)
            return self.nary(op, [node.left, node.right], env)
        if isinstance(node, ast.IfExp):
            ct, cmon = self.C(node.test, env)
            a, _, amon = self.E(node.body, env)
            b, _, bmon = self.E(node.orelse, env)
            v = self.fresh("c")
            return f"({v} <- {self.m((ct, cmon))} ;; if {v} then {self.m((a, amon))} else {self.m((b, bmon))})", V, True
        if isinstance(node, ast.Call):
            return self.call(node, env)
        self.err("expression not accepted: " + type(node).__name__ + " " + ast.unparse(node)[:60], node)

    def shape2(self, node):
        """`(a, b), dtype=int`"""
        if not (len(node.args) == 1 and isinstance(node.args[0], ast.Tuple) and len(node.args[0].elts) == 2
                and len(node.keywords) == 1 and node.keywords[0].arg == "dtype" and ast.unparse(node.keywords[0].value) == "int"):
            self.err("expected `((n, 2), dtype=int)`", node)
        return node.args[0].elts

    def call(self, node, env):
        f = node.func
        fn = ast.unparse(f)
        if isinstance(f, ast.Name) and f.id in PRIMS:
            a = node.args
            if f.id == "__nil__":
                return "VL0", V, False
            if f.id == "__nilnil__":
                return "(VEvs [[]])", V, False
            if f.id == "__setattr__":
                name = a[1].value
                if name == "sigmaGen_":
                    v = a[2]
                    if not (isinstance(v, ast.Tuple) and len(v.elts) == 2 and ast.unparse(v.elts[1]) == SIGMA_ERR):
                        self.err("sigmaGen_ must be assigned `(<value>, " + SIGMA_ERR + ")`", node)
                    vt, _, vmon = self.un("py_sig_tuple", v.elts[0], env)
                else:
                    vt, _, vmon = self.E(a[2], env)
                ot, _, omon = self.E(a[0], env)
                # Python evaluates the right-hand side first, then the target object
                term, mon = self.lift([(vt, vmon), (ot, omon)], lambda x: (f"(py_setattr {x[1]} {ATTR[name]} {x[0]})", True))
                return term, V, mon
            if f.id == "__setitem__":
                return self.nary("py_setitem", a, env, order=[2, 0, 1])
            if f.id == "__setitem2__":
                return self.nary("py_setitem2", a, env, order=[3, 0, 1, 2])
            if f.id == "__iadd_colslice__":
                return self.nary("py_iadd_colslice", a, env)
            if f.id == "__append__":
                return self.nary("py_append", a, env)
            if f.id == "__uam__":
                return self.nary("gen_update_after_merge", a, env)
            if f.id == "__recount__":
                return self.nary("gen_update_after_filter", a, env)
            if f.id == "__shallow_copy__":
                return self.nary("py_shallow_copy", a, env)
        if fn == "len" and len(node.args) == 1 and not node.keywords:
            return self.un("py_len", node.args[0], env)
        if fn in ("np.ndarray", "np.empty"):
            return self.nary("py_ndarray2", self.shape2(node), env)
        if fn == "np.concatenate" and not node.keywords and len(node.args) == 1 and isinstance(node.args[0], ast.Tuple) \
                and len(node.args[0].elts) == 2:
            return self.nary("py_concat2", node.args[0].elts, env)
        if isinstance(f, ast.Attribute) and not node.keywords:
            if f.attr == "astype" and len(node.args) == 1 and ast.unparse(node.args[0]) == "int":
                return self.un("py_astype_int", f.value, env)
            if f.attr == "reshape" and [ast.unparse(x) for x in node.args] == ["-1", "2"]:
                return self.un("py_reshape_m1_2", f.value, env)
            if f.attr == "_particle_as_list" and isinstance(f.value, ast.Name) and f.value.id == "self" and len(node.args) == 1:
                return self.un("py_particle_as_list", node.args[0], env)
        if isinstance(f, ast.Name) and f.id in self.filters:
            if node.keywords or not node.args or [ast.unparse(x) for x in node.args[1:]] != self.params:
                self.err(f"{f.id}: expected (<event list>, the method's own parameters in order)", node)
            self.used_filter = f.id
            return self.un("py_apply_filter g", node.args[0], env)
        self.err("call not accepted: " + ast.unparse(node)[:70], node)

    def iter_of(self, node, env):
        if isinstance(node, ast.Call) and isinstance(node.func, ast.Name) and node.func.id == "range":
            if node.keywords or len(node.args) not in (1, 2):
                self.err("range with step/keywords not accepted", node)
            args = [ast.Constant(value=0)] + node.args if len(node.args) == 1 else node.args
            t, _, mon = self.nary("py_range", args, env)
            return t, mon, V
        if isinstance(node, ast.Call) and isinstance(node.func, ast.Name) and node.func.id == "enumerate":
            if node.keywords or len(node.args) != 1:
                self.err("enumerate(x) only", node)
            t, _, mon = self.un("py_enumerate", node.args[0], env)
            return t, mon, ("pair", V, V)
        t, _, mon = self.un("py_iter", node, env)
        return t, mon, V

    # ---- conditions
    def C(self, node, env):
        if isinstance(node, (ast.BoolOp, ast.Compare)) or (isinstance(node, ast.UnaryOp) and isinstance(node.op, ast.Not)):
            if isinstance(node, ast.Compare) and len(node.ops) == 1 and isinstance(node.ops[0], (ast.Is, ast.IsNot)):
                ts = [node.left, node.comparators[0]]
                if all(isinstance(t, ast.Call) and ast.unparse(t.func) == "type" and len(t.args) == 1 and not t.keywords for t in ts):
                    t, _, mon = self.nary("py_same_type", [ts[0].args[0], ts[1].args[0]], env)
                    return (t, True) if isinstance(node.ops[0], ast.Is) else (f"(notM {t})", True)
            return super().C(node, env)
        if isinstance(node, ast.Call) and ast.unparse(node.func) == "isinstance" and len(node.args) == 2 and not node.keywords:
            t, _, mon = self.E(node.args[0], env)
            c = ast.unparse(node.args[1])
            if c == "BaseStorer":
                return self.lift([(t, mon)], lambda a: (f"(py_is_storer {a[0]})", True))
            if c in CLASS_CTOR:
                return self.lift([(t, mon)], lambda a: (f"(py_isinstance_cls {a[0]} {CLASS_CTOR[c]})", True))
            self.err("isinstance against this class not accepted", node)
        self.err("condition not accepted: " + ast.unparse(node)[:70], node)

    # ---- statements
    def S(self, stmts, env, k, live, in_loop=False):
        if stmts:
            st = stmts[0]
            if isinstance(st, ast.Raise):
                if not (isinstance(st.exc, ast.Call) and isinstance(st.exc.func, ast.Name) and st.exc.func.id in ERR):
                    self.err("raise of this exception class not accepted", st)
            elif isinstance(st, ast.Expr):
                c = st.value
                if isinstance(c, ast.Call) and ast.unparse(c.func) == "warnings.warn":
                    if len(c.args) != 1 or c.keywords or not self.is_msg(c.args[0]):
                        self.err("warnings.warn(<text>) only", st)
                    return self.S(stmts[1:], env, k, live, in_loop)      # a warning changes no state
                self.err("expression statement not accepted", st)
            elif isinstance(st, ast.Return):
                if self.kind == "mutator" or st.value is None:
                    self.err("return form not accepted here", st)
            elif isinstance(st, ast.Assign):
                if not (len(st.targets) == 1 and isinstance(st.targets[0], ast.Name)):
                    self.err("internal: assignment not desugared", st)
            elif not isinstance(st, (ast.If, ast.For, ast.Pass)):
                self.err("statement not accepted: " + type(st).__name__, st)
        return super().S(stmts, env, k, live, in_loop)

    # copy of pyfrag.Translator.tr_for with a sharper liveness for the loop body (nested loops)
    def tr_for(self, st, rest, env, k, live, live_after, in_loop):
        if st.orelse:
            self.err("for-else not accepted", st)
        for n in ast.walk(st):
            if isinstance(n, (ast.Break, ast.Continue)):
                self.err("break/continue not accepted", n)
        items, imon, elty = self.iter_of(st.iter, env)
        targets = pyfrag._target_names(st.target)
        if targets & live_after:
            self.err("loop variable is read after the loop", st)
        used_first, _ = pyfrag.ube(st.body, targets)
        state = sorted((pyfrag.assigned(st.body) - targets) & (live_after | used_first))
        for s in state:
            if s in env and env[s].ty not in (V,):
                self.err(f"loop state {s} of type {env[s].ty}", st)
        # live at the end of one pass through the body: what is read after the loop, and what the next pass reads
        # before assigning it (pyfrag uses every name the body reads, which rejects nested loops)
        body_live = live_after | pyfrag.ube(st.body, targets)[0] | pyfrag.loads(st.iter)

        # the state enters the body as it is before the loop (a name unbound there: option, None)
        # iterate to a fixed point of (type, opt) for the state components
        shape = {}
        for s in state:
            if s in env:
                shape[s] = (env[s].ty, env[s].opt)
            else:
                shape[s] = (None, True)
        for _ in range(4):
            ends = []
            envb = dict(env)
            for s in state:
                ty, opt = shape[s]
                if ty is None:
                    envb.pop(s, None)
                else:
                    envb[s] = Var(cname(s), ty, opt)
            binder, envb = self.bind_target(st.target, elty, envb)
            self.S(st.body, envb, lambda e: (ends.append(e), "Ok tt")[1], body_live, True)
            new = dict(shape)
            for s in state:
                tys = {e[s].ty for e in ends if s in e}
                if shape[s][0] is not None:
                    tys.add(shape[s][0])
                if len(tys) > 1:
                    self.err(f"loop state {s} changes type", st)
                ty = tys.pop() if tys else None
                opt = shape[s][1] or any(s not in e or e[s].opt for e in ends)
                new[s] = (ty, opt)
            if new == shape:
                break
            shape = new
        else:
            self.err("loop state shape does not stabilise", st)
        state = [s for s in state if shape[s][0] is not None]
        names = [cname(s) for s in state]

        def comp(e, s):
            ty, opt = shape[s]
            if not opt:
                return e[s].name
            if s not in e:
                return "None"
            if e[s].opt:
                return e[s].name
            return f"(Some {e[s].name})"
        envb = dict(env)
        for s in state:
            envb[s] = Var(cname(s), shape[s][0], shape[s][1])
        binder, envb = self.bind_target(st.target, elty, envb)
        body = self.S(st.body, envb, lambda e: "Ok " + self.tuple_of([comp(e, s) for s in state]), body_live, True)
        init = self.tuple_of([comp(env, s) for s in state])
        env2 = dict(env)
        for s in state:
            env2[s] = Var(cname(s), shape[s][0], shape[s][1])
        pat = self.pat_of(names)
        loop, _ = self.lift([(items, imon)],
                            lambda a: (f"(fold_leftM (fun {pat} {binder} => {body}) {a[0]} {init})", True))
        return f"(bind {loop} (fun {pat} => {self.S(rest, env2, k, live, in_loop)}))"


    def method(self, fdef, coqname, kind, extra_params=""):
        """kind 'mutator': returns None, the result is the final `self`; 'pure': the result is the returned value"""
        a = fdef.args
        if a.vararg or a.kwarg or a.kwonlyargs or a.posonlyargs or a.defaults or fdef.decorator_list:
            self.err(f"{fdef.name}: signature not accepted", fdef)
        names = [p.arg for p in a.args]
        if not names or names[0] != "self":
            self.err(f"{fdef.name}: first parameter must be self", fdef)
        self.fname, self.ret, self.kind = fdef.name, V, kind
        body = Desugar(self.path).block([Lists().visit(s) for s in strip_doc(fdef.body)])
        env = {n: Var(cname(n), V) for n in names if n not in self.params}

        def kend(e):
            if kind == "mutator":
                if e["self"].opt:
                    self.err("self may be unbound", fdef)
                return "Ok " + e["self"].name
            self.err(f"{fdef.name} may end without returning a value", fdef)
        term = self.S(body, env, kend, {"self"} if kind == "mutator" else set())
        ps = " ".join(f"({cname(n)} : pv)" for n in names if n not in self.params)
        return f"Definition {coqname} {extra_params}{ps} : result pv :=\n  {term}.\n"


# --------------------------------------------------------------------------------------- the pieces
def filter_functions():
    tree, _ = parse(FILTER)
    return [n.name for n in tree.body if isinstance(n, ast.FunctionDef) and not n.name.startswith("_")]


def methods(cls):
    """the methods of a class body; fail-closed on anything else in the body that could (re)bind a name read here"""
    watched = set(NOT_OVERRIDDEN) | {MERGE, RECOUNT, "__init__", "load"}
    out = {}
    for n in cls.body:
        if isinstance(n, ast.FunctionDef):
            if n.name in out and n.name in watched:
                raise TranslateError(f"{cls.name}.{n.name} is defined twice", n)
            out[n.name] = n
        elif isinstance(n, (ast.Assign, ast.AnnAssign, ast.AugAssign, ast.Delete, ast.If, ast.For, ast.While, ast.Try,
                            ast.With, ast.ClassDef, ast.AsyncFunctionDef, ast.Import, ast.ImportFrom)):
            bound = {x.id for x in ast.walk(n) if isinstance(x, ast.Name) and isinstance(x.ctx, (ast.Store, ast.Del))}
            bound |= {x.name for x in ast.walk(n) if isinstance(x, (ast.FunctionDef, ast.AsyncFunctionDef, ast.ClassDef))}
            bound |= {(a.asname or a.name) for x in ast.walk(n) if isinstance(x, (ast.Import, ast.ImportFrom)) for a in x.names}
            if bound & watched or "*" in bound:
                raise TranslateError(f"{cls.name}: class body rebinds {sorted(bound & watched)} outside a plain def", n)
    return out


def is_refusal(f):
    body = strip_doc(f.body)
    return (len(body) == 1 and isinstance(body[0], ast.Raise) and isinstance(body[0].exc, ast.Call)
            and ast.unparse(body[0].exc.func) == "NotImplementedError")


def wrappers(cls, path, fnames):
    """every method of the class that calls a function of Filter.py, translated; they must be one and the same term"""
    out = []
    for name, f in methods(cls).items():
        if is_refusal(f):
            continue
        calls = [n for st in f.body for n in ast.walk(st)
                 if isinstance(n, ast.Call) and isinstance(n.func, ast.Name) and n.func.id in fnames]
        if not calls:
            continue
        params = [p.arg for p in f.args.args[1:]]
        tr = Tr(path, fnames, params)
        text = tr.method(f, "gen_filter_method", "pure", "(g : list event -> list event) ")
        out.append((name, getattr(tr, "used_filter", None), text))
    return out


def fresh_table(fdef, path):
    """__add__: for every `combined.<attr> = e` whether e builds a new object (a + b, a call, a constant) or hands on
    an object that an operand holds (a name / attribute / conditional expression with such a branch)"""
    ret = [st for st in fdef.body if isinstance(st, ast.Return)]
    if len(ret) != 1 or not isinstance(ret[0].value, ast.Name):
        raise TranslateError("__add__: expected a single `return <name>`", fdef, path)
    obj = ret[0].value.id
    defs = {}

    def fresh(e):
        if isinstance(e, (ast.BinOp, ast.Call, ast.Constant)):
            return True
        if isinstance(e, ast.Name):
            if e.id not in defs:
                return False
            return defs[e.id]
        if isinstance(e, ast.IfExp):
            return fresh(e.body) and fresh(e.orelse)
        return False
    rows = []
    for st in fdef.body:
        tg = val = None
        if isinstance(st, ast.Assign) and len(st.targets) == 1:
            tg, val = st.targets[0], st.value
        elif isinstance(st, ast.AnnAssign) and st.value is not None:
            tg, val = st.target, st.value
        if tg is None:
            continue
        if isinstance(tg, ast.Name):
            defs[tg.id] = fresh(val) and tg.id not in defs
        elif isinstance(tg, ast.Attribute) and isinstance(tg.value, ast.Name) and tg.value.id == obj:
            rows.append((tg.attr, fresh(val)))
    return rows


def s(x):
    return '"' + x + '"'


def generate():
    tree, path = parse(BASE)
    base = find_class(tree, "BaseStorer")
    bm = methods(base)
    fnames = filter_functions()
    out = [HEADER, "From Coq Require Import List ZArith Bool QArith String.\n"
           "From SX Require Import Lib.Py Model.Storer Model.StorerRt.\nImport ListNotations.\nLocal Open Scope Z_scope.\n\n"]

    def need(name):
        if name not in bm:
            raise TranslateError(f"BaseStorer.{name} not found", base, path)
        return bm[name]

    out.append("(* BaseStorer." + RECOUNT + " *)\n" + Tr(path).method(need(RECOUNT), "gen_update_after_filter", "mutator") + "\n")
    out.append("(* BaseStorer.particle_list *)\n" + Tr(path).method(need("particle_list"), "gen_particle_list", "pure") + "\n")
    for py, coq in (("num_events", "gen_num_events"), ("num_output_per_event", "gen_num_output_per_event"),
                    ("particle_objects_list", "gen_particle_objects_list")):
        out.append(f"(* BaseStorer.{py} *)\n" + Tr(path).method(need(py), coq, "pure") + "\n")

    # the merge hooks; Python dispatches on the class of the (copied) left operand
    subs = []
    for short, rel, clsname, ctor in SUBS:
        stree, spath = parse(rel)
        cls = find_class(stree, clsname)
        if [ast.unparse(b) for b in cls.bases] != ["BaseStorer"]:
            raise TranslateError(f"{clsname} is not a direct subclass of BaseStorer", cls, spath)
        sm = methods(cls)
        for n in NOT_OVERRIDDEN:
            if n in sm:
                raise TranslateError(f"{clsname} overrides {n}: the model takes it from BaseStorer", sm[n], spath)
        if MERGE not in sm:
            raise TranslateError(f"{clsname}.{MERGE} not found", cls, spath)
        if [p.arg for p in sm[MERGE].args.args] != ["self", "other"]:
            raise TranslateError(f"{clsname}.{MERGE}: parameters must be (self, other)", sm[MERGE], spath)
        out.append(f"(* {clsname}.{MERGE} *)\n" + Tr(spath).method(sm[MERGE], "gen_uam_" + short, "mutator") + "\n")
        subs.append((short, cls, spath, ctor, sm))
    if not is_abstract_stub(need(MERGE)):
        raise TranslateError("BaseStorer._update_after_merge is no longer an abstract stub", bm[MERGE], path)
    out.append("Definition gen_update_after_merge (self other : pv) : result pv :=\n  c <- py_class_of self ;;\n  match c with\n"
               + "".join(f"  | {ctor} => gen_uam_{short} self other\n" for short, _, _, ctor, _ in subs) + "  end.\n\n")

    add = need("__add__")
    if [p.arg for p in add.args.args] != ["self", "other"]:
        raise TranslateError("__add__: parameters must be (self, other)", add, path)
    out.append("(* BaseStorer.__add__ *)\n" + Tr(path).method(add, "gen_add", "pure") + "\n")
    rows = sorted(fresh_table(add, path))      # the order of these assignments does not matter
    out.append("(* __add__: attributes assigned on the sum (sorted by name), and whether the value is an object built by\n"
               "   __add__ itself *)\n"
               "Definition gen_add_assigned : list (string * bool) :=\n  ["
               + "; ".join(f"({s(a)}%string, {'true' if b else 'false'})" for a, b in rows) + "].\n\n")

    # the filter wrappers: one term
    ws = [(f"BaseStorer.{n}", fl, t) for n, fl, t in wrappers(base, path, fnames)]
    for short, cls, spath, ctor, sm in subs:
        ws += [(f"{cls.name}.{n}", fl, t) for n, fl, t in wrappers(cls, spath, fnames)]
    if not ws:
        raise TranslateError("no filter wrapper found", base, path)
    import re
    norm = lambda t: re.sub(r"\b[vc]\d+_\b", "v_", t)
    texts = {norm(t) for _, _, t in ws}
    if len(texts) != 1:
        first = ws[0]
        other = [w for w in ws if norm(w[2]) != norm(first[2])][0]
        raise TranslateError(f"filter wrappers differ in form: {first[0]} and {other[0]}", None, path)
    out.append(f"(* the {len(ws)} filter wrappers (BaseStorer and subclasses) all translate to this term; g = the Filter.py function\n"
               "   with the method's arguments *)\n" + ws[0][2] + "\n")
    out.append("Definition gen_wrapped : list (string * string) :=\n  ["
               + ";\n   ".join(f"({s(n)}%string, {s(fl)}%string)" for n, fl, _ in ws) + "].\n\n")

    # ParticleObjectStorer.__init__
    out.append(pobj_init(subs[2][4], subs[2][2]))
    out.append(handover(bm, path))
    return "".join(out)


LOADERS = [("Oscar", "src/sparkx/loader/OscarLoader.py", "OscarLoader"), ("Jetscape", "src/sparkx/loader/JetscapeLoader.py", "JetscapeLoader"),
           ("PObj", "src/sparkx/loader/ParticleObjectLoader.py", "ParticleObjectLoader")]


def handover(bm, path):
    """BaseStorer.__init__: the one statement that takes the loader's tuple, and the tuple each loader's load() returns.
    Accepted: `(self.a, self.b, ...) = self.loader_.load(**kwargs)` inside `if self.loader_ is not None:` and, in every
    loader, load() ending in `return (e1, e2, e3, e4)`.  Emitted as tables of source texts."""
    if "__init__" not in bm:
        raise TranslateError("BaseStorer.__init__ not found", None, path)
    f = bm["__init__"]
    hits = [n for n in ast.walk(f) if isinstance(n, ast.Assign) and isinstance(n.value, ast.Call)
            and ast.unparse(n.value) == "self.loader_.load(**kwargs)"]
    ifs = [n for n in strip_doc(f.body) if isinstance(n, ast.If) and ast.unparse(n.test) == "self.loader_ is not None"
           and hits and hits[0] in n.body]
    if len(hits) != 1 or len(ifs) != 1 or len(hits[0].targets) != 1 or not isinstance(hits[0].targets[0], ast.Tuple):
        raise TranslateError("BaseStorer.__init__: expected one `(...) = self.loader_.load(**kwargs)` under "
                             "`if self.loader_ is not None:`", f, path)
    later = strip_doc(f.body)[strip_doc(f.body).index(ifs[0]) + 1:]
    if later:
        raise TranslateError("BaseStorer.__init__: statements after the hand-over", later[0], path)
    tg = []
    for e in hits[0].targets[0].elts:
        if not (isinstance(e, ast.Attribute) and isinstance(e.value, ast.Name) and e.value.id == "self"):
            raise TranslateError("BaseStorer.__init__: hand-over target is not an attribute of self", e, path)
        tg.append(e.attr)
    rows = []
    for short, rel, clsname in LOADERS:
        ltree, lpath = parse(rel)
        lm = methods(find_class(ltree, clsname))
        if "load" not in lm:
            raise TranslateError(f"{clsname}.load not found", None, lpath)
        body = strip_doc(lm["load"].body)
        rets = [n for n in ast.walk(lm["load"]) if isinstance(n, ast.Return)]
        if len(rets) != 1 or rets[0] is not body[-1] or not isinstance(rets[0].value, ast.Tuple):
            raise TranslateError(f"{clsname}.load: expected a single final `return (..., ..., ..., ...)`", lm["load"], lpath)
        rows.append((short, [ast.unparse(e) for e in rets[0].value.elts]))
    return ("\n(* BaseStorer.__init__: (targets) = self.loader_.load(keyword arguments); and what each loader's load() returns *)\n"
            "Definition gen_handover_targets : list string :=\n  [" + "; ".join(s(t) + "%string" for t in tg) + "].\n"
            "Definition gen_loader_returns : list (string * list string) :=\n  ["
            + ";\n   ".join(f"({s(n)}%string, [" + "; ".join(s(x.replace('"', "'")) + "%string" for x in r) + "])" for n, r in rows) + "].\n")


def is_abstract_stub(f):
    body = strip_doc(f.body)
    return len(body) == 1 and isinstance(body[0], ast.Raise) and "abstractmethod" in [ast.unparse(d) for d in f.decorator_list]


def pobj_init(sm, path):
    """ParticleObjectStorer.__init__: after BaseStorer.__init__ the events held are recounted, labelled from the first
    selected event.  Accepted form (anything else aborts):
        super().__init__(particle_object_list, **kwargs)
        first_event = kwargs.get("events", 0)
        if isinstance(first_event, tuple): first_event = first_event[0]
        self.num_events_ = len(self.particle_list_)
        self.num_output_per_event_ = np.array([[first_event + i, len(event)] for i, event in enumerate(self.particle_list_)],
                                              dtype=int).reshape(-1, 2)
        del self.loader_
    The first three statements are pinned by their text (they compute `first`, a parameter of the generated function);
    the two assignments are translated."""
    if "__init__" not in sm:
        raise TranslateError("ParticleObjectStorer.__init__ not found", None, path)
    f = sm["__init__"]
    body = strip_doc(f.body)
    want = ["super().__init__(particle_object_list, **kwargs)", "first_event = kwargs.get('events', 0)",
            "if isinstance(first_event, tuple):\n    first_event = first_event[0]"]
    if len(body) != 6 or [ast.unparse(b) for b in body[:3]] != want or ast.unparse(body[5]) != "del self.loader_":
        raise TranslateError("ParticleObjectStorer.__init__: unexpected statements around the recount", f, path)
    tr = Tr(path)
    tr.fname, tr.ret, tr.kind = "__init__", V, "mutator"
    st_n, st_c = body[3], body[4]
    # the comprehension [[first_event + i, len(event)] for i, event in enumerate(self.particle_list_)] as a loop
    v = st_c.value if isinstance(st_c, ast.Assign) else None
    ok = (v is not None and ast.unparse(st_c.targets[0]) == "self.num_output_per_event_"
          and isinstance(v, ast.Call) and isinstance(v.func, ast.Attribute) and v.func.attr == "reshape"
          and [ast.unparse(x) for x in v.args] == ["-1", "2"] and isinstance(v.func.value, ast.Call)
          and ast.unparse(v.func.value.func) == "np.array" and len(v.func.value.args) == 1
          and [k.arg + "=" + ast.unparse(k.value) for k in v.func.value.keywords] == ["dtype=int"]
          and isinstance(v.func.value.args[0], ast.ListComp))
    if not ok:
        raise TranslateError("ParticleObjectStorer.__init__: count array is not built as "
                             "np.array([[..] for ..], dtype=int).reshape(-1, 2)", st_c, path)
    comp = v.func.value.args[0]
    if not (len(comp.generators) == 1 and not comp.generators[0].ifs and isinstance(comp.elt, ast.List) and len(comp.elt.elts) == 2):
        raise TranslateError("ParticleObjectStorer.__init__: comprehension shape not accepted", comp, path)
    g = comp.generators[0]
    src = (f"rows = np.ndarray((len({ast.unparse(g.iter.args[0]) if isinstance(g.iter, ast.Call) and g.iter.args else 'None'}), 2), dtype=int)\n"
           f"for {ast.unparse(g.target)} in {ast.unparse(g.iter)}:\n"
           f"    rows[i][0] = {ast.unparse(comp.elt.elts[0])}\n"
           f"    rows[i][1] = {ast.unparse(comp.elt.elts[1])}\n"
           f"self.num_output_per_event_ = rows\n")
    if not (isinstance(g.target, ast.Tuple) and len(g.target.elts) == 2 and isinstance(g.target.elts[0], ast.Name)
            and g.target.elts[0].id == "i" and isinstance(g.iter, ast.Call) and ast.unparse(g.iter.func) == "enumerate"):
        raise TranslateError("ParticleObjectStorer.__init__: expected `for i, <event> in enumerate(...)`", comp, path)
    stmts = [st_n] + ast.parse(src).body
    for n in stmts[1:]:
        for x in ast.walk(n):
            ast.copy_location(x, st_c)
    body2 = Desugar(path).block([Lists().visit(x) for x in stmts])
    env = {"self": Var("self", V), "first_event": Var("first_event", V)}
    term = tr.S(body2, env, lambda e: "Ok " + e["self"].name, {"self"})
    return ("(* ParticleObjectStorer.__init__ after BaseStorer.__init__: num_events_ and the count array are rebuilt from the\n"
            "   events held; the list comprehension [[first_event + i, len(event)] for i, event in enumerate(..)] is read as\n"
            "   the loop that fills the rows in order *)\n"
            f"Definition gen_pobj_init_recount (first_event : pv) (self : pv) : result pv :=\n  {term}.\n")


def main(outdir):
    return write_if_changed(outdir + "/GenStorer.v", generate())

"""Gen/GenJetscapeLoader.v from src/sparkx/loader/JetscapeLoader.py (class JetscapeLoader) and the helpers it inherits
from src/sparkx/loader/BaseLoader.py: the method bodies as Gallina over Model/JetscapeLoaderRt.v.

Translated AS WRITTEN (statements in order, conditions with their operators and constants, argument order, loops,
exceptions), one definition `gen_<name without leading underscores>` per method:
  __init__, load, _get_num_skip_lines, event_end_lines, __get_num_read_lines, set_particle_list,
  set_num_output_per_event, get_last_line, get_sigmaGen, get_particle_type_defining_string, get_particle_type,
  BaseLoader._check_that_tuple_contains_integers_only, BaseLoader._skip_lines
Proofs/JetscapeLoader_Source.v proves them equal to the hand model Model/Jetscape.v.

Conventions of the translation (the proofs rely on them):
  * every method is `result X` (Model/Oscar.v: Ok / Err class); X is the returned value, preceded by `self` if the
    method (or a method it calls) assigns an attribute, and by the file handles it was given (they are consumed);
    `raise Cls(msg)` is `Err Cls` (message dropped; FileNotFoundError / OSError / NotImplementedError are OtherError);
  * a Python local `x` is the Coq variable `v_x`, rebinding is shadowing; `self.a_ = e` is the record update
    `set_a_ self e`; sub-expressions that can raise or that change a variable are bound first, in Python's evaluation
    order (`bind M (fun t => ..)`, `let '(t, v_f) := rt_readline v_f in ..`); `a and b` / `a or b` whose right operand
    can raise evaluate it only when Python does; a read of a variable followed IN THE SAME EXPRESSION by a call
    that changes it is refused;
  * `if` without return/continue/break inside: the branches return the tuple of the variables they assign that are
    defined before the `if` or assigned in both branches (an int joined with a **kwargs value becomes `VInt`);
    otherwise the statements after the `if` are copied into both branches;
  * `for x in L` is `loopC body L carried`, `while c` is `whileC fuel body carried` (Section variable `fuel`);
    the carried variables are those the loop assigns (append / readline / seek / read / attribute stores count)
    that exist before it, `self` first, then in order of definition; the body is a separate definition
    `gen_<method>_loop<k>` whose leading arguments are the variables it reads; continue / break / end of body are
    `Ok (Next ..)` / `Ok (Break ..)`; a return inside a loop is refused;
  * `try: x = e; rest except Cls: continue|pass` is accepted only when `e` changes no variable and nothing after the
    first statement can raise;
  * lists are VALUES (`x.append(e)` is `x ++ [e]`).  Python lists are objects: when a list variable y is appended to
    another list and ALSO changed in place (`y.append(..)`), a later in-place change would be seen through the other
    list.  For every such y the translation carries a flag `v_al_y` (false after `y = [..]`, true after
    `x.append(y)`, unchanged by `y = <expression over y>`), and every `y.append(..)` first tests it:
    `if v_al_y then Err OtherError` - the runtime abstains instead of computing a wrong value.  A second name for a
    list (`a = b`, `a = b = [..]`) and a tracked list assigned from another list are refused;
  * a `for` target must be a new name; variables first bound inside a loop or inside one branch of an `if` are not
    visible afterwards (a later use is refused);
  * types: attributes by name (table ATTRS), parameters by the table SIGS, locals by inference; a value taken out of
    **kwargs is a `pyval` and is tested / converted by the functions of the runtime (isinstance_*, as_int, dyn_*);
  * oracles (Section variables): `fs` path -> lines of the file, `str_int` int(str), `np_int32` the conversion of
    np.array(.., dtype=np.int32), `str_float` float(str), `mkp` Particle(format, tokens),
    `o_apply_kwargs_filters` the method __apply_kwargs_filters (translated elsewhere: gen_dispatch), `fuel` the
    bound of the `while` loops (whileC gives OtherError when it is exhausted);
  * `np`, `Particle` and the builtins are taken by name: the module must contain `from sparkx.Filter import *` and
    must not rebind them; JetscapeLoader must derive from BaseLoader only (methods are looked up in the subclass
    first), BaseLoader from ABC only.
Pinned textually: nothing.
Fail-closed: every statement / expression shape that is not listed in `Tr.stmt` / `Tr.expr` raises TranslateError.
"""
import ast
import re
from .core import *

SRC = "src/sparkx/loader/JetscapeLoader.py"
BASE_SRC = "src/sparkx/loader/BaseLoader.py"
OUTPUTS = ["GenJetscapeLoader"]
CLASS, BASE = "JetscapeLoader", "BaseLoader"

LLP = ("list", ("list", "particle"))
ATTRS = {"PATH_JETSCAPE_": "str", "particle_type_": "str", "particle_type_defining_string_": "str",
         "optional_arguments_": "kwargs", "event_end_lines_": ("list", "str"), "num_output_per_event_": "arr",
         "num_events_": "Z"}
EXN = {"TypeError": "TypeError", "ValueError": "ValueError", "IndexError": "IndexError", "KeyError": "KeyError",
       "FileNotFoundError": "OtherError", "OSError": "OtherError", "NotImplementedError": "OtherError"}
# (types of the parameters after self, type of the returned value, takes **kwargs)
SIGS = {
    "__init__": (["str"], "unit", False),
    "load": (["kwargs"], ("tup", (LLP, "Z", "arr", ("list", "str"))), True),
    "_get_num_skip_lines": ([], "Z", False),
    "event_end_lines": ([], ("list", "str"), False),
    "__get_num_read_lines": ([], "Z", False),
    "set_particle_list": (["kwargs"], LLP, False),
    "set_num_output_per_event": ([], "unit", False),
    "get_last_line": (["str"], "str", False),
    "get_sigmaGen": ([], ("tup", ("Q", "Q")), False),
    "get_particle_type_defining_string": ([], "str", False),
    "get_particle_type": ([], "str", False),
    "_check_that_tuple_contains_integers_only": (["dyn"], "unit", False),
    "_skip_lines": (["ftext"], "unit", False),
}
ABSTRACT = {"__apply_kwargs_filters": ([LLP, "dyn"], LLP, "o_apply_kwargs_filters")}
FILE_TYPES = ("ftext", "fbin")
MUTATORS = {"append", "readline", "read", "seek"}
BASE_TY = {"Z": "Z", "bool": "bool", "str": "string", "dyn": "pyval", "arr": "arr", "npv": "npv", "row": "(Z * Z)",
           "particle": "particle", "kwargs": "kwargs", "ftext": "ftext", "fbin": "fbin", "Q": "Q", "unit": "unit",
           "jself": "jself"}

PRELUDE = """From Coq Require Import List String Ascii ZArith QArith Bool.
From SX Require Import Lib.Strs Lib.Split Model.Oscar Model.JetscapeLoaderRt.
Import ListNotations.
Local Open Scope string_scope.

Section GenJetscapeLoader.
  Variable fs : string -> list string.
  Variable str_int : string -> option Z.
  Variable np_int32 : string -> option Z.
  Variable str_float : string -> option Q.
  Variable mkp : string -> list string -> result particle.
  Variable o_apply_kwargs_filters : list (list particle) -> pyval -> result (list (list particle)).
  Variable fuel : nat.

"""


def cty(t):
    if t is None:
        return None
    if isinstance(t, str):
        return BASE_TY[t]
    if t[0] == "list":
        inner = cty(t[1])
        return None if inner is None else f"(list {inner})"
    if t[0] == "tup":
        parts = [cty(x) for x in t[1]]
        return None if any(p is None for p in parts) else "(" + " * ".join(parts) + ")"
    raise TranslateError("type without a Coq counterpart: " + repr(t))


def zlit(n):
    return f"{n}%Z" if n >= 0 else f"({n})%Z"


def slit(s):
    if any(ord(c) > 126 or ord(c) < 32 for c in s) or '"' in s:
        raise TranslateError("string literal not accepted: " + repr(s))
    return '"' + s + '"'


def strlit(s):
    """a str / bytes constant, control characters spelled with String"""
    if all(32 <= ord(c) <= 126 and c != '"' for c in s):
        return slit(s)
    out = "EmptyString"
    for c in reversed(s):
        if ord(c) > 127:
            raise TranslateError("non-ASCII string literal: " + repr(s))
        out = f'(String "{ord(c):03d}"%char {out})'
    return out


def charlit(s, node, path):
    if len(s) != 1 or ord(s) > 127:
        raise TranslateError("one ASCII character expected, got " + repr(s), node, path)
    return f'"{ord(s):03d}"%char'


def vn(py):
    return "self" if py == "self" else "v_" + py


def tup(names):
    return "tt" if not names else names[0] if len(names) == 1 else "(" + ", ".join(names) + ")"


def pat(names):
    return "_" if not names else names[0] if len(names) == 1 else "'(" + ", ".join(names) + ")"


def coq_name(py):
    return "gen_" + py.strip("_")


def unify(a, b, what, node=None, path=None):
    if a == b:
        return a
    if {a, b} == {"Z", "dyn"}:
        return "dyn"
    if isinstance(a, tuple) and isinstance(b, tuple) and a[0] == b[0] == "list":
        if a[1] is None:
            return b
        if b[1] is None:
            return a
        return ("list", unify(a[1], b[1], what, node, path))
    raise TranslateError(f"{what}: types {a!r} and {b!r} do not join", node, path)


def compatible(have, want):
    if have == want:
        return True
    if isinstance(have, tuple) and isinstance(want, tuple) and have[0] == want[0]:
        if have[0] == "list":
            return have[1] is None or want[1] is None or compatible(have[1], want[1])
        if have[0] == "tup":
            return len(have[1]) == len(want[1]) and all(compatible(a, b) for a, b in zip(have[1], want[1]))
    return False


def coerce(term, have, want, what, node=None, path=None):
    if compatible(have, want):
        return term
    if have == "Z" and want == "dyn":
        return f"(VInt {term})"
    raise TranslateError(f"{what}: a value of type {have!r} where {want!r} is needed", node, path)


class Esc:
    """what return / continue / break mean at this point"""
    def __init__(self, ret, nxt=None, brk=None):
        self.ret, self.nxt, self.brk = ret, nxt, brk


class Tr:
    def __init__(self, methods, paths, writes):
        self.methods, self.paths, self.writes = methods, paths, writes
        self.loopdefs = {}       # (method, loop index) -> text
        self.loopids = {}
        self.n = 0

    # ------------------------------------------------------------------ helpers
    def err(self, msg, node):
        raise TranslateError(msg, node, self.path)

    def fresh(self):
        self.n += 1
        return f"t{self.n}"

    def capture(self, fn):
        saved = self.binds
        self.binds = []
        try:
            r = fn()
            return self.binds, r
        finally:
            self.binds = saved

    @staticmethod
    def wrap(binds, body):
        for kind, p, term in reversed(binds):
            if kind == "bind":
                body = f"bind ({term}) (fun {p} =>\n{body})"
            else:
                body = f"let {p} := {term} in\n{body}"
        return body

    def bind(self, term):
        if self.no_raise:
            raise TranslateError("an expression that can raise after the first statement of a try body", self.cur, self.path)
        t = self.fresh()
        self.binds.append(("bind", t, term))
        return t

    def sig(self, name, node):
        if name in ABSTRACT:
            return ABSTRACT[name][:2] + (False,)
        if name not in SIGS or name not in self.methods:
            self.err(f"call of a method that is not translated: {name}", node)
        return SIGS[name]

    def ret_shape(self, name):
        """(writes self, [indices of file parameters])"""
        if name in ABSTRACT:
            return False, []
        ptys = SIGS[name][0]
        return self.writes[name], [i for i, t in enumerate(ptys) if t in FILE_TYPES]

    # ------------------------------------------------------------------ static analysis of statements
    def assigned(self, stmts):
        out = []

        def add(n):
            if n not in out:
                out.append(n)

        def target(t):
            if isinstance(t, ast.Name):
                add(t.id)
                if t.id in self.tracked:
                    add("al_" + t.id)
            elif isinstance(t, (ast.Tuple, ast.List)):
                for e in t.elts:
                    target(e)
            elif isinstance(t, ast.Attribute):
                if isinstance(t.value, ast.Name):
                    add(t.value.id)
                else:
                    target(t.value)
            elif isinstance(t, ast.Subscript):
                target(t.value)
            else:
                self.err("assignment target not accepted", t)

        def calls(node):
            for c in ast.walk(node):
                if isinstance(c, ast.Call) and isinstance(c.func, ast.Attribute) and isinstance(c.func.value, ast.Name):
                    recv, m = c.func.value.id, c.func.attr
                    if recv == "self":
                        if m in ABSTRACT:
                            continue
                        if m in SIGS and m in self.methods:
                            w, files = self.ret_shape(m)
                            if w:
                                add("self")
                            for i in files:
                                if i < len(c.args) and isinstance(c.args[i], ast.Name):
                                    add(c.args[i].id)
                    elif m in MUTATORS:
                        add(recv)
                        if m == "append" and len(c.args) == 1 and isinstance(c.args[0], ast.Name) \
                                and c.args[0].id in self.tracked:
                            add("al_" + c.args[0].id)

        def walk(s):
            if isinstance(s, ast.Assign):
                calls(s.value)
                for t in s.targets:
                    target(t)
            elif isinstance(s, ast.AnnAssign):
                if s.value is not None:
                    calls(s.value)
                target(s.target)
            elif isinstance(s, ast.AugAssign):
                calls(s.value)
                target(s.target)
            elif isinstance(s, ast.If):
                calls(s.test)
                for x in s.body + s.orelse:
                    walk(x)
            elif isinstance(s, ast.For):
                calls(s.iter)
                for x in s.body + s.orelse:
                    walk(x)
            elif isinstance(s, ast.While):
                calls(s.test)
                for x in s.body + s.orelse:
                    walk(x)
            elif isinstance(s, ast.With):
                for it in s.items:
                    calls(it.context_expr)
                    if it.optional_vars is not None:
                        target(it.optional_vars)
                for x in s.body:
                    walk(x)
            elif isinstance(s, ast.Try):
                for x in s.body + s.orelse + s.finalbody:
                    walk(x)
                for h in s.handlers:
                    for x in h.body:
                        walk(x)
            elif isinstance(s, (ast.Expr, ast.Return, ast.Raise)):
                calls(s)
            elif isinstance(s, (ast.Pass, ast.Continue, ast.Break)):
                pass
            else:
                self.err("statement not accepted: " + type(s).__name__, s)

        for s in stmts:
            walk(s)
        return out

    def falls_through(self, stmts):
        for s in stmts:
            if isinstance(s, (ast.Return, ast.Raise, ast.Continue, ast.Break)):
                return False
            if isinstance(s, ast.If) and not self.falls_through(s.body) and not self.falls_through(s.orelse):
                return False
        return True

    def must_assign(self, stmts):
        out = set()
        for s in stmts:
            if isinstance(s, (ast.Assign, ast.AnnAssign, ast.AugAssign)):
                ts = s.targets if isinstance(s, ast.Assign) else [s.target]
                for t in ts:
                    for e in (t.elts if isinstance(t, ast.Tuple) else [t]):
                        if isinstance(e, ast.Name):
                            out.add(e.id)
            elif isinstance(s, ast.If):
                fb, fo = self.falls_through(s.body), self.falls_through(s.orelse)
                mb, mo = self.must_assign(s.body), self.must_assign(s.orelse)
                out |= (mb & mo) if (fb and fo) else mb if fb else mo if fo else set()
            elif isinstance(s, ast.With):
                out |= self.must_assign(s.body)
        return out

    def escapes(self, stmts, in_loop=False):
        for s in stmts:
            if isinstance(s, ast.Return):
                return True
            if isinstance(s, (ast.Continue, ast.Break)) and not in_loop:
                return True
            if isinstance(s, ast.If) and (self.escapes(s.body, in_loop) or self.escapes(s.orelse, in_loop)):
                return True
            if isinstance(s, (ast.For, ast.While)) and self.escapes(s.body, True):
                return True
            if isinstance(s, ast.With) and self.escapes(s.body, in_loop):
                return True
            if isinstance(s, ast.Try):
                if self.escapes(s.body, in_loop) or any(self.escapes(h.body, in_loop) for h in s.handlers):
                    return True
        return False

    # ------------------------------------------------------------------ expressions
    def msg_expr(self, node):
        if isinstance(node, ast.Constant) and isinstance(node.value, str):
            return True
        if isinstance(node, ast.BinOp) and isinstance(node.op, ast.Add):
            return self.msg_expr(node.left) and self.msg_expr(node.right)
        return False

    def read(self, name):
        self.reads.add(name)
        self.stmt_reads.add(name)

    def changes(self, name, snapshot, node):
        if name in snapshot:
            self.err(f"`{name}` is read and then changed by a call inside one expression", node)

    def as_Z(self, term, ty, node):
        if ty == "Z":
            return term
        if ty == "dyn":
            return self.bind(f"as_int {term}")
        self.err(f"an integer is needed, got {ty!r}", node)

    def truth(self, node, env):
        t, ty = self.expr(node, env)
        if ty == "bool":
            return t
        if ty == "kwargs":
            return f"(dict_truthy {t})"
        if ty == "str":
            return f"(str_truthy {t})"
        if isinstance(ty, tuple) and ty[0] == "list":
            return f"(negb (list_is_empty {t}))"
        self.err(f"truth value of {ty!r} not accepted", node)

    def const_int(self, node):
        if isinstance(node, ast.Constant) and isinstance(node.value, int) and not isinstance(node.value, bool):
            return node.value
        if isinstance(node, ast.UnaryOp) and isinstance(node.op, ast.USub) and isinstance(node.operand, ast.Constant) \
                and isinstance(node.operand.value, int) and not isinstance(node.operand.value, bool):
            return -node.operand.value
        return None

    def const_str(self, node):
        if isinstance(node, ast.Constant) and isinstance(node.value, str):
            return node.value
        return None

    def self_attr(self, node):
        return isinstance(node, ast.Attribute) and isinstance(node.value, ast.Name) and node.value.id == "self"

    def attr_load(self, node):
        a = node.attr
        if a not in ATTRS:
            self.err(f"attribute {a} is not part of the modelled object", node)
        if self.in_init and a not in self.init_assigned:
            self.err(f"attribute {a} read in __init__ before it is assigned", node)
        self.read("self")
        return f"({a} self)", ATTRS[a]

    def call_method(self, node, env):
        """self.m(args) -> value term, type (binds the call)"""
        name = node.func.attr
        ptys, rty, kw = self.sig(name, node)
        if node.keywords or len(node.args) != len(ptys) or any(isinstance(a, ast.Starred) for a in node.args):
            self.err(f"call of {name}: argument list not accepted", node)
        snapshot = set(self.stmt_reads)
        args = []
        for a, pt in zip(node.args, ptys):
            if pt in FILE_TYPES:
                if not (isinstance(a, ast.Name) and env.get(a.id) == pt):
                    self.err(f"call of {name}: a file handle variable is expected", a)
                args.append(vn(a.id))
                self.reads.add(a.id)
            else:
                t, ty = self.expr(a, env)
                args.append(coerce(t, ty, pt, f"argument of {name}", a, self.path))
        if name in ABSTRACT:
            return self.bind(f"{ABSTRACT[name][2]} " + " ".join(args)), rty
        if self.in_init and set(ATTRS) - self.init_assigned and self.reads_self[name]:
            self.err(f"{name} reads attributes and is called in __init__ before all of them are assigned", node)
        w, files = self.ret_shape(name)
        self.reads.add("self")
        if self.no_raise:
            self.err("a method call after the first statement of a try body", node)
        outs = []
        if w:
            self.changes("self", snapshot, node)
            outs.append("self")
        for i in files:
            self.changes(node.args[i].id, snapshot, node)
            outs.append(vn(node.args[i].id))
        r = self.fresh()
        outs.append(r)
        call = " ".join([coq_name(name)] + (["self"] if self.uses_self[name] else []) + args)
        self.binds.append(("bind", pat(outs), call))
        return r, rty

    def expr(self, node, env):
        if isinstance(node, ast.Name):
            if node.id not in env:
                self.err(f"name `{node.id}` is not (definitely) defined here", node)
            if env[node.id] in FILE_TYPES or node.id == "self":
                self.err("a file handle / self used as a value", node)
            self.read(node.id)
            return vn(node.id), env[node.id]
        if isinstance(node, ast.Constant):
            v = node.value
            if isinstance(v, bool):
                return ("true" if v else "false"), "bool"
            if isinstance(v, int):
                return zlit(v), "Z"
            if isinstance(v, str):
                return strlit(v), "str"
            if isinstance(v, bytes):
                return strlit(v.decode("latin-1")), "str"
            self.err("constant not accepted: " + repr(v), node)
        if isinstance(node, ast.UnaryOp) and isinstance(node.op, ast.USub) and self.const_int(node) is not None:
            return zlit(self.const_int(node)), "Z"
        if isinstance(node, ast.UnaryOp) and isinstance(node.op, ast.Not):
            return f"(negb {self.truth(node.operand, env)})", "bool"
        if isinstance(node, ast.Attribute):
            if self.self_attr(node):
                return self.attr_load(node)
            self.err("attribute access not accepted: " + ast.unparse(node), node)
        if isinstance(node, ast.BoolOp):
            return self.boolop(node, env)
        if isinstance(node, ast.Compare):
            return self.compare(node, env)
        if isinstance(node, ast.BinOp):
            return self.binop(node, env)
        if isinstance(node, ast.Subscript):
            return self.subscript(node, env)
        if isinstance(node, ast.Call):
            return self.call(node, env)
        if isinstance(node, ast.Tuple):
            parts = [self.expr(e, env) for e in node.elts]
            return "(" + ", ".join(p[0] for p in parts) + ")", ("tup", tuple(p[1] for p in parts))
        if isinstance(node, ast.List):
            if not node.elts:
                return "[]", ("list", None)
            parts = [self.expr(e, env) for e in node.elts]
            ty = parts[0][1]
            for p in parts[1:]:
                ty = unify(ty, p[1], "list literal", node, self.path)
            return "[" + "; ".join(coerce(p[0], p[1], ty, "list literal", node, self.path) for p in parts) + "]", ("list", ty)
        if isinstance(node, ast.Dict) and not node.keys:
            return "[]", "kwargs"
        self.err("expression not accepted: " + type(node).__name__, node)

    def boolop(self, node, env):
        is_and = isinstance(node.op, ast.And)
        acc = self.truth(node.values[0], env)
        for v in node.values[1:]:
            sub, t = self.capture(lambda: self.truth(v, env))
            if not sub:
                acc = f"({acc} && {t})" if is_and else f"({acc} || {t})"
            else:
                rhs = self.wrap(sub, f"Ok {t}")
                acc = self.bind(f"if {acc} then {rhs} else Ok false" if is_and else f"if {acc} then Ok true else {rhs}")
        return acc, "bool"

    def compare(self, node, env):
        if len(node.ops) != 1:
            self.err("chained comparison not accepted", node)
        op, L, R = node.ops[0], node.left, node.comparators[0]
        if isinstance(op, (ast.In, ast.NotIn)):
            neg = isinstance(op, ast.NotIn)
            lt, lty = self.expr(L, env)
            if lty != "str":
                self.err("`in`: a str is expected on the left", node)
            if isinstance(R, ast.Call) and isinstance(R.func, ast.Attribute) and R.func.attr == "keys" and not R.args \
                    and not R.keywords:
                dt, dty = self.expr(R.func.value, env)
                if dty != "kwargs":
                    self.err(".keys() of something that is not the keyword dictionary", R)
                t = f"(dict_mem {lt} {dt})"
            elif isinstance(R, ast.List) and R.elts and all(self.const_str(e) is not None for e in R.elts):
                t = "(mem_str " + lt + " [" + "; ".join(slit(self.const_str(e)) for e in R.elts) + "])"
            else:
                rt, rty = self.expr(R, env)
                if rty != "str":
                    self.err(f"`in` on {rty!r} not accepted", node)
                t = f"(contains {lt} {rt})"
            return (f"(negb {t})" if neg else t), "bool"
        if isinstance(op, (ast.Eq, ast.NotEq)):
            neg = isinstance(op, ast.NotEq)
            if isinstance(R, ast.List) and not R.elts:
                lt, lty = self.expr(L, env)
                if not (isinstance(lty, tuple) and lty[0] == "list"):
                    self.err("== [] on something that is not a list", node)
                t = f"(list_is_empty {lt})"
            else:
                lt, lty = self.expr(L, env)
                rt, rty = self.expr(R, env)
                if lty == rty == "Z":
                    t = f"({lt} =? {rt})%Z"
                elif lty == rty == "str":
                    t = f"({lt} =? {rt})%string"
                elif "dyn" in (lty, rty) and {lty, rty} <= {"dyn", "Z", "str"}:
                    def dyn(x, ty):
                        return x if ty == "dyn" else f"(VInt {x})" if ty == "Z" else f"(VStr {x})"
                    t = self.bind(f"dyn_eq {dyn(lt, lty)} {dyn(rt, rty)}")
                else:
                    self.err(f"== between {lty!r} and {rty!r} not accepted", node)
            return (f"(negb {t})" if neg else t), "bool"
        names = {ast.Lt: ("Z.ltb", "dyn_lt"), ast.LtE: ("Z.leb", "dyn_le"), ast.Gt: ("Z.gtb", "dyn_gt"),
                 ast.GtE: ("Z.geb", "dyn_ge")}
        if type(op) in names:
            zf, df = names[type(op)]
            lt, lty = self.expr(L, env)
            rt, rty = self.expr(R, env)
            if lty == rty == "Z":
                return f"({zf} {lt} {rt})", "bool"
            if "dyn" in (lty, rty) and {lty, rty} <= {"dyn", "Z"}:
                def dyn(x, ty):
                    return x if ty == "dyn" else f"(VInt {x})"
                return self.bind(f"{df} {dyn(lt, lty)} {dyn(rt, rty)}"), "bool"
            self.err(f"comparison between {lty!r} and {rty!r} not accepted", node)
        self.err("comparison operator not accepted", node)

    def binop(self, node, env):
        if not isinstance(node.op, (ast.Add, ast.Sub)):
            self.err("operator not accepted", node)
        lt, lty = self.expr(node.left, env)
        lz = self.as_Z(lt, lty, node.left)
        rt, rty = self.expr(node.right, env)
        rz = self.as_Z(rt, rty, node.right)
        return f"({lz} {'+' if isinstance(node.op, ast.Add) else '-'} {rz})%Z", "Z"

    def index_Z(self, node, env):
        t, ty = self.expr(node, env)
        return self.as_Z(t, ty, node)

    def subscript(self, node, env):
        base, idx = node.value, node.slice
        # a.shape[0]
        if isinstance(base, ast.Attribute) and base.attr == "shape" and not self.self_attr(base):
            bt, bty = self.expr(base.value, env)
            if bty != "arr" or self.const_int(idx) != 0:
                self.err(".shape[k] accepted only as <count array>.shape[0]", node)
            return f"(arr_shape0 {bt})", "Z"
        bt, bty = self.expr(base, env)
        if bty == "kwargs":
            kt, kty = self.expr(idx, env)
            if kty != "str":
                self.err("key of the keyword dictionary must be a str", node)
            return self.bind(f"dict_get {bt} {kt}"), "dyn"
        if bty == "dyn":
            return self.bind(f"dyn_index {bt} {self.index_Z(idx, env)}"), "dyn"
        if bty == "arr":
            if isinstance(idx, ast.Tuple):
                if len(idx.elts) != 2 or any(isinstance(e, ast.Slice) for e in idx.elts):
                    self.err("array index not accepted", node)
                i = self.index_Z(idx.elts[0], env)
                j = self.index_Z(idx.elts[1], env)
                return self.bind(f"arr_get2 {bt} {i} {j}"), "Z"
            if isinstance(idx, ast.Slice):
                if idx.step is not None:
                    self.err("slice step not accepted", node)
                lo = f"(Some {self.index_Z(idx.lower, env)})" if idx.lower is not None else "None"
                hi = f"(Some {self.index_Z(idx.upper, env)})" if idx.upper is not None else "None"
                return f"(arr_slice {bt} {lo} {hi})", "arr"
            return self.bind(f"arr_row {bt} {self.index_Z(idx, env)}"), "row"
        if bty == "row":
            return self.bind(f"row_get {bt} {self.index_Z(idx, env)}"), "Z"
        if bty == "npv":
            return self.bind(f"npv_index {bt} {self.index_Z(idx, env)}"), "Z"
        if isinstance(bty, tuple) and bty[0] == "list":
            if isinstance(idx, (ast.Slice, ast.Tuple)):
                self.err("list index not accepted", node)
            if bty[1] is None:
                self.err("element type of the list is not known", node)
            return self.bind(f"list_get {bt} {self.index_Z(idx, env)}"), bty[1]
        self.err(f"subscript of {bty!r} not accepted", node)

    def np_call(self, node, env, fn):
        kws = {k.arg: k.value for k in node.keywords}
        if fn == "sum" and len(node.args) == 1 and set(kws) == {"axis"} and self.const_int(kws["axis"]) == 0:
            t, ty = self.expr(node.args[0], env)
            if ty == "arr":
                return f"(np_sum_axis0 {t})", "npv"
        if fn == "array" and len(node.args) == 1 and not kws and isinstance(node.args[0], ast.List) and not node.args[0].elts:
            return "A1", "arr"
        if fn == "array" and len(node.args) == 1 and set(kws) == {"dtype"} and ast.unparse(kws["dtype"]) == "np.int32":
            t, ty = self.expr(node.args[0], env)
            if ty == ("list", ("list", "str")):
                return self.bind(f"np_array_int32 np_int32 {t}"), "arr"
        if fn == "delete" and len(node.args) == 2 and set(kws) == {"axis"} and self.const_int(kws["axis"]) == 0:
            t, ty = self.expr(node.args[0], env)
            i = self.index_Z(node.args[1], env)
            if ty == "arr":
                return self.bind(f"np_delete_row {t} {i}"), "arr"
        if fn == "atleast_2d" and len(node.args) == 1 and not kws:
            t, ty = self.expr(node.args[0], env)
            if ty == "arr":
                return self.bind(f"np_atleast_2d {t}"), "arr"
        if fn == "asarray" and len(node.args) == 1 and not kws:
            t, ty = self.expr(node.args[0], env)
            if ty == ("list", "str"):
                return t, ty
        self.err("numpy call not accepted: " + ast.unparse(node), node)

    def call(self, node, env):
        f = node.func
        if isinstance(f, ast.Name):
            fn = f.id
            if fn in env:
                self.err("call of a local", node)
            if fn == "isinstance" and len(node.args) == 2 and not node.keywords and isinstance(node.args[1], ast.Name) \
                    and node.args[1].id in ("int", "tuple", "str"):
                t, ty = self.expr(node.args[0], env)
                if ty != "dyn":
                    self.err("isinstance is accepted on a value taken out of **kwargs only", node)
                return f"(isinstance_{node.args[1].id} {t})", "bool"
            if fn == "len" and len(node.args) == 1 and not node.keywords:
                t, ty = self.expr(node.args[0], env)
                if ty == "arr":
                    return f"(arr_len {t})", "Z"
                if isinstance(ty, tuple) and ty[0] == "list":
                    return f"(zlen {t})", "Z"
                self.err(f"len of {ty!r} not accepted", node)
            if fn == "int" and len(node.args) == 1 and not node.keywords:
                t, ty = self.expr(node.args[0], env)
                if ty == "Z":
                    return t, "Z"
                if ty == "str":
                    return self.bind(f"str_to_int str_int {t}"), "Z"
                if ty == "dyn":
                    return self.bind(f"dyn_int str_int {t}"), "Z"
                self.err(f"int() of {ty!r} not accepted", node)
            if fn == "float" and len(node.args) == 1 and not node.keywords:
                t, ty = self.expr(node.args[0], env)
                if ty == "str":
                    return self.bind(f"str_to_float str_float {t}"), "Q"
                self.err(f"float() of {ty!r} not accepted", node)
            if fn == "all" and len(node.args) == 1 and not node.keywords and isinstance(node.args[0], ast.GeneratorExp):
                g = node.args[0]
                if len(g.generators) != 1 or g.generators[0].ifs or g.generators[0].is_async \
                        or not isinstance(g.generators[0].target, ast.Name):
                    self.err("generator expression not accepted", node)
                it, ity = self.expr(g.generators[0].iter, env)
                if ity == "dyn":
                    lst, ety = self.bind(f"dyn_iter {it}"), "dyn"
                elif isinstance(ity, tuple) and ity[0] == "list" and ity[1] is not None:
                    lst, ety = it, ity[1]
                else:
                    self.err(f"iteration over {ity!r} not accepted", node)
                x = g.generators[0].target.id
                env2 = dict(env)
                env2[x] = ety
                sub, t = self.capture(lambda: self.truth(g.elt, env2))
                if sub:
                    self.err("the element test of all(...) must not raise", node)
                return f"(forallb (fun {vn(x)} => {t}) {lst})", "bool"
            if fn == "Particle" and len(node.args) == 2 and not node.keywords and self.const_str(node.args[0]) is not None:
                t, ty = self.expr(node.args[1], env)
                if ty != ("list", "str"):
                    self.err("Particle(format, tokens): tokens must be a list of str", node)
                return self.bind(f"mkp {slit(self.const_str(node.args[0]))} {t}"), "particle"
            self.err("call not accepted: " + ast.unparse(node)[:60], node)
        if isinstance(f, ast.Attribute):
            m = f.attr
            if isinstance(f.value, ast.Name) and f.value.id == "np":
                return self.np_call(node, env, m)
            if isinstance(f.value, ast.Name) and f.value.id == "self":
                return self.call_method(node, env)
            # calls on a file handle variable
            if isinstance(f.value, ast.Name) and env.get(f.value.id) in FILE_TYPES:
                x, fty = f.value.id, env[f.value.id]
                snapshot = set(self.stmt_reads)
                self.reads.add(x)
                if node.keywords:
                    self.err("keyword arguments not accepted", node)
                if m == "readline" and not node.args:
                    self.changes(x, snapshot, node)
                    r = self.fresh()
                    self.binds.append(("let", pat([r, vn(x)]), f"{'rt_readline' if fty == 'ftext' else 'fb_readline'} {vn(x)}"))
                    return r, "str"
                if m == "read" and fty == "fbin" and len(node.args) == 1 and (self.const_int(node.args[0]) or -1) >= 0:
                    self.changes(x, snapshot, node)
                    r = self.fresh()
                    self.binds.append(("let", pat([r, vn(x)]), f"fb_read {vn(x)} {zlit(self.const_int(node.args[0]))}"))
                    return r, "str"
                if m == "seek" and fty == "fbin" and len(node.args) == 2 \
                        and all(self.const_int(a) is not None for a in node.args):
                    self.changes(x, snapshot, node)
                    if self.no_raise:
                        self.err("seek after the first statement of a try body", node)
                    self.binds.append(("bind", vn(x), f"fb_seek {vn(x)} {zlit(self.const_int(node.args[0]))} "
                                                       f"{zlit(self.const_int(node.args[1]))}"))
                    return "tt", "unit"
                self.err(f"file operation not accepted: {m}", node)
            # str methods
            if m in ("replace", "split", "strip", "decode"):
                t, ty = self.expr(f.value, env)
                if ty != "str" or node.keywords:
                    self.err(f".{m} on {ty!r} not accepted", node)
                if m == "replace" and len(node.args) == 2 and all(self.const_str(a) is not None for a in node.args):
                    c = charlit(self.const_str(node.args[0]), node, self.path)
                    return f"(str_replace_char {c} {strlit(self.const_str(node.args[1]))} {t})", "str"
                if m == "split" and len(node.args) == 1 and self.const_str(node.args[0]) is not None:
                    return f"(split_on {charlit(self.const_str(node.args[0]), node, self.path)} {t})", ("list", "str")
                if m == "split" and not node.args:
                    return f"(py_split_ws {t})", ("list", "str")
                if m == "strip" and not node.args:
                    return f"(py_strip {t})", "str"
                if m == "decode" and not node.args:
                    return t, "str"
                self.err(f".{m} with these arguments not accepted", node)
            self.err("method call not accepted: " + ast.unparse(node)[:60], node)
        self.err("call not accepted", node)

    # ------------------------------------------------------------------ statements
    def block(self, stmts, env, cont, K):
        if not stmts:
            return cont(env)
        st, rest = stmts[0], stmts[1:]
        if isinstance(st, (ast.Return, ast.Raise, ast.Continue, ast.Break)) and rest:
            self.err("statements after return / raise / continue / break", rest[0])
        return self.stmt(st, env, lambda e: self.block(rest, e, cont, K), K)

    def start(self, st):
        self.cur = st
        self.stmt_reads = set()
        self.binds = []

    def assign_name(self, name, term, ty, env):
        env2 = dict(env)
        env2[name] = ty
        return f"let {vn(name)} := {term} in\n", env2

    def store(self, target, term, ty, env, st):
        """-> (text of the lets, env)"""
        if isinstance(target, ast.Name):
            if target.id == "self" or env.get(target.id) in FILE_TYPES:
                self.err("assignment to this name not accepted", st)
            return self.assign_name(target.id, term, ty, env)
        if self.self_attr(target):
            a = target.attr
            if a not in ATTRS:
                self.err(f"attribute {a} is not part of the modelled object", target)
            have = ty
            if ty == "dyn" and ATTRS[a] in ("Z", "str"):
                term = self.bind(f"{'as_int' if ATTRS[a] == 'Z' else 'as_str'} {term}")
                have = ATTRS[a]
            term = coerce(term, have, ATTRS[a], f"store to {a}", st, self.path)
            if self.in_init and self.depth == 0:
                self.init_assigned.add(a)
            return f"let self := set_{a} self {term} in\n", env
        self.err("assignment target not accepted: " + ast.unparse(target), st)

    def stmt(self, st, env, cont, K):
        self.start(st)
        if isinstance(st, ast.Expr) and isinstance(st.value, ast.Constant) and isinstance(st.value.value, str):
            return cont(env)
        if isinstance(st, ast.Pass):
            return cont(env)
        if isinstance(st, ast.Raise):
            e = st.exc
            if not (isinstance(e, ast.Call) and isinstance(e.func, ast.Name) and e.func.id in EXN and not e.keywords
                    and all(self.msg_expr(a) for a in e.args)) or st.cause is not None:
                self.err("raise not accepted: " + ast.unparse(st), st)
            if self.no_raise:
                self.err("raise after the first statement of a try body", st)
            return f"Err {EXN[e.func.id]}"
        if isinstance(st, ast.Return):
            if K.ret is None:
                self.err("return inside a loop", st)
            if st.value is None:
                return K.ret(env, "tt", "unit", [])
            t, ty = self.expr(st.value, env)
            binds = self.binds
            return self.wrap(binds, K.ret(env, t, ty, []))
        if isinstance(st, ast.Continue):
            if K.nxt is None:
                self.err("continue outside a loop", st)
            return K.nxt(env)
        if isinstance(st, ast.Break):
            if K.brk is None:
                self.err("break outside a loop", st)
            return K.brk(env)
        if isinstance(st, (ast.Assign, ast.AnnAssign)):
            if isinstance(st, ast.AnnAssign):
                if st.value is None:
                    self.err("annotation without a value", st)
                targets = [st.target]
            else:
                targets = st.targets
            # a[i] = (x, y)
            if len(targets) == 1 and isinstance(targets[0], ast.Subscript):
                tg = targets[0]
                if not (self.self_attr(tg.value) and ATTRS.get(tg.value.attr) == "arr") \
                        or isinstance(tg.slice, (ast.Slice, ast.Tuple)):
                    self.err("subscript assignment accepted only as self.<count array>[i] = (a, b)", st)
                vt, vty = self.expr(st.value, env)
                if vty != ("tup", ("Z", "Z")):
                    self.err("a pair of integers is expected", st)
                at, _ = self.attr_load(tg.value)
                i = self.index_Z(tg.slice, env)
                r = self.bind(f"arr_set_row {at} {i} {vt}")
                binds = self.binds
                return self.wrap(binds, f"let self := set_{tg.value.attr} self {r} in\n" + cont(env))
            # a, b = e
            if len(targets) == 1 and isinstance(targets[0], ast.Tuple):
                tg = targets[0]
                if len(tg.elts) != 2 or not all(isinstance(e, ast.Name) for e in tg.elts):
                    self.err("unpacking accepted only into two names", st)
                vt, vty = self.expr(st.value, env)
                if vty != "dyn":
                    self.err("unpacking accepted only from a value taken out of **kwargs", st)
                if self.no_raise:
                    self.err("unpacking after the first statement of a try body", st)
                self.binds.append(("bind", pat([vn(e.id) for e in tg.elts]), f"dyn_unpack2 {vt}"))
                env2 = dict(env)
                for e in tg.elts:
                    env2[e.id] = "dyn"
                binds = self.binds
                return self.wrap(binds, cont(env2))
            vt, vty = self.expr(st.value, env)
            if isinstance(st.value, ast.Name) and isinstance(vty, tuple) and vty[0] == "list":
                self.err("a second name for a list object (lists are values here)", st)
            if len(targets) > 1 and isinstance(vty, tuple) and vty[0] == "list":
                self.err("a list assigned to several names (lists are values here)", st)
            text, env2 = "", env
            for tg in targets:
                t, env2 = self.store(tg, vt, vty, env2, st)
                text += t
                if isinstance(tg, ast.Name) and tg.id in self.tracked:
                    # a new list object, or one that can only be the object the name held before
                    fresh = isinstance(st.value, ast.List)
                    if not fresh:
                        for nm in ast.walk(st.value):
                            if isinstance(nm, ast.Name) and nm.id != tg.id and isinstance(env.get(nm.id), tuple) \
                                    and env[nm.id][0] == "list":
                                self.err(f"`{tg.id}` is appended to a list and changed in place; it may only be assigned "
                                         "a list literal or an expression over itself", st)
                    if fresh or "al_" + tg.id not in env2:
                        t2, env2 = self.assign_name("al_" + tg.id, "false", "bool", env2)
                        text += t2
            binds = self.binds
            return self.wrap(binds, text + cont(env2))
        if isinstance(st, ast.AugAssign):
            tg = st.target
            if isinstance(tg, ast.Name):
                if not isinstance(st.op, (ast.Add, ast.Sub)):
                    self.err("operator not accepted", st)
                lt, lty = self.expr(tg, env)
                lz = self.as_Z(lt, lty, st)
                rt, rty = self.expr(st.value, env)
                rz = self.as_Z(rt, rty, st)
                text, env2 = self.assign_name(tg.id, f"({lz} {'+' if isinstance(st.op, ast.Add) else '-'} {rz})%Z", "Z", env)
                binds = self.binds
                return self.wrap(binds, text + cont(env2))
            # a[k:, j] -= d
            if isinstance(tg, ast.Subscript) and self.self_attr(tg.value) and ATTRS.get(tg.value.attr) == "arr" \
                    and isinstance(tg.slice, ast.Tuple) and len(tg.slice.elts) == 2 \
                    and isinstance(tg.slice.elts[0], ast.Slice) and tg.slice.elts[0].upper is None \
                    and tg.slice.elts[0].step is None and tg.slice.elts[0].lower is not None \
                    and isinstance(st.op, (ast.Add, ast.Sub)):
                at, _ = self.attr_load(tg.value)
                lo = self.index_Z(tg.slice.elts[0].lower, env)
                j = self.index_Z(tg.slice.elts[1], env)
                d = self.index_Z(st.value, env)
                if isinstance(st.op, ast.Add):
                    d = f"(- {d})%Z"
                r = self.bind(f"arr_sub_col_from {at} {lo} {j} {d}")
                binds = self.binds
                return self.wrap(binds, f"let self := set_{tg.value.attr} self {r} in\n" + cont(env))
            self.err("augmented assignment not accepted: " + ast.unparse(st), st)
        if isinstance(st, ast.Expr):
            v = st.value
            if isinstance(v, ast.Call) and isinstance(v.func, ast.Attribute) and v.func.attr == "append" \
                    and isinstance(v.func.value, ast.Name) and len(v.args) == 1 and not v.keywords:
                x = v.func.value.id
                lt, lty = self.expr(v.func.value, env)
                if not (isinstance(lty, tuple) and lty[0] == "list"):
                    self.err("append on something that is not a list", st)
                if x in self.tracked:
                    # lists are values here: changing in place a list that sits inside another list is not modelled
                    if "al_" + x not in env:
                        self.err(f"`{x}` is changed in place before it is assigned", st)
                    if self.no_raise:
                        self.err("append to an aliased list after the first statement of a try body", st)
                    self.read("al_" + x)
                    self.binds.append(("bind", "_", f"if {vn('al_' + x)} then Err OtherError else Ok tt"))
                et, ety = self.expr(v.args[0], env)
                nty = unify(lty, ("list", ety), "append", st, self.path)
                et = coerce(et, ety, nty[1], "append", st, self.path)
                text, env2 = self.assign_name(x, f"({lt} ++ [{et}])%list", nty, env)
                if isinstance(v.args[0], ast.Name) and v.args[0].id in self.tracked:
                    t2, env2 = self.assign_name("al_" + v.args[0].id, "true", "bool", env2)
                    text += t2
                binds = self.binds
                return self.wrap(binds, text + cont(env2))
            if isinstance(v, ast.Call):
                self.expr(v, env)
                binds = self.binds
                return self.wrap(binds, cont(env))
            self.err("expression statement not accepted", st)
        if isinstance(st, ast.If):
            return self.if_stmt(st, env, cont, K)
        if isinstance(st, ast.For):
            return self.loop(st, env, cont, K)
        if isinstance(st, ast.While):
            return self.loop(st, env, cont, K)
        if isinstance(st, ast.With):
            if len(st.items) != 1 or not isinstance(st.items[0].optional_vars, ast.Name):
                self.err("with statement not accepted", st)
            c, x = st.items[0].context_expr, st.items[0].optional_vars.id
            if not (isinstance(c, ast.Call) and isinstance(c.func, ast.Name) and c.func.id == "open" and len(c.args) == 2
                    and not c.keywords and self.const_str(c.args[1]) in ("r", "rb")):
                self.err("with: only open(path, 'r' | 'rb')", st)
            pt, pty = self.expr(c.args[0], env)
            if pty != "str":
                self.err("open: the path must be a str", st)
            binary = self.const_str(c.args[1]) == "rb"
            env2 = dict(env)
            env2[x] = "fbin" if binary else "ftext"
            binds = self.binds
            head = f"let {vn(x)} := {'rt_open_bin' if binary else 'rt_open_text'} (fs {pt}) in\n"

            def after(e):
                e2 = dict(e)
                e2.pop(x, None)         # closed
                return cont(e2)
            self.depth += 1
            try:
                body = self.block(st.body, env2, after, K)
            finally:
                self.depth -= 1
            return self.wrap(binds, head + body)
        if isinstance(st, ast.Try):
            return self.try_stmt(st, env, cont, K)
        self.err("statement not accepted: " + type(st).__name__, st)

    def join_vars(self, st_list_a, st_list_b, env, whole):
        va = self.assigned(whole)
        ma, mb = self.must_assign(st_list_a), self.must_assign(st_list_b)
        fa, fb = self.falls_through(st_list_a), self.falls_through(st_list_b)
        out = [v for v in env if v in va]
        for v in va:
            if v not in env and (v in ma or not fa) and (v in mb or not fb) and (fa or fb):
                out.append(v)
        return out

    def if_stmt(self, st, env, cont, K):
        c = self.truth(st.test, env)
        binds = self.binds
        self.depth += 1
        try:
            if self.escapes(st.body) or self.escapes(st.orelse):
                a = self.block(st.body, env, cont, K)
                b = self.block(st.orelse, env, cont, K)
                return self.wrap(binds, f"if {c} then\n{a}\nelse\n{b}")
            J = self.join_vars(st.body, st.orelse, env, [st])
            seen = []

            def rec(e):
                seen.append([e.get(v) for v in J])
                return "DRY"
            self.block(st.body, env, rec, K)
            self.block(st.orelse, env, rec, K)
            tys = []
            for k, v in enumerate(J):
                ty = None
                for row in seen:
                    if row[k] is None:
                        self.err(f"`{v}` is not defined on every path through this if", st)
                    ty = row[k] if ty is None else unify(ty, row[k], f"variable {v} after if", st, self.path)
                tys.append(ty if ty is not None else env.get(v, "unit"))

            def fin(e):
                return "Ok " + tup([coerce(vn(v), e[v], ty, f"variable {v} after if", st, self.path)
                                    for v, ty in zip(J, tys)])
            a = self.block(st.body, env, fin, K)
            b = self.block(st.orelse, env, fin, K)
        finally:
            self.depth -= 1
        env2 = dict(env)
        for v, ty in zip(J, tys):
            env2[v] = ty
        return self.wrap(binds, f"bind (if {c} then\n{a}\nelse\n{b}) (fun {pat([vn(v) for v in J])} =>\n{cont(env2)})")

    def loop_id(self, st):
        key = id(st)
        if key not in self.loopids:
            self.loopids[key] = (self.mname, sum(1 for k in self.loopids.values() if k[0] == self.mname) + 1)
        return self.loopids[key]

    def loop(self, st, env, cont, K):
        is_for = isinstance(st, ast.For)
        if st.orelse:
            self.err("loop else not accepted", st)
        # the iterable / the test
        if is_for:
            if not isinstance(st.target, ast.Name) or st.target.id in env:
                self.err("loop target must be a name that is not bound before the loop", st)
            it = st.iter
            if isinstance(it, ast.Call) and isinstance(it.func, ast.Name) and it.func.id == "range" and not it.keywords \
                    and len(it.args) in (1, 2):
                lo = "0%Z" if len(it.args) == 1 else self.index_Z(it.args[0], env)
                hi = self.index_Z(it.args[-1], env)
                lst, ety = f"(zrange {lo} {hi})", "Z"
            elif isinstance(it, ast.Call) and isinstance(it.func, ast.Attribute) and it.func.attr == "keys" \
                    and not it.args and not it.keywords:
                dt, dty = self.expr(it.func.value, env)
                if dty != "kwargs":
                    self.err(".keys() of something that is not the keyword dictionary", st)
                lst, ety = f"(dict_keys {dt})", "str"
            else:
                lt, lty = self.expr(it, env)
                if not (isinstance(lty, tuple) and lty[0] == "list" and lty[1] is not None):
                    self.err(f"iteration over {lty!r} not accepted", st)
                lst, ety = lt, lty[1]
        pre = self.binds
        mname, k = self.loop_id(st)
        asg = self.assigned([st])
        carried = [v for v in env if v in asg]
        ctys = {v: env[v] for v in carried}
        saved_reads = self.reads
        for _ in range(8):
            self.reads = set()
            env_b = dict(env)
            env_b.update(ctys)
            if is_for:
                env_b[st.target.id] = ety
            seen = []

            def rec(e):
                seen.append({v: e[v] for v in ctys})
                return "DRY"
            Kb = Esc(None, rec, rec)
            self.depth += 1
            try:
                self.loop_body(st, env_b, rec, Kb, is_for)
            finally:
                self.depth -= 1
            new = dict(ctys)
            for row in seen:
                for v in ctys:
                    new[v] = unify(new[v], row[v], f"loop-carried variable {v}", st, self.path)
            if new == ctys:
                break
            ctys = new
        else:
            self.err("types of the loop-carried variables do not stabilise", st)

        def state(e, ctor):
            return f"Ok ({ctor} " + tup([coerce(vn(v), e[v], ctys[v], f"loop-carried variable {v}", st, self.path)
                                         for v in carried]) + ")"
        Kb = Esc(None, lambda e: state(e, "Next"), lambda e: state(e, "Break"))
        self.reads = set()
        self.depth += 1
        try:
            body = self.loop_body(st, env_b, lambda e: state(e, "Next"), Kb, is_for)
        finally:
            self.depth -= 1
        body_reads = self.reads
        self.reads = saved_reads | body_reads
        free = [v for v in env if v in body_reads and v not in carried]
        name = f"{coq_name(mname)}_loop{k}"

        def param(v, ty):
            c = cty(ty)
            return f"({vn(v)} : {c})" if c else vn(v)
        sty = None if any(cty(ctys[v]) is None for v in ctys) else \
            "(" + " * ".join([cty(ctys[v]) for v in carried]) + ")" if carried else "unit"
        params = [param(v, env[v]) for v in free]
        params.append(f"(st : {sty})" if sty else "st")
        if is_for:
            params.append(param(st.target.id, ety))
        rty = f" : result (ctl {sty})" if sty else ""
        self.loopdefs[(mname, k)] = (f"Definition {name} {' '.join(params)}{rty} :=\n"
                                     f"let {pat([vn(v) for v in carried])} := st in\n{body}.\n")
        init = tup([coerce(vn(v), env[v], ctys[v], f"loop-carried variable {v}", st, self.path) for v in carried])
        env2 = dict(env)
        env2.update(ctys)
        fn = " ".join([name] + [vn(v) for v in free])
        run = f"loopC ({fn}) {lst} {init}" if is_for else f"whileC fuel ({fn}) {init}"
        return self.wrap(pre, f"bind ({run}) (fun {pat([vn(v) for v in carried])} =>\n{cont(env2)})")

    def loop_body(self, st, env_b, end, Kb, is_for):
        if is_for or (isinstance(st.test, ast.Constant) and st.test.value is True):
            return self.block(st.body, env_b, end, Kb)
        self.start(st)
        c = self.truth(st.test, env_b)
        binds = self.binds
        body = self.block(st.body, env_b, end, Kb)
        return self.wrap(binds, f"if {c} then\n{body}\nelse\n{Kb.brk(env_b)}")

    def try_stmt(self, st, env, cont, K):
        if st.orelse or st.finalbody or len(st.handlers) != 1 or st.handlers[0].name is not None \
                or not isinstance(st.handlers[0].type, ast.Name) or st.handlers[0].type.id not in EXN \
                or EXN[st.handlers[0].type.id] == "OtherError":
            self.err("try statement not accepted", st)
        h = st.handlers[0]
        first = st.body[0]
        if not (isinstance(first, ast.Assign) and len(first.targets) == 1 and isinstance(first.targets[0], ast.Name)):
            self.err("try body must start with `name = expression`", st)
        self.start(first)
        vt, vty = self.expr(first.value, env)
        binds = self.binds
        if any(kind == "let" or not re.fullmatch(r"t\d+", p) for kind, p, _ in binds):
            self.err("the first statement of a try body must not change a variable", first)
        m = self.wrap(binds, f"Ok {vt}")
        x = first.targets[0].id
        env2 = dict(env)
        env2[x] = vty
        saved = self.no_raise
        self.no_raise = True
        try:
            ok = self.block(st.body[1:], env2, cont, K)
        finally:
            self.no_raise = saved
        hb = self.block(h.body, env, cont, K)
        cls = EXN[h.type.id]
        return (f"match ({m}) with\n| Ok {vn(x)} =>\n{ok}\n| Err {cls} =>\n{hb}\n| Err e_other => Err e_other\nend")

    # ------------------------------------------------------------------ methods
    def method(self, name):
        f, self.path = self.methods[name], self.paths[name]
        ptys, rty, kw = SIGS[name]
        a = f.args
        if f.decorator_list or a.posonlyargs or a.kwonlyargs or a.defaults or a.kw_defaults or a.vararg \
                or (a.kwarg is not None) != kw or not a.args or a.args[0].arg != "self":
            self.err(f"signature of {name} not accepted", f)
        params = [x.arg for x in a.args[1:]] + ([a.kwarg.arg] if kw else [])
        if len(params) != len(ptys):
            self.err(f"{name}: {len(ptys)} argument(s) expected", f)
        self.mname, self.in_init, self.init_assigned, self.depth = name, name == "__init__", set(), 0
        self.no_raise, self.reads, self.binds, self.stmt_reads, self.cur = False, set(), [], set(), f
        appended, receivers, names = set(), set(), set()
        for c in ast.walk(f):
            if isinstance(c, ast.Name):
                names.add(c.id)
            if isinstance(c, ast.Call) and isinstance(c.func, ast.Attribute) and c.func.attr == "append" \
                    and isinstance(c.func.value, ast.Name):
                receivers.add(c.func.value.id)
                if len(c.args) == 1 and isinstance(c.args[0], ast.Name):
                    appended.add(c.args[0].id)
        self.tracked = appended & receivers
        for y in self.tracked:
            if "al_" + y in names or y in params:
                self.err(f"alias flag of `{y}` cannot be introduced", f)
        env = {"self": "jself"}
        env.update(zip(params, ptys))
        w, files = self.ret_shape(name)

        def ret(e, term, ty, _):
            if self.in_init:
                if term != "tt":
                    self.err("__init__ returns a value", f)
                missing = set(ATTRS) - self.init_assigned
                if missing:
                    self.err("__init__ does not assign " + ", ".join(sorted(missing)), f)
                return "Ok self"
            term = coerce(term, ty, rty, f"value returned by {name}", f, self.path)
            outs = (["self"] if w else []) + [vn(params[i]) for i in files] + [term]
            return "Ok " + tup(outs)
        K = Esc(ret)
        body = self.block(strip_doc(f.body), env, lambda e: ret(e, "tt", "unit", []), K)
        uses_self = "self" in self.reads or w
        self.uses_self[name] = uses_self
        head = [coq_name(name)]
        if self.in_init:
            body = "let self := jself_unset in\n" + body
            out_ty = "jself"
        else:
            if uses_self:
                head.append("(self : jself)")
            out_ty = "(" + " * ".join((["jself"] if w else []) + [cty(ptys[i]) for i in files] + [cty(rty)]) + ")"
        head += [f"({vn(p)} : {cty(t)})" for p, t in zip(params, ptys)]
        return f"Definition {' '.join(head)} : result {out_ty} :=\n{body}.\n"


def self_calls(f):
    out = []
    for c in ast.walk(f):
        if isinstance(c, ast.Call) and isinstance(c.func, ast.Attribute) and isinstance(c.func.value, ast.Name) \
                and c.func.value.id == "self" and c.func.attr not in out:
            out.append(c.func.attr)
    return out


def writes_directly(f):
    for n in ast.walk(f):
        ts = n.targets if isinstance(n, ast.Assign) else [n.target] if isinstance(n, (ast.AnnAssign, ast.AugAssign)) else []
        for t in ts:
            while isinstance(t, ast.Subscript):
                t = t.value
            if isinstance(t, ast.Attribute) and isinstance(t.value, ast.Name) and t.value.id == "self":
                return True
    return False


def reads_attrs_directly(f):
    calls = {id(c.func) for c in ast.walk(f) if isinstance(c, ast.Call)}
    for n in ast.walk(f):
        if isinstance(n, ast.Attribute) and isinstance(n.value, ast.Name) and n.value.id == "self" and id(n) not in calls:
            return True
    return False


def collect():
    tree, path = parse(SRC)
    btree, bpath = parse(BASE_SRC)
    cls = find_class(tree, CLASS)
    if [ast.unparse(b) for b in cls.bases] != [BASE] or cls.keywords:
        raise TranslateError(f"class {CLASS} must derive from {BASE} only", cls, path)
    if not any(isinstance(n, ast.ImportFrom) and n.module == "sparkx.loader.BaseLoader" and n.level == 0
               and [(a.name, a.asname) for a in n.names] == [(BASE, None)] for n in tree.body):
        raise TranslateError(f"`from sparkx.loader.BaseLoader import {BASE}` not found", cls, path)
    if not any(isinstance(n, ast.ImportFrom) and n.module == "sparkx.Filter" and n.level == 0
               and [a.name for a in n.names] == ["*"] for n in tree.body):
        raise TranslateError("`from sparkx.Filter import *` not found (np / Particle would resolve differently)", cls, path)
    for n in tree.body:
        bound = []
        if isinstance(n, (ast.FunctionDef, ast.ClassDef, ast.AsyncFunctionDef)):
            bound = [n.name]
        elif isinstance(n, (ast.Import, ast.ImportFrom)):
            bound = [(a.asname or a.name).split(".")[0] for a in n.names]
        elif isinstance(n, ast.Expr) and isinstance(n.value, ast.Constant):
            bound = []
        else:
            raise TranslateError("module-level statement not accepted", n, path)
        if {"np", "Particle", "open", "isinstance", "len", "int", "float", "all", "range"} & set(bound):
            raise TranslateError("a name the translation takes as given is rebound at module level", n, path)
    bcls = find_class(btree, BASE)
    if [ast.unparse(b) for b in bcls.bases] != ["ABC"]:
        raise TranslateError(f"class {BASE} must derive from ABC only", bcls, bpath)
    methods, paths = {}, {}
    for c, p in ((bcls, bpath), (cls, path)):          # the subclass overrides
        for n in c.body:
            if isinstance(n, ast.FunctionDef):
                methods[n.name], paths[n.name] = n, p
            elif isinstance(n, (ast.AsyncFunctionDef, ast.ClassDef)) or \
                    (isinstance(n, (ast.Assign, ast.AnnAssign)) and c is cls):
                raise TranslateError("class body statement not accepted", n, p)
    for name in SIGS:
        if name not in methods:
            raise TranslateError(f"method {name} not found")
    for name in ABSTRACT:
        if name not in methods:
            raise TranslateError(f"method {name} not found")
    return methods, paths


def main(outdir):
    methods, paths = collect()
    names = list(SIGS)
    for n in names:
        for c in self_calls(methods[n]):
            if c not in SIGS and c not in ABSTRACT:
                raise TranslateError(f"{n} calls self.{c}, which is not translated", methods[n], paths[n])
    writes = {n: writes_directly(methods[n]) for n in names}
    reads = {n: reads_attrs_directly(methods[n]) for n in names}
    changed = True
    while changed:
        changed = False
        for n in names:
            for c in self_calls(methods[n]):
                if c in SIGS:
                    if writes[c] and not writes[n]:
                        writes[n] = changed = True
                    if reads[c] and not reads[n]:
                        reads[n] = changed = True
    # callees first
    order, done = [], set()

    def visit(n, stack=()):
        if n in done:
            return
        if n in stack:
            raise TranslateError(f"recursive method {n}")
        for c in self_calls(methods[n]):
            if c in SIGS:
                visit(c, stack + (n,))
        done.add(n)
        order.append(n)
    for n in names:
        visit(n)
    tr = Tr(methods, paths, writes)
    tr.reads_self = reads
    tr.uses_self = {}
    out = [HEADER, "(* " + SRC + " and " + BASE_SRC + ": method bodies over Model/JetscapeLoaderRt.v *)\n", PRELUDE]
    for n in order:
        text = tr.method(n)
        for key in sorted((k for k in tr.loopdefs if k[0] == n), reverse=True):
            out.append(tr.loopdefs[key] + "\n")
        out.append(text + "\n")
    out.append("End GenJetscapeLoader.\n")
    write_if_changed(os.path.join(outdir, "GenJetscapeLoader.v"), "".join(out))


if __name__ == "__main__":
    import sys
    main(sys.argv[1] if len(sys.argv) > 1 else "/verif/coq/Gen")

"""Gen/GenBulk.v from src/sparkx/BulkObservables.py: the WHOLE bodies of

    BulkObservables._differential_yield, dNdy, dNdpT, dNdEta, dNdmT,
    mid_rapidity_yield, mid_rapidity_mean_pT, mid_rapidity_mean_mT

as Gallina functions over coq/Model/BulkRt.v (statement by statement, in source order), the defaults of their
parameters, and the method table of the read-only wrapper (ReadOnlyList, BulkObservables.__init__).

Fail-closed: a typed translator of the small Python fragment these methods are written in.  Every statement
and expression node inside the methods read must be of an accepted shape AND be well typed in the fragment's
type system; anything else raises TranslateError with the source position.

Types of the fragment (Coq type):
  INT   Python int (Z)                    NUM   exact number of the input domain: y_width, int/int (Qc)
  FLT   float that may be NaN (cell)      STR   str (string)
  WARG  y_width before its isinstance guard (warg)     BINS / OBINS  bin_properties / Optional (binspec)
  ITEM  element of bin_properties         HIST  Histogram object (hist)
  QLIST hist.bin_width()                  CELLS number / QLIST (list cell)
  EVS, EV, P  self.particle_objects, one event, one particle        METH  getattr(particle, name)
Accepted statements: docstring, raise Cls(msg), return e (not inside a loop), x = e, x op= e, hist.<mutator>(..),
if/elif/else, for x in <events | event | range(n)> (loop-carried variables are the names bound before the loop and
assigned in it, ordered by type and then by binding order), break as last statement of a block of the innermost
loop, and - dropped after validation - `if <pure test on bin_properties>: warn_msg = "..."; warnings.warn(warn_msg)` chains.
Two guards refine a type: `if not isinstance(y_width, (..)): raise` (WARG -> NUM) and
`if bin_properties is None: ... else: ...` (OBINS -> BINS in the else branch).
"""
import ast
from fractions import Fraction
from .core import *

SRC = "src/sparkx/BulkObservables.py"
PARTICLE_SRC = "src/sparkx/Particle.py"
OUTPUTS = ["GenBulk"]
METHODS = ["_differential_yield", "dNdy", "dNdpT", "dNdEta", "dNdmT",
           "mid_rapidity_yield", "mid_rapidity_mean_pT", "mid_rapidity_mean_mT"]
INT, NUM, FLT, STR, WARG, BINS, OBINS, ITEM, HIST, QLIST, CELLS, EVS, EV, P, METH = (
    "INT", "NUM", "FLT", "STR", "WARG", "BINS", "OBINS", "ITEM", "HIST", "QLIST", "CELLS", "EVS", "EV", "P", "METH")
COQ_TY = {INT: "Z", NUM: "Qc", FLT: "cell", STR: "string", WARG: "warg", BINS: "binspec", OBINS: "option binspec",
          ITEM: "item", HIST: "hist", QLIST: "list Qc", CELLS: "list cell", EVS: "list (list P)", EV: "list P", P: "P",
          METH: "(string * P)"}
PARAM_TY = {"quantity": STR, "y_width": WARG}
EXN = {"TypeError", "ValueError", "IndexError", "KeyError", "AttributeError", "ZeroDivisionError"}
ISINSTANCE = {"str": "T_str", "int": "T_int", "float": "T_float", "list": "T_list", "tuple": "T_tuple"}
NUMERIC_RANK = {INT: 0, NUM: 1, FLT: 2}
EVS_ATTR = "particle_objects"
WRAPPER_READS = {"__getitem__": "return self._nested_list[index]", "__len__": "return len(self._nested_list)",
                 "__iter__": "return iter(self._nested_list)", "__repr__": "return repr(self._nested_list)"}


def qc_lit(fr):
    fr = Fraction(fr)
    n, d = fr.numerator, fr.denominator
    return f"(Q2Qc ({n} # {d}))" if n >= 0 else f"(Q2Qc (({n}) # {d}))"


def z_lit(v):
    return f"{v}%Z" if v >= 0 else f"({v})%Z"


def s_lit(s):
    if any(ord(c) > 126 or ord(c) < 32 or c == '"' for c in s):
        raise TranslateError("string literal not accepted: " + repr(s))
    return f'"{s}"%string'


def vname(py):
    if not py.replace("_", "a").isalnum():
        raise TranslateError("identifier not accepted: " + py)
    return "v_" + py


class X:
    """a translated expression: Coq term, fragment type, monadic (term : result T) or pure (term : T),
    value of a numeric literal"""

    def __init__(self, term, ty, mon=False, lit=None):
        self.term, self.ty, self.mon, self.lit = term, ty, mon, lit


class Var:
    def __init__(self, name, ty):
        self.name, self.ty = name, ty


def _is_msg(node):
    if isinstance(node, ast.Constant) and isinstance(node.value, str):
        return True
    if isinstance(node, ast.JoinedStr):
        return True
    if isinstance(node, ast.BinOp) and isinstance(node.op, ast.Add):
        return _is_msg(node.left) and _is_msg(node.right)
    return False


def _direct_breaks(stmts):
    """break statements of THIS loop (not of nested loops)"""
    for st in stmts:
        if isinstance(st, ast.Break):
            return True
        if isinstance(st, ast.If) and (_direct_breaks(st.body) or _direct_breaks(st.orelse)):
            return True
    return False


def terminates(stmts):
    if not stmts:
        return False
    last = stmts[-1]
    if isinstance(last, (ast.Return, ast.Raise, ast.Break)):
        return True
    if isinstance(last, ast.If):
        return terminates(last.body) and terminates(last.orelse)
    return False


MUTATORS = {"add_value", "add_histogram", "average", "scale_histogram"}


def assigned(stmts):
    """names (re)bound by the statements, nested blocks included; a mutating method call rebinds its receiver"""
    out = set()
    for st in stmts:
        if isinstance(st, ast.Assign):
            for t in st.targets:
                if isinstance(t, ast.Name):
                    out.add(t.id)
        elif isinstance(st, ast.AugAssign) and isinstance(st.target, ast.Name):
            out.add(st.target.id)
        elif isinstance(st, ast.If):
            out |= assigned(st.body) | assigned(st.orelse)
        elif isinstance(st, ast.For):
            out |= assigned(st.body)
            if isinstance(st.target, ast.Name):
                out.add(st.target.id)
        elif (isinstance(st, ast.Expr) and isinstance(st.value, ast.Call) and isinstance(st.value.func, ast.Attribute)
              and isinstance(st.value.func.value, ast.Name)):
            out.add(st.value.func.value.id)
    return out


class Translator:
    def __init__(self, path, particle_methods, sigs):
        self.path, self.pmeths, self.sigs = path, particle_methods, sigs
        self.n = 0
        self.ret = None           # return type of the function being translated (None: first pass, collect)
        self.ret_seen = []
        self.calls = []           # (function, callee, [argument source]) of calls to translated methods

    def err(self, msg, node):
        raise TranslateError(msg, node, self.path)

    def fresh(self, base="t"):
        self.n += 1
        return f"{base}{self.n}_"

    # ------------------------------------------------------------------ plumbing
    def lift(self, parts, f):
        """parts: [X]; f(pure terms) -> X.  Monadic parts are bound left to right (Python's evaluation order)."""
        names, binds = [], []
        for p in parts:
            if p.mon:
                v = self.fresh()
                binds.append((v, p.term))
                names.append(v)
            else:
                names.append(p.term)
        r = f(names)
        if not binds:
            return r
        inner = r.term if r.mon else f"Ok {r.term}"
        for v, term in reversed(binds):
            inner = f"(bind {term} (fun {v} => {inner}))"
        return X(inner, r.ty, True)

    def coerce(self, x, want, node):
        if x.ty == want:
            return x
        if x.ty not in NUMERIC_RANK or want not in NUMERIC_RANK or NUMERIC_RANK[x.ty] > NUMERIC_RANK[want]:
            self.err(f"a value of type {x.ty} where {want} is needed", node)

        def conv(t):
            if x.ty == INT:
                q = qc_lit(x.lit) if x.lit is not None else f"(int_q {t})"
            else:
                q = t
            return q if want == NUM else f"(Some {q})"
        return self.lift([x], lambda a: X(conv(a[0]), want))

    # ------------------------------------------------------------------ expressions
    def E(self, node, env):
        if isinstance(node, ast.Constant):
            v = node.value
            if isinstance(v, bool) or v is None:
                self.err("constant not accepted here: " + repr(v), node)
            if isinstance(v, int):
                return X(z_lit(v), INT, lit=Fraction(v))
            if isinstance(v, float):
                if v != v or v in (float("inf"), float("-inf")):
                    self.err("non-finite float literal", node)
                return X(f"(Some {qc_lit(v)})", FLT, lit=Fraction(v))
            if isinstance(v, str):
                return X(s_lit(v), STR)
            self.err("constant not accepted: " + repr(v), node)
        if isinstance(node, ast.Name):
            if node.id not in env:
                self.err(f"name {node.id} is not bound here", node)
            v = env[node.id]
            return X(v.name, v.ty)
        if isinstance(node, ast.Attribute):
            if isinstance(node.value, ast.Name) and node.value.id == "self" and node.attr == EVS_ATTR:
                return X("evs", EVS)
            self.err("attribute access not accepted: " + ast.unparse(node), node)
        if isinstance(node, ast.UnaryOp) and isinstance(node.op, ast.USub):
            a = self.E(node.operand, env)
            if a.lit is not None and a.ty == INT:
                return X(z_lit(-int(a.lit)), INT, lit=-a.lit)
            if a.lit is not None and a.ty == FLT:
                return X(f"(Some {qc_lit(-a.lit)})", FLT, lit=-a.lit)
            if a.ty == INT:
                return self.lift([a], lambda t: X(f"(- {t[0]})%Z", INT))
            if a.ty == NUM:
                return self.lift([a], lambda t: X(f"(- {t[0]})%Qc", NUM))
            self.err(f"unary minus on {a.ty}", node)
        if isinstance(node, ast.BinOp):
            return self.binop(node, self.E(node.left, env), node.op, self.E(node.right, env))
        if isinstance(node, ast.Tuple):
            return self.bins_literal(node, True)
        if isinstance(node, ast.List):
            return self.bins_literal(node, False)
        if isinstance(node, ast.Subscript):
            b, i = self.E(node.value, env), self.E(node.slice, env)
            if i.ty != INT:
                self.err("index is not an int", node)
            if b.ty in (EVS, EV):
                return self.lift([b, i], lambda a: X(f"(seq_get {a[0]} {a[1]})", EV if b.ty == EVS else P, True))
            if b.ty == BINS:
                return self.lift([b, i], lambda a: X(f"(bins_item {a[0]} {a[1]})", ITEM, True))
            self.err(f"subscript of {b.ty}", node)
        if isinstance(node, ast.Call):
            return self.call(node, env)
        self.err("expression not accepted: " + type(node).__name__ + " " + ast.unparse(node)[:60], node)

    def numeric_literal(self, node):
        neg = False
        if isinstance(node, ast.UnaryOp) and isinstance(node.op, ast.USub):
            neg, node = True, node.operand
        if not (isinstance(node, ast.Constant) and isinstance(node.value, (int, float)) and not isinstance(node.value, bool)):
            self.err("expected a numeric literal", node)
        v = node.value
        if isinstance(v, float) and (v != v or v in (float("inf"), float("-inf"))):
            self.err("non-finite literal", node)
        return (-v if neg else v)

    def bins_literal(self, node, is_tuple):
        vals = [self.numeric_literal(e) for e in node.elts]
        if not is_tuple:
            return X("(BList [" + "; ".join(qc_lit(v) for v in vals) + "])", BINS)
        if len(vals) != 3:
            self.err("a tuple literal must be (lo, hi, n)", node)
        n = vals[2]
        if float(n) != int(n):
            self.err("the number of bins must be integral", node)
        is_int = "true" if isinstance(n, int) else "false"
        return X(f"(BTuple {qc_lit(vals[0])} {qc_lit(vals[1])} {is_int} {z_lit(int(n))})", BINS)

    def binop(self, node, a, op, b):
        names = {ast.Add: "add", ast.Sub: "sub", ast.Mult: "mul", ast.Div: "div"}
        if type(op) not in names:
            self.err("operator not accepted: " + type(op).__name__, node)
        o = names[type(op)]
        if b.ty == QLIST and o == "div" and a.ty in (INT, NUM):
            a = self.coerce(a, NUM, node)
            return self.lift([a, b], lambda t: X(f"(rdiv_list {t[0]} {t[1]})", CELLS))
        if a.ty not in NUMERIC_RANK or b.ty not in NUMERIC_RANK:
            self.err(f"arithmetic on {a.ty} and {b.ty}", node)
        ty = a.ty if NUMERIC_RANK[a.ty] >= NUMERIC_RANK[b.ty] else b.ty
        if ty == INT:
            if o == "div":
                return self.lift([a, b], lambda t: X(f"(py_div_int {t[0]} {t[1]})", NUM, True))
            sym = {"add": "+", "sub": "-", "mul": "*"}[o]
            return self.lift([a, b], lambda t: X(f"({t[0]} {sym} {t[1]})%Z", INT))
        if ty == NUM:
            if o == "div" and (b.lit is None or b.lit == 0):
                self.err("division of an exact number by a non-literal or zero divisor", node)
            a, b = self.coerce(a, NUM, node), self.coerce(b, NUM, node)
            sym = {"add": "+", "sub": "-", "mul": "*", "div": "/"}[o]
            return self.lift([a, b], lambda t: X(f"({t[0]} {sym} {t[1]})%Qc", NUM))
        a, b = self.coerce(a, FLT, node), self.coerce(b, FLT, node)
        return self.lift([a, b], lambda t: X(f"(c{o} {t[0]} {t[1]})", FLT))

    def call(self, node, env):
        f = node.func
        if node.keywords:
            self.err("keyword arguments not accepted", node)
        args = node.args
        if isinstance(f, ast.Name) and f.id not in env:
            if f.id == "len" and len(args) == 1:
                a = self.E(args[0], env)
                if a.ty in (EVS, EV):
                    return self.lift([a], lambda t: X(f"(py_len {t[0]})", INT))
                if a.ty == BINS:
                    return self.lift([a], lambda t: X(f"(bins_len {t[0]})", INT))
                self.err(f"len of {a.ty}", node)
            if f.id == "getattr" and len(args) == 2:
                p, s = self.E(args[0], env), self.E(args[1], env)
                if p.ty != P or s.ty != STR:
                    self.err("getattr accepted only as getattr(<particle>, <str>)", node)
                return self.lift([p, s], lambda t: X(f"({t[1]}, {t[0]})", METH))
            if f.id == "Histogram" and len(args) == 1:
                a = self.E(args[0], env)
                if a.ty != BINS:
                    self.err(f"Histogram({a.ty})", node)
                return self.lift([a], lambda t: X(f"(hist_new ulinspace {t[0]})", HIST, True))
            self.err("call not accepted: " + f.id, node)
        if isinstance(f, ast.Attribute):
            if isinstance(f.value, ast.Name) and f.value.id == "self":
                if f.attr not in self.sigs:
                    self.err("method call not accepted: self." + f.attr, node)
                sig = self.sigs[f.attr]
                if len(args) != len(sig["params"]):
                    self.err("call of self.%s: all %d arguments must be given positionally" % (f.attr, len(sig["params"])), node)
                parts = []
                for (pn, pty), a in zip(sig["params"], args):
                    x = self.E(a, env)
                    if x.ty != pty:
                        self.err(f"argument {pn} of {f.attr}: {x.ty}, expected {pty}", node)
                    parts.append(x)
                self.calls.append((self.fname, f.attr, [ast.unparse(a) for a in args]))
                return self.lift(parts, lambda t: X(f"(gen_{f.attr} {' '.join(t)} evs)", sig["ret"], True))
            recv = self.E(f.value, env)
            if recv.ty == P:
                if args or f.attr not in self.pmeths:
                    self.err(f"Particle has no zero-argument method {f.attr}", node)
                return self.lift([recv], lambda t: X(f"(obs {s_lit(f.attr)} {t[0]})", FLT))
            if recv.ty == HIST and f.attr == "bin_width" and not args:
                return self.lift([recv], lambda t: X(f"(hist_bin_width {t[0]})", QLIST))
            self.err("method call not accepted: " + ast.unparse(f), node)
        # <callable expression>()
        m = self.E(f, env)
        if m.ty == METH and not args:
            return self.lift([m], lambda t: X(f"(obs (fst {t[0]}) (snd {t[0]}))", FLT))
        self.err("call not accepted: " + ast.unparse(f)[:60], node)

    # ------------------------------------------------------------------ conditions -> X of Coq type bool
    def types_of(self, node):
        tys = node.elts if isinstance(node, ast.Tuple) else [node]
        out = []
        for t in tys:
            s = ast.unparse(t)
            if s not in ISINSTANCE:
                self.err("isinstance type not accepted: " + s, node)
            out.append(ISINSTANCE[s])
        return "[" + "; ".join(out) + "]"

    def C(self, node, env):
        if isinstance(node, ast.BoolOp):
            parts = [self.C(v, env) for v in node.values]
            is_and = isinstance(node.op, ast.And)
            if all(not p.mon for p in parts):
                return X("(" + (" && " if is_and else " || ").join(p.term for p in parts) + ")", "B")
            term = self.m(parts[-1])
            for p in reversed(parts[:-1]):
                term = f"({'andM' if is_and else 'orM'} {self.m(p)} {term})"
            return X(term, "B", True)
        if isinstance(node, ast.UnaryOp) and isinstance(node.op, ast.Not):
            return self.lift([self.C(node.operand, env)], lambda t: X(f"(negb {t[0]})", "B"))
        if isinstance(node, ast.Compare):
            return self.compare(node, env)
        if isinstance(node, ast.Call) and isinstance(node.func, ast.Name) and not node.keywords:
            fn = node.func.id
            if fn == "isinstance" and len(node.args) == 2:
                a = self.E(node.args[0], env)
                tys = self.types_of(node.args[1])
                table = {STR: "str_is", BINS: "bins_is {0}", ITEM: "item_is {0}"}
                if a.ty not in table:
                    self.err(f"isinstance of {a.ty} (only as the guard `if not isinstance(..): raise` for y_width)", node)
                if a.ty == STR:
                    return self.lift([a], lambda t: X(f"(str_is {tys})", "B"))
                return self.lift([a], lambda t: X("(" + table[a.ty].format(t[0]) + f" {tys})", "B"))
            if fn == "callable" and len(node.args) == 1:
                a = self.E(node.args[0], env)
                if a.ty != METH:
                    self.err("callable accepted only on getattr(<particle>, <str>)", node)
                return self.lift([a], lambda t: X(f"(is_callable (fst {t[0]}))", "B"))
            if fn in ("all", "any") and len(node.args) == 1 and isinstance(node.args[0], ast.GeneratorExp):
                ge = node.args[0]
                if len(ge.generators) != 1 or ge.generators[0].ifs or ge.generators[0].is_async \
                        or not isinstance(ge.generators[0].target, ast.Name):
                    self.err("generator expression shape not accepted", node)
                it = self.E(ge.generators[0].iter, env)
                if it.ty != BINS:
                    self.err(f"{fn}(... for x in {it.ty})", node)
                env2 = dict(env)
                tn = ge.generators[0].target.id
                env2[tn] = Var(vname(tn), ITEM)
                c = self.C(ge.elt, env2)
                if c.mon:
                    self.err("element test may raise", node)
                comb = "forallb" if fn == "all" else "existsb"
                return self.lift([it], lambda t: X(f"({comb} (fun {vname(tn)} => {c.term}) (bins_items {t[0]}))", "B"))
        self.err("condition not accepted: " + ast.unparse(node)[:70], node)

    @staticmethod
    def m(x):
        return x.term if x.mon else f"(Ok {x.term})"

    def cmp1(self, a, op, b, node):
        """one comparison of two already evaluated operands"""
        if a.ty not in NUMERIC_RANK or b.ty not in NUMERIC_RANK:
            self.err(f"comparison of {a.ty} and {b.ty}", node)
        ty = a.ty if NUMERIC_RANK[a.ty] >= NUMERIC_RANK[b.ty] else b.ty
        a, b = self.coerce(a, ty, node), self.coerce(b, ty, node)
        if a.mon or b.mon:
            self.err("internal: unevaluated operand", node)
        k = type(op)
        if ty == INT:
            t = {ast.LtE: "({0} <=? {1})%Z", ast.Lt: "({0} <? {1})%Z", ast.GtE: "({1} <=? {0})%Z", ast.Gt: "({1} <? {0})%Z",
                 ast.Eq: "({0} =? {1})%Z", ast.NotEq: "(negb ({0} =? {1})%Z)"}
        elif ty == NUM:
            t = {ast.LtE: "(Qcleb {0} {1})", ast.Lt: "(Qcltb {0} {1})", ast.GtE: "(Qcgeb {0} {1})", ast.Gt: "(Qcgtb {0} {1})",
                 ast.Eq: "(Qc_eq_bool {0} {1})", ast.NotEq: "(negb (Qc_eq_bool {0} {1}))"}
        else:
            t = {ast.LtE: "(cmp_cc Qcleb {0} {1})", ast.Lt: "(cmp_cc Qcltb {0} {1})", ast.GtE: "(cmp_cc Qcgeb {0} {1})",
                 ast.Gt: "(cmp_cc Qcgtb {0} {1})", ast.Eq: "(cmp_cc Qc_eq_bool {0} {1})"}
        if k not in t:
            self.err("comparison operator not accepted on " + ty, node)
        return t[k].format(a.term, b.term)

    def compare(self, node, env):
        for op in node.ops:
            if isinstance(op, (ast.Is, ast.IsNot, ast.In, ast.NotIn)):
                self.err("comparison operator not accepted here: " + type(op).__name__, node)
        operands = [self.E(node.left, env)] + [self.E(c, env) for c in node.comparators]
        if any(o.mon for o in operands[2:]):
            self.err("a later operand of a chained comparison may raise", node)
        def k(t):
            pure = [X(term, o.ty, False, o.lit) for term, o in zip(t, operands)]
            return X("(" + " && ".join(self.cmp1(pure[i], op, pure[i + 1], node) for i, op in enumerate(node.ops)) + ")", "B")
        return self.lift(operands, k)

    # ------------------------------------------------------------------ warning-only blocks (validated, dropped)
    def pure_operand(self, node, names):
        if isinstance(node, ast.Name):
            return node.id in names
        if isinstance(node, ast.Subscript):
            return (isinstance(node.value, ast.Name) and node.value.id in names and isinstance(node.slice, ast.Constant)
                    and isinstance(node.slice.value, int) and not isinstance(node.slice.value, bool))
        try:
            self.numeric_literal(node)
            return True
        except TranslateError:
            return False

    def pure_test(self, node, names):
        if isinstance(node, ast.BoolOp):
            return all(self.pure_test(v, names) for v in node.values)
        if isinstance(node, ast.UnaryOp) and isinstance(node.op, ast.Not):
            return self.pure_test(node.operand, names)
        if isinstance(node, ast.Compare):
            return (all(isinstance(o, (ast.Lt, ast.LtE, ast.Gt, ast.GtE, ast.Eq, ast.NotEq)) for o in node.ops)
                    and all(self.pure_operand(x, names) for x in [node.left] + node.comparators))
        if isinstance(node, ast.Call) and isinstance(node.func, ast.Name) and not node.keywords:
            if node.func.id == "isinstance" and len(node.args) == 2 and isinstance(node.args[0], ast.Name) \
                    and node.args[0].id in names:
                tys = node.args[1].elts if isinstance(node.args[1], ast.Tuple) else [node.args[1]]
                return all(ast.unparse(t) in ISINSTANCE for t in tys)
            if node.func.id in ("any", "all") and len(node.args) == 1 and isinstance(node.args[0], ast.GeneratorExp):
                ge = node.args[0]
                if len(ge.generators) != 1:
                    return False
                g = ge.generators[0]
                if not (isinstance(g.target, ast.Name) and isinstance(g.iter, ast.Name) and g.iter.id in names and not g.is_async):
                    return False
                inner = names | {g.target.id}
                return self.pure_test(ge.elt, inner) and all(self.pure_test(c, inner) for c in g.ifs)
        return False

    def warn_only(self, st, env):
        """`if <pure test>: [name = "text";] warnings.warn(name | "text")` with elif/else of the same kind"""
        names = {n for n, v in env.items() if v.ty in (BINS, OBINS)}
        def block(stmts, local):
            if not stmts:
                return False
            for s in stmts:
                if isinstance(s, ast.Assign) and len(s.targets) == 1 and isinstance(s.targets[0], ast.Name) \
                        and _is_msg(s.value) and s.targets[0].id not in env:
                    local.add(s.targets[0].id)
                elif (isinstance(s, ast.Expr) and isinstance(s.value, ast.Call) and ast.unparse(s.value.func) == "warnings.warn"
                      and len(s.value.args) == 1 and not s.value.keywords
                      and (_is_msg(s.value.args[0]) or (isinstance(s.value.args[0], ast.Name) and s.value.args[0].id in local))):
                    pass
                else:
                    return False
            return True
        def chain(s):
            if not (isinstance(s, ast.If) and self.pure_test(s.test, names) and block(s.body, set())):
                return False
            if not s.orelse:
                return True
            if len(s.orelse) == 1 and isinstance(s.orelse[0], ast.If):
                return chain(s.orelse[0])
            return block(s.orelse, set())
        return chain(st)

    # ------------------------------------------------------------------ statements
    @staticmethod
    def carried(env, asg):
        """the names bound before a loop / if and assigned in it, in a canonical order: by type, then by binding order
        (so that renaming a variable or swapping two independent initialisations gives the same term)"""
        rank = {HIST: 0, FLT: 1, NUM: 2, INT: 3}
        names = [n for n in env if n in asg]
        return sorted(names, key=lambda n: (rank.get(env[n].ty, 9), names.index(n)))

    def state_tuple(self, names, env):
        ts = [env[n].name for n in names]
        return "tt" if not ts else ts[0] if len(ts) == 1 else "(" + ", ".join(ts) + ")"

    def state_pat(self, names, env):
        ts = [env[n].name for n in names]
        return "_" if not ts else ts[0] if len(ts) == 1 else "'(" + ", ".join(ts) + ")"

    def bind_name(self, name, x, env, cont):
        env2 = dict(env)
        env2[name] = Var(vname(name), x.ty)
        if x.mon:
            return f"(bind {x.term} (fun {vname(name)} => {cont(env2)}))"
        return f"(let {vname(name)} := {x.term} in {cont(env2)})"

    def S(self, stmts, env, k, kb, in_loop):
        if not stmts:
            return k(env)
        st, rest = stmts[0], stmts[1:]
        def cont(env2):
            return self.S(rest, env2, k, kb, in_loop)
        if isinstance(st, ast.Expr) and isinstance(st.value, ast.Constant) and isinstance(st.value.value, str):
            return cont(env)
        if isinstance(st, ast.Raise):
            if rest:
                self.err("statements after raise", rest[0])
            e = st.exc
            if not (isinstance(e, ast.Call) and isinstance(e.func, ast.Name) and e.func.id in EXN and not e.keywords
                    and all(_is_msg(a) for a in e.args) and st.cause is None):
                self.err("raise of this form not accepted", st)
            return f"(Err {e.func.id})"
        if isinstance(st, ast.Break):
            if rest:
                self.err("statements after break", rest[0])
            if kb is None:
                self.err("break outside the innermost loop body", st)
            return kb(env)
        if isinstance(st, ast.Return):
            if rest:
                self.err("statements after return", rest[0])
            if in_loop:
                self.err("return inside a loop not accepted", st)
            if st.value is None:
                self.err("bare return not accepted", st)
            x = self.E(st.value, env)
            if self.ret is None:
                self.ret_seen.append(x.ty)
                return "RET"
            x = self.coerce(x, self.ret, st)
            return self.m(x)
        if isinstance(st, (ast.Assign, ast.AugAssign)):
            if isinstance(st, ast.Assign):
                if len(st.targets) != 1 or not isinstance(st.targets[0], ast.Name):
                    self.err("assignment target not accepted", st)
                name, x = st.targets[0].id, self.E(st.value, env)
            else:
                if not isinstance(st.target, ast.Name):
                    self.err("assignment target not accepted", st)
                name = st.target.id
                if name not in env:
                    self.err(f"name {name} is not bound here", st)
                x = self.binop(st, X(env[name].name, env[name].ty), st.op, self.E(st.value, env))
            if name in env and env[name].ty != x.ty:
                self.err(f"variable {name} changes type from {env[name].ty} to {x.ty}", st)
            if x.ty in (EVS,):
                self.err("aliasing of the event list not accepted", st)
            return self.bind_name(name, x, env, cont)
        if isinstance(st, ast.Expr) and isinstance(st.value, ast.Call):
            c = st.value
            if not (isinstance(c.func, ast.Attribute) and isinstance(c.func.value, ast.Name) and not c.keywords
                    and c.func.value.id in env and env[c.func.value.id].ty == HIST and c.func.attr in MUTATORS):
                self.err("expression statement not accepted: " + ast.unparse(c.func), st)
            name, meth = c.func.value.id, c.func.attr
            h = X(env[name].name, HIST)
            args = [self.E(a, env) for a in c.args]
            if meth == "add_value" and len(args) == 1 and args[0].ty in NUMERIC_RANK:
                a = self.coerce(args[0], FLT, st)
                x = self.lift([h, a], lambda t: X(f"(hist_add_value {t[0]} {t[1]})", HIST, True))
            elif meth == "add_histogram" and not args:
                x = X(f"(add_histogram {h.term})", HIST, True)
            elif meth == "average" and not args:
                x = X(f"(average usqrt {h.term})", HIST, True)
            elif meth == "scale_histogram" and len(args) == 1 and args[0].ty == CELLS:
                x = self.lift([h, args[0]], lambda t: X(f"(scale_histogram {t[0]} (SList {t[1]}))", HIST, True))
            elif meth == "scale_histogram" and len(args) == 1 and args[0].ty in NUMERIC_RANK:
                a = self.coerce(args[0], FLT, st)
                x = self.lift([h, a], lambda t: X(f"(scale_histogram {t[0]} (SScalar {t[1]}))", HIST, True))
            else:
                self.err(f"call of Histogram.{meth} with these arguments not accepted", st)
            return self.bind_name(name, x, env, cont)
        if isinstance(st, ast.If):
            return self.tr_if(st, rest, env, k, kb, in_loop)
        if isinstance(st, ast.For):
            return self.tr_for(st, rest, env, k, kb, in_loop)
        self.err("statement not accepted: " + type(st).__name__, st)

    def tr_if(self, st, rest, env, k, kb, in_loop):
        if self.warn_only(st, env):
            return self.S(rest, env, k, kb, in_loop)
        t = st.test
        # ---- guard that refines y_width : WARG -> NUM
        if (isinstance(t, ast.UnaryOp) and isinstance(t.op, ast.Not) and isinstance(t.operand, ast.Call)
                and isinstance(t.operand.func, ast.Name) and t.operand.func.id == "isinstance" and len(t.operand.args) == 2
                and isinstance(t.operand.args[0], ast.Name) and t.operand.args[0].id in env
                and env[t.operand.args[0].id].ty == WARG):
            name = t.operand.args[0].id
            if st.orelse or not (len(st.body) == 1 and isinstance(st.body[0], ast.Raise)):
                self.err("the isinstance guard of a number must be `if not isinstance(..): raise ...`", st)
            tys = self.types_of(t.operand.args[1])
            bad = self.S(st.body, env, None, None, in_loop)
            env2 = dict(env)
            env2[name] = Var(vname(name), NUM)
            good = self.S(rest, env2, k, kb, in_loop)
            return (f"(match {env[name].name} with WOther => {bad} | WNum {vname(name)} => "
                    f"if negb (number_is {tys}) then {bad} else {good} end)")
        # ---- `x is None` on an Optional parameter
        if (isinstance(t, ast.Compare) and len(t.ops) == 1 and isinstance(t.ops[0], (ast.Is, ast.IsNot))
                and isinstance(t.left, ast.Name) and t.left.id in env and env[t.left.id].ty == OBINS
                and isinstance(t.comparators[0], ast.Constant) and t.comparators[0].value is None):
            name = t.left.id
            none_b, some_b = (st.body, st.orelse) if isinstance(t.ops[0], ast.Is) else (st.orelse, st.body)
            if not (terminates(none_b) and terminates(some_b)) or rest:
                self.err("both branches of `if x is None` must return/raise and nothing may follow", st)
            env2 = dict(env)
            env2[name] = Var(vname(name), BINS)
            envn = {n: v for n, v in env.items() if n != name}
            return (f"(match {env[name].name} with None => {self.S(none_b, envn, None, None, in_loop)} "
                    f"| Some {vname(name)} => {self.S(some_b, env2, None, None, in_loop)} end)")
        c = self.C(t, env)
        tb, te = terminates(st.body), terminates(st.orelse)
        def ite(b, e):
            if c.mon:
                v = self.fresh("c")
                return f"(bind {c.term} (fun {v} => if {v} then {b} else {e}))"
            return f"(if {c.term} then {b} else {e})"
        if tb and te:
            if rest:
                self.err("statements after an if whose branches all leave", rest[0])
            return ite(self.S(st.body, env, k, kb, in_loop), self.S(st.orelse, env, k, kb, in_loop))
        if tb:
            return ite(self.S(st.body, env, k, kb, in_loop), self.S(st.orelse + rest, env, k, kb, in_loop))
        if te:
            return ite(self.S(st.body + rest, env, k, kb, in_loop), self.S(st.orelse, env, k, kb, in_loop))
        if not rest:
            return ite(self.S(st.body, env, k, kb, in_loop), self.S(st.orelse, env, k, kb, in_loop))
        # join: the names bound before the statement and assigned in it
        asg = assigned([st])
        jvars = self.carried(env, asg)
        for n in asg:
            if n not in env and self.read_later(n, rest):
                self.err(f"variable {n} is first bound inside a branch and read afterwards", st)
        def kj(e):
            for n in jvars:
                if e[n].ty != env[n].ty:
                    self.err(f"variable {n} changes type in a branch", st)
            return "(Ok " + self.state_tuple(jvars, e) + ")"
        term = ite(self.S(st.body, env, kj, kb, in_loop), self.S(st.orelse, env, kj, kb, in_loop))
        return f"(bind {term} (fun {self.state_pat(jvars, env)} => {self.S(rest, env, k, kb, in_loop)}))"

    @staticmethod
    def read_later(name, stmts):
        """may the current binding of `name` be read by these statements (conservative)?"""
        def loaded(node):
            return any(isinstance(n, ast.Name) and n.id == name and isinstance(n.ctx, ast.Load) for n in ast.walk(node))
        for st in stmts:
            if isinstance(st, ast.Assign):
                if loaded(st.value):
                    return True
                if len(st.targets) == 1 and isinstance(st.targets[0], ast.Name) and st.targets[0].id == name:
                    return False
                if any(loaded(t) for t in st.targets):
                    return True
            elif isinstance(st, ast.For):
                if loaded(st.iter):
                    return True
                if isinstance(st.target, ast.Name) and st.target.id == name:
                    continue      # the body reads the new binding
                if Translator.read_later(name, st.body):
                    return True
            elif isinstance(st, ast.If):
                if loaded(st.test) or Translator.read_later(name, st.body) or Translator.read_later(name, st.orelse):
                    return True
            elif isinstance(st, ast.AugAssign):
                if loaded(st.value) or (isinstance(st.target, ast.Name) and st.target.id == name):
                    return True
            elif loaded(st):
                return True
        return False

    def tr_for(self, st, rest, env, k, kb, in_loop):
        if st.orelse:
            self.err("for-else not accepted", st)
        if not isinstance(st.target, ast.Name):
            self.err("loop target not accepted", st)
        for n in ast.walk(st):
            if isinstance(n, ast.Continue):
                self.err("continue not accepted", n)
        tn = st.target.id
        if tn in env:
            self.err(f"loop variable {tn} shadows a bound name", st)
        it = st.iter
        if isinstance(it, ast.Call) and isinstance(it.func, ast.Name) and it.func.id == "range":
            if len(it.args) != 1 or it.keywords:
                self.err("range(n) only", st)
            n = self.E(it.args[0], env)
            if n.ty != INT:
                self.err("range of a non-int", st)
            items, elty = self.lift([n], lambda t: X(f"(py_range {t[0]})", "ITER")), INT
        else:
            items = self.E(it, env)
            if items.ty not in (EVS, EV):
                self.err(f"iteration over {items.ty}", st)
            elty = EV if items.ty == EVS else P
        asg = assigned(st.body)
        state = self.carried(env, asg)
        for n in asg:
            if n not in env and n != tn and self.read_later(n, rest):
                self.err(f"variable {n} is first bound inside the loop and read after it", st)
        if self.read_later(tn, rest):
            self.err(f"loop variable {tn} is read after the loop", st)
        has_break = _direct_breaks(st.body)
        envb = dict(env)
        envb[tn] = Var(vname(tn), elty)
        def check(e):
            for n in state:
                if e[n].ty != env[n].ty:
                    self.err(f"loop-carried variable {n} changes type", st)
        def k_next(e):
            check(e)
            s = self.state_tuple(state, e)
            return f"(Ok ({s}, false))" if has_break else f"(Ok {s})"
        def k_break(e):
            check(e)
            return f"(Ok ({self.state_tuple(state, e)}, true))"
        body = self.S(st.body, envb, k_next, k_break if has_break else None, True)
        pat = self.state_pat(state, env)
        comb = "for_break" if has_break else "fold_leftM"
        loop = self.lift([items], lambda t: X(f"({comb} (fun {pat} {vname(tn)} => {body}) {t[0]} {self.state_tuple(state, env)})", "S", True))
        return f"(bind {loop.term} (fun {pat} => {self.S(rest, env, k, kb, in_loop)}))"

    # ------------------------------------------------------------------ functions
    def function(self, fdef, sig):
        self.fname = fdef.name
        env = {pn: Var(vname(pn), pty) for pn, pty in sig["params"]}
        def kend(e):
            self.err("the method may end without returning", fdef)
        body = strip_doc(fdef.body)
        self.ret, self.ret_seen = None, []
        ncalls = len(self.calls)
        self.S(body, env, kend, None, False)
        del self.calls[ncalls:]
        tys = set(self.ret_seen)
        if tys <= set(NUMERIC_RANK):
            ret = max(tys, key=lambda t: NUMERIC_RANK[t])
            if ret == INT:
                ret = NUM
        elif len(tys) == 1:
            ret = tys.pop()
        else:
            self.err("return statements of different types: " + repr(sorted(tys)), fdef)
        if ret != sig["ret"]:
            self.err(f"the method returns {ret}, its callers were translated for {sig['ret']}", fdef)
        self.ret, self.n = ret, 0
        term = self.S(body, env, kend, None, False)
        params = " ".join(f"({vname(pn)} : {COQ_TY[pty]})" for pn, pty in sig["params"])
        return (f"Definition gen_{fdef.name} {params} (evs : list (list P)) : result {COQ_TY[ret]} :=\n  {term}.\n")


def signature(fdef, path):
    a = fdef.args
    if a.vararg or a.kwarg or a.kwonlyargs or a.posonlyargs or not a.args or a.args[0].arg != "self":
        raise TranslateError("parameter kinds not accepted", fdef, path)
    if fdef.decorator_list:
        raise TranslateError("decorators not accepted", fdef, path)
    args = a.args[1:]
    defaults = dict(zip([p.arg for p in args[len(args) - len(a.defaults):]], a.defaults))
    params, dflt = [], {}
    for p in args:
        d = defaults.get(p.arg)
        if p.arg == "bin_properties":
            if d is None:
                ty = BINS
            elif isinstance(d, ast.Constant) and d.value is None:
                ty = OBINS
            else:
                raise TranslateError("default of bin_properties must be None", fdef, path)
        elif p.arg in PARAM_TY:
            ty = PARAM_TY[p.arg]
            if d is not None:
                if ty == WARG and isinstance(d, ast.Constant) and isinstance(d.value, (int, float)) and not isinstance(d.value, bool):
                    dflt[p.arg] = ("Qc", qc_lit(d.value), d.value)
                elif ty == STR and isinstance(d, ast.Constant) and isinstance(d.value, str):
                    dflt[p.arg] = ("string", s_lit(d.value), d.value)
                else:
                    raise TranslateError(f"default of {p.arg} not accepted", fdef, path)
        else:
            raise TranslateError(f"parameter {p.arg} is not part of the fragment", fdef, path)
        params.append((p.arg, ty))
    ret = HIST if fdef.name.startswith(("dNd", "_differential")) else None
    return {"params": params, "defaults": dflt, "ret": ret}


def particle_methods(path_holder):
    tree, path = parse(PARTICLE_SRC)
    cls = find_class(tree, "Particle")
    out = set()
    for f in cls.body:
        if isinstance(f, ast.FunctionDef) and not f.decorator_list and len(f.args.args) == 1 and not f.name.startswith("_") \
                and not f.args.vararg and not f.args.kwarg and not f.args.kwonlyargs:
            out.add(f.name)
    return out


def wrapper(tree, cls, path):
    """ReadOnlyList: reads are passed through to the wrapped list, every other method only raises TypeError;
    BulkObservables.__init__ stores the wrapper and nothing else."""
    w = find_class(tree, "ReadOnlyList")
    init = find_func(w, "__init__")
    if [a.arg for a in init.args.args] != ["self", "nested_list"] or \
            [ast.unparse(s) for s in strip_doc(init.body)] != ["self._nested_list = nested_list"]:
        raise TranslateError("ReadOnlyList.__init__ must only store the reference", init, path)
    reads, blocked = [], []
    for f in w.body:
        if isinstance(f, ast.Expr) and isinstance(f.value, ast.Constant):
            continue
        if not isinstance(f, ast.FunctionDef) or f.decorator_list:
            raise TranslateError("ReadOnlyList: member not accepted", f, path)
        if f.name == "__init__":
            continue
        body = [ast.unparse(s) for s in strip_doc(f.body)]
        if f.name in WRAPPER_READS:
            if body != [WRAPPER_READS[f.name]]:
                raise TranslateError(f"ReadOnlyList.{f.name} must be `{WRAPPER_READS[f.name]}`", f, path)
            reads.append(f.name)
        else:
            st = strip_doc(f.body)
            if not (len(st) == 1 and isinstance(st[0], ast.Raise) and isinstance(st[0].exc, ast.Call)
                    and isinstance(st[0].exc.func, ast.Name) and st[0].exc.func.id == "TypeError"):
                raise TranslateError(f"ReadOnlyList.{f.name} must only raise TypeError", f, path)
            blocked.append(f.name)
    for need in ("__getitem__", "__len__", "__iter__"):
        if need not in reads:
            raise TranslateError("ReadOnlyList lacks " + need, w, path)
    binit = find_func(cls, "__init__")
    if [a.arg for a in binit.args.args] != ["self", "particle_objects_list"] or \
            [ast.unparse(s) for s in strip_doc(binit.body)] != [f"self.{EVS_ATTR} = ReadOnlyList(particle_objects_list)"]:
        raise TranslateError("BulkObservables.__init__ must only wrap its argument in ReadOnlyList", binit, path)
    return reads, blocked


def translate():
    tree, path = parse(SRC)
    cls = find_class(tree, "BulkObservables")
    reads, blocked = wrapper(tree, cls, path)
    pm = particle_methods(path)
    fdefs = {name: find_func(cls, name) for name in METHODS}
    sigs = {name: signature(f, path) for name, f in fdefs.items()}
    for name in METHODS:
        if sigs[name]["ret"] is None:
            sigs[name]["ret"] = FLT if "mean" in name else NUM
    tr = Translator(path, pm, sigs)
    defs = []
    for name in METHODS:
        src = " ".join(ast.unparse(fdefs[name].args).split())
        defs.append(f"(* def {name}({src}) *)\n" + tr.function(fdefs[name], sigs[name]))
    return {"reads": reads, "blocked": blocked, "sigs": sigs, "defs": defs, "calls": tr.calls}


def tables():
    """for the harness: {public method: (quantity, default binning)} and the defaults of the mid-rapidity methods,
    read from the calls of _differential_yield with literal arguments"""
    t = translate()
    out = {"yield": {}, "mid": {}}
    for fn, callee, args in t["calls"]:
        if callee == "_differential_yield":
            q = ast.literal_eval(args[0])
            d = out["yield"].setdefault(fn, {"quantity": set(), "default": None})
            d["quantity"].add(q)
            try:
                d["default"] = ast.literal_eval(args[1])
            except ValueError:
                pass
    for fn in list(out["yield"]):
        qs = out["yield"][fn]["quantity"]
        out["yield"][fn]["quantity"] = sorted(qs)[0] if len(qs) == 1 else sorted(qs)
    for fn, sig in t["sigs"].items():
        if fn.startswith("mid_"):
            out["mid"][fn] = {p: v[2] for p, v in sig["defaults"].items()}
    return out


def generate():
    t = translate()
    out = [HEADER,
           "From Coq Require Import String List ZArith QArith Qcanon Bool Arith.\n"
           "From SX Require Import Model.Histogram Model.Bulk Model.BulkRt.\nImport ListNotations.\n\n",
           "(* class ReadOnlyList: methods that pass through to the wrapped list / methods that only raise TypeError *)\n",
           "Definition gen_wrapper_reads : list string := [" + "; ".join(s_lit(s) for s in t["reads"]) + "].\n",
           "Definition gen_wrapper_blocked : list string := [" + "; ".join(s_lit(s) for s in t["blocked"]) + "].\n\n",
           "(* defaults of the parameters *)\n"]
    for name in METHODS:
        for p, (cty, term, _) in t["sigs"][name]["defaults"].items():
            out.append(f"Definition gen_{name}_default_{p} : {cty} := {term}.\n")
    out.append("\nSection Methods.\n  Variable usqrt : Qc -> Qc.\n  Variable ulinspace : Qc -> Qc -> nat -> list Qc.\n"
               "  Variable P : Type.\n  Variable obs : string -> P -> cell.\n  Variable is_callable : string -> bool.\n\n")
    for d in t["defs"]:
        out.append(d + "\n")
    out.append("End Methods.\n")
    return "".join(out)


def main(outdir):
    return write_if_changed(outdir + "/GenBulk.v", generate())

"""Gen/GenStorerWrappers.v (`tables` extractor, C04): every filter method of BaseStorer (and the overrides of
Oscar / Jetscape / ParticleObjectStorer) must have the one form the hand model `apply_filter` stands for,

    self.particle_list_ = <function of Filter.py>(self.particle_list_, <the method's own parameters, in order>)
    self._update_num_output_per_event_after_filter()
    return self

or be a plain `raise NotImplementedError(...)`.  Anything else aborts the translation (fail-closed), so a wrapper
that skips the recount, recounts first, or passes something else makes the C04 obligations un-dischargeable.
Emitted: the tables method -> Filter function, the public functions of Filter.py, the refused methods per class."""
import ast
from .core import *

OUTPUTS = ["GenStorerWrappers"]
FILTER = "src/sparkx/Filter.py"
BASE = ("src/sparkx/BaseStorer.py", "BaseStorer")
SUBS = [("Oscar", "src/sparkx/Oscar.py", "Oscar"), ("Jetscape", "src/sparkx/Jetscape.py", "Jetscape"),
        ("PObj", "src/sparkx/ParticleObjectStorer.py", "ParticleObjectStorer")]
RECOUNT = "_update_num_output_per_event_after_filter"


def filter_functions():
    tree, path = parse(FILTER)
    return [n.name for n in tree.body if isinstance(n, ast.FunctionDef) and not n.name.startswith("_")]


def star_import(tree, path):
    for n in tree.body:
        if isinstance(n, ast.ImportFrom) and n.module == "sparkx.Filter" and [a.name for a in n.names] == ["*"]:
            return
    raise TranslateError("`from sparkx.Filter import *` not found (filter names would resolve differently)", None, path)


def classify(f, fnames, path):
    body = strip_doc(f.body)
    touches = any((isinstance(n, ast.Attribute) and n.attr in ("particle_list_", RECOUNT)
                   and isinstance(n.ctx, (ast.Store, ast.Load)) and isinstance(n.value, ast.Name) and n.value.id == "self")
                  for st in body for n in ast.walk(st))
    calls = [n.func.id for st in body for n in ast.walk(st)
             if isinstance(n, ast.Call) and isinstance(n.func, ast.Name) and n.func.id in fnames]
    if len(body) == 1 and isinstance(body[0], ast.Raise) and isinstance(body[0].exc, ast.Call) \
            and ast.unparse(body[0].exc.func) == "NotImplementedError" and not f.decorator_list:
        return ("refused",) if f.name in fnames else None
    if not calls:
        return None           # not a filter method (accessors, __add__, particle_list, writers, the recount itself)
    if f.decorator_list or f.args.vararg or f.args.kwarg or f.args.kwonlyargs or f.args.defaults:
        raise TranslateError(f"filter method {f.name}: signature not accepted", f, path)
    params = [a.arg for a in f.args.args[1:]]
    ok = (len(body) == 3
          and isinstance(body[0], ast.Assign) and len(body[0].targets) == 1
          and ast.unparse(body[0].targets[0]) == "self.particle_list_"
          and isinstance(body[0].value, ast.Call) and isinstance(body[0].value.func, ast.Name)
          and body[0].value.func.id in fnames and not body[0].value.keywords
          and [ast.unparse(a) for a in body[0].value.args] == ["self.particle_list_"] + params
          and isinstance(body[1], ast.Expr) and ast.unparse(body[1].value) == f"self.{RECOUNT}()"
          and isinstance(body[2], ast.Return) and body[2].value is not None and ast.unparse(body[2].value) == "self")
    if not ok:
        raise TranslateError(f"filter method {f.name} does not have the wrapper form `self.particle_list_ = "
                             f"f(self.particle_list_, args); self.{RECOUNT}(); return self`", f, path)
    return ("wrapper", body[0].value.func.id)


def table(rel, clsname, fnames):
    tree, path = parse(rel)
    star_import(tree, path)
    cls = find_class(tree, clsname)
    out = []
    for f in cls.body:
        if isinstance(f, ast.FunctionDef):
            c = classify(f, fnames, path)
            if c:
                out.append((f.name, c))
    return out


def s(x):
    return '"' + x + '"'


def generate():
    fnames = filter_functions()
    base = table(BASE[0], BASE[1], fnames)
    tree, path = parse(BASE[0])
    rec = find_func(find_class(tree, BASE[1]), RECOUNT)      # must exist under this name
    out = [HEADER, "From Coq Require Import List String.\nImport ListNotations.\nLocal Open Scope string_scope.\n\n"]
    out.append("(* public functions of Filter.py *)\nDefinition gen_filter_functions : list string :=\n  [" +
               "; ".join(s(n) for n in fnames) + "].\n\n")
    out.append("(* BaseStorer: filter method -> the Filter.py function it applies before the recount *)\n"
               "Definition gen_base_wrappers : list (string * string) :=\n  [" +
               "; ".join(f"({s(m)}, {s(c[1])})" for m, c in base if c[0] == "wrapper") + "].\n\n")
    if any(c[0] != "wrapper" for m, c in base):
        raise TranslateError("BaseStorer refuses a filter method", None, path)
    for short, rel, cls in SUBS:
        t = table(rel, cls, fnames)
        out.append(f"(* {rel} *)\nDefinition gen_refused_{short} : list string :=\n  [" +
                   "; ".join(s(m) for m, c in t if c[0] == "refused") + "].\n")
        out.append(f"Definition gen_own_{short} : list (string * string) :=\n  [" +
                   "; ".join(f"({s(m)}, {s(c[1])})" for m, c in t if c[0] == "wrapper") + "].\n\n")
    return "".join(out)


def main(outdir):
    return write_if_changed(outdir + "/GenStorerWrappers.v", generate())

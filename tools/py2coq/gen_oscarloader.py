"""Gen/GenOscarLoader.v (C01, C02, C06, C07): the methods of sparkx.loader.OscarLoader and the helpers it inherits
from BaseLoader, translated statement by statement from the CURRENT source into Gallina over Model/OscarLoaderRt.v
(a dynamically typed Python/numpy fragment).  Proofs/OscarLoader_Source.v proves the hand model Model/Oscar.v equal to
what is generated here.

Every method `m(self, a, ...)` of class OscarLoader (except __apply_kwargs_filters, see below) and every method of
BaseLoader that OscarLoader does not override and that is called, becomes

    gen_<m> (self : oself) (a ... : ov) : result (oself * [<mutated parameters> *] ov)

the object after the call, the parameters the method mutates (a file handed to _skip_lines), the returned value.

Conventions of the translation
  * statements in source order; `x = e` binds, `self.a = e` / `self.a[i] = e` / `x.append(e)` / `x[lo:, j] -= e`
    rebuild the value of the name or attribute they change (value semantics; aliasing of mutable values is not
    tracked), `a = b = e` assigns left to right, `a, b = e` unpacks a pair;
  * if/elif/else: the names assigned in a branch and read afterwards are joined; a name a path leaves unassigned is
    OUnbound there and reading it goes through py_bound; joined and loop-carried names are listed in the order of their
    first occurrence in the construct (not by name);
  * `for x in range(..)/<value>` is fold_leftM over the loop-carried names (assigned in the body and read after the
    loop or at the start of the next pass); `continue` ends the pass; `break`/`return` in a for loop are rejected;
  * `while True:` / `while <cond>:` is py_while over the loop-carried names with `break`/`continue`; its fuel is
    py_fuel of the loop-carried values (what is left of the open files);
  * `with open(self.PATH_OSCAR_, "r"|"rb") as f:` binds f to the file and continues with the block;
  * calls that change their receiver (f.readline(), f.read(1), f.seek(..), self.<method>(..)) are taken out of the
    statement they occur in (at most one per statement, and only where Python evaluates nothing but constants and
    names before it) and bind the new receiver together with the result;
  * conditions with Python's evaluation order and short-circuit (andM / orM), comparisons, `in`, isinstance, `not`,
    truth values; exceptions are `Err <class>` (message texts are not evaluated);
  * every expression form maps to one function of the runtime file (py_getitem, py_slice, py_np_delete_axis0, ...).
Parameters of the generated section (oracles): tok_float / tok_int (float(str), int(str)), Particle_ (the Particle
constructor, applied to the list of its positional arguments), apply_kwargs_filters_ (__apply_kwargs_filters, already
translated by gen_dispatch.py; here an abstract function of the event list and the `filters` value).
Pinned textually: nothing.  (`open` must be called on self.PATH_OSCAR_ with mode "r" or "rb"; OscarLoader must derive
from BaseLoader only.)
Fail-closed: any statement or expression shape not listed here raises TranslateError with the source location.
"""
import ast
from .core import *
from .pyfrag import zlit, slit

OUTPUTS = ["GenOscarLoader"]
SRC = "src/sparkx/loader/OscarLoader.py"
BASE = "src/sparkx/loader/BaseLoader.py"
CLS, BASECLS = "OscarLoader", "BaseLoader"
ATTR = {"PATH_OSCAR_": "A_path", "oscar_format_": "A_fmt", "optional_arguments_": "A_opts",
        "event_end_lines_": "A_ends", "num_events_": "A_nev", "num_output_per_event_": "A_cnt",
        "custom_attr_list": "A_attrs"}
ERR = {"TypeError": "TypeError", "ValueError": "ValueError", "IndexError": "IndexError", "KeyError": "KeyError",
       "FileNotFoundError": "OtherError", "NotImplementedError": "OtherError"}
ABSTRACT = "__apply_kwargs_filters"          # translated elsewhere; a parameter here
SKIP = {ABSTRACT}
COQ_RESERVED = {"as", "at", "cofix", "else", "end", "exists", "exists2", "fix", "for", "forall", "fun", "if", "IF",
                "in", "let", "match", "mod", "Prop", "return", "Set", "then", "Type", "using", "where", "with",
                "bind", "result", "Ok", "Err", "list", "nat", "bool", "true", "false", "tt", "unit", "Some", "None",
                "option", "length", "map", "ov", "oself", "arr", "attr", "tok_int", "tok_float", "Particle_",
                "apply_kwargs_filters_", "fst", "snd", "pair", "S", "O"}
# prims introduced by the desugaring; the ones in MUTATORS change (not rebind) their first argument
PRIMS = {"__setattr__", "__setitem__", "__isub_colslice__", "__append__", "__readline__", "__read__", "__seek__",
         "__open__", "__method__", "__unpack2__"}
MUTATORS = {"__setitem__", "__isub_colslice__", "__append__", "__readline__", "__read__", "__seek__"}


def cname(py):
    n = py.lstrip("_") or "x"
    if n in COQ_RESERVED or n.startswith("gen_") or n.startswith("py_") or not n.replace("_", "a").isalnum():
        n = n + "_"
    if n[0].isdigit():
        n = "v" + n
    return n


def prim(name, args, at):
    n = ast.Call(func=ast.Name(id=name, ctx=ast.Load()), args=list(args), keywords=[])
    return ast.fix_missing_locations(ast.copy_location(n, at))


def is_prim(node, name=None):
    return (isinstance(node, ast.Call) and isinstance(node.func, ast.Name) and node.func.id in PRIMS
            and (name is None or node.func.id == name))


def assign(target, value, at):
    if isinstance(target, str):
        target = ast.Name(id=target, ctx=ast.Store())
    elif isinstance(target, (list, tuple)):
        target = ast.Tuple(elts=[ast.Name(id=t, ctx=ast.Store()) for t in target], ctx=ast.Store())
    n = ast.Assign(targets=[target], value=value)
    return ast.fix_missing_locations(ast.copy_location(n, at))


def load(name, at):
    return ast.copy_location(ast.Name(id=name, ctx=ast.Load()), at)


def const(v, at):
    return ast.copy_location(ast.Constant(value=v), at)


def is_self_attr(t):
    return isinstance(t, ast.Attribute) and isinstance(t.value, ast.Name) and t.value.id == "self"


def method_call(node):
    """self.<m>(...) -> m, else None"""
    if isinstance(node, ast.Call) and is_self_attr(node.func):
        return node.func.attr
    return None


# ------------------------------------------------------------------------------------------------ desugaring
class Desugar:
    """source statements -> Assign to plain names (or a tuple of names), If, For, While(True), Return, Raise, Break,
    Continue, Pass; everything that changes a value becomes `name = __prim__(name, ...)`"""

    def __init__(self, path, methods, mutated):
        self.path, self.methods, self.mutated = path, methods, mutated
        self.n = 0

    def err(self, msg, node):
        raise TranslateError(msg, node, self.path)

    def tmp(self):
        self.n += 1
        return f"tmp{self.n}_"

    # ---- calls that change their receiver
    def effect_kind(self, node):
        if not isinstance(node, ast.Call):
            return None
        m = method_call(node)
        if m is not None and m not in SKIP:
            return "method"
        f = node.func
        if isinstance(f, ast.Attribute) and f.attr in ("readline", "read", "seek"):
            return f.attr
        return None

    def eval_order(self, node, out):
        """sub-expressions in the order Python evaluates them (post-order); conditional evaluation -> marker"""
        if isinstance(node, (ast.BoolOp, ast.IfExp, ast.ListComp, ast.GeneratorExp, ast.Lambda, ast.DictComp, ast.SetComp)):
            out.append(("cond", node))
            return
        for c in ast.iter_child_nodes(node):
            if isinstance(c, (ast.expr_context, ast.operator, ast.cmpop, ast.unaryop, ast.boolop)):
                continue
            if isinstance(c, ast.keyword):
                self.eval_order(c.value, out)
            else:
                self.eval_order(c, out)
        out.append(("node", node))

    def hoist(self, expr, at):
        """-> (statements to run first, expression with the effect call replaced by a name)"""
        if expr is None:
            return [], expr
        effs = [n for n in ast.walk(expr) if self.effect_kind(n)]
        if not effs:
            return [], expr
        if len(effs) > 1:
            self.err("more than one call that changes its receiver in one statement", at)
        call = effs[0]
        order = []
        self.eval_order(expr, order)
        inside = set(id(n) for n in ast.walk(call))
        kind = self.effect_kind(call)
        recv = "self" if kind == "method" else (call.func.value.id if isinstance(call.func.value, ast.Name) else None)
        if recv is None:
            self.err("receiver of " + kind + "() must be a plain name", call)
        for tag, n in order:
            if tag == "cond":
                if any(id(x) == id(call) for x in ast.walk(n)):
                    self.err("call that changes its receiver inside a conditionally evaluated expression", call)
                self.err("conditionally evaluated expression next to a call that changes its receiver", at)
            if id(n) == id(call):
                break
            if id(n) in inside:
                continue
            if isinstance(n, ast.Constant) or (isinstance(n, ast.Name) and n.id != recv):
                continue
            if isinstance(n, ast.Attribute) and isinstance(n.value, ast.Name) and n.value.id == "os":
                continue
            self.err("something is evaluated before the call that changes its receiver: " + ast.unparse(n)[:50], n)
        t = self.tmp()
        pre = self.effect_stmt(call, kind, recv, t, at)
        new = Replace(call, load(t, at)).visit(expr)
        return pre, new

    def effect_stmt(self, call, kind, recv, out, at):
        """the statement(s) that perform the call and bind its result to `out`"""
        if call.keywords:
            self.err("keyword arguments in a call that changes its receiver", call)
        if kind == "method":
            m = call.func.attr
            if m not in self.methods:
                self.err(f"method {m} is not defined in {CLS} / {BASECLS}", call)
            params = [p.arg for p in self.methods[m].args.args[1:]]
            if len(call.args) != len(params):
                self.err(f"{m}: {len(params)} positional arguments expected", call)
            outs = ["self"]
            for p, a in zip(params, call.args):
                if p in self.mutated[m]:
                    if not isinstance(a, ast.Name):
                        self.err(f"{m} changes its parameter {p}: the argument must be a plain name", call)
                    outs.append(a.id)
            outs.append(out)
            return [assign(outs, prim("__method__", [const(m, at)] + list(call.args), at), at)]
        if kind == "readline":
            if call.args:
                self.err("readline() takes no argument here", call)
            return [assign([recv, out], prim("__readline__", [load(recv, at)], at), at)]
        if kind == "read":
            if len(call.args) != 1:
                self.err("read(n)", call)
            return [assign([recv, out], prim("__read__", [load(recv, at), call.args[0]], at), at)]
        if kind == "seek":
            if len(call.args) != 2:
                self.err("seek(offset, whence)", call)
            return [assign(recv, prim("__seek__", [load(recv, at)] + list(call.args), at), at),
                    assign(out, const(None, at), at)]
        self.err("internal: effect kind", call)

    # ---- stores
    def as_load(self, t):
        t2 = ast.parse(ast.unparse(t), mode="eval").body
        for n in ast.walk(t2):
            ast.copy_location(n, t)
        return t2

    def attr_const(self, t):
        if t.attr not in ATTR:
            self.err(f"attribute {t.attr} is not part of the loader state of the model", t)
        return const(t.attr, t)

    def store(self, target, value, st):
        """target = value as assignments to plain names"""
        if isinstance(target, ast.Name):
            if target.id == "self":
                self.err("assignment to self", st)
            return [assign(target.id, value, st)]
        if is_self_attr(target):
            return [assign("self", prim("__setattr__", [load("self", st), self.attr_const(target), value], st), st)]
        if isinstance(target, ast.Tuple) and len(target.elts) == 2 and all(isinstance(e, ast.Name) for e in target.elts):
            return [assign([e.id for e in target.elts], prim("__unpack2__", [value], st), st)]
        if isinstance(target, ast.Subscript):
            base, idx = target.value, target.slice
            if not (isinstance(base, ast.Name) or is_self_attr(base)):
                self.err("item assignment on this target not accepted", st)
            if isinstance(idx, (ast.Slice, ast.Tuple)):
                self.err("index form not accepted in an assignment target", st)
            return self.store(base, prim("__setitem__", [self.as_load(base), idx, value], st), st)
        self.err("assignment target not accepted: " + ast.unparse(target)[:60], st)

    # ---- statements
    def block(self, stmts):
        out = []
        for st in stmts:
            out += self.stmt(st)
        return out

    def nonempty(self, stmts, at):
        return stmts or [ast.copy_location(ast.Pass(), at)]

    def stmt(self, st):
        if isinstance(st, (ast.Pass, ast.Break, ast.Continue)):
            return [st]
        if isinstance(st, ast.Expr) and isinstance(st.value, ast.Constant) and isinstance(st.value.value, str):
            return []
        if isinstance(st, ast.Raise):
            if not (isinstance(st.exc, ast.Call) and isinstance(st.exc.func, ast.Name) and st.exc.func.id in ERR
                    and not st.exc.keywords and st.cause is None and all(self.is_msg(a) for a in st.exc.args)):
                self.err("raise of this form not accepted", st)
            return [st]
        if isinstance(st, ast.Return):
            pre, v = self.hoist(st.value, st)
            return pre + [ast.copy_location(ast.Return(value=v), st)]
        if isinstance(st, ast.AnnAssign):
            if not isinstance(st.target, ast.Name) and st.value is None:
                self.err("annotation without a value on this target", st)
            if st.value is None:
                return []                      # a bare annotation binds nothing
            pre, v = self.hoist(st.value, st)
            return pre + self.store(st.target, v, st)
        if isinstance(st, ast.Assign):
            pre, v = self.hoist(st.value, st)
            if len(st.targets) == 1:
                return pre + self.store(st.targets[0], v, st)
            t = self.tmp()
            out = pre + [assign(t, v, st)]
            for tg in st.targets:              # a = b = v: left to right
                out += self.store(tg, load(t, st), st)
            return out
        if isinstance(st, ast.AugAssign):
            op = st.op
            if not isinstance(op, (ast.Add, ast.Sub)):
                self.err("augmented assignment other than += / -= not accepted", st)
            if any(self.effect_kind(n) for n in ast.walk(st.value)):
                self.err("call that changes its receiver in an augmented assignment", st)
            t = st.target
            if isinstance(t, ast.Name) or is_self_attr(t):
                v = ast.copy_location(ast.BinOp(left=self.as_load(t), op=op, right=st.value), st)
                return self.store(t, ast.fix_missing_locations(v), st)
            if (isinstance(t, ast.Subscript) and (isinstance(t.value, ast.Name) or is_self_attr(t.value))
                    and isinstance(t.slice, ast.Tuple) and len(t.slice.elts) == 2
                    and isinstance(t.slice.elts[0], ast.Slice) and t.slice.elts[0].lower is not None
                    and t.slice.elts[0].upper is None and t.slice.elts[0].step is None
                    and not isinstance(t.slice.elts[1], (ast.Slice, ast.Tuple)) and isinstance(op, ast.Sub)):
                v = prim("__isub_colslice__", [self.as_load(t.value), t.slice.elts[0].lower, t.slice.elts[1], st.value], st)
                return self.store(t.value, v, st)
            self.err("augmented assignment target not accepted: " + ast.unparse(t)[:60], st)
        if isinstance(st, ast.Expr) and isinstance(st.value, ast.Call):
            c = st.value
            f = c.func
            if isinstance(f, ast.Attribute) and f.attr == "append" and len(c.args) == 1 and not c.keywords \
                    and (isinstance(f.value, ast.Name) or is_self_attr(f.value)):
                if any(self.effect_kind(n) for n in ast.walk(c.args[0])):
                    self.err("call that changes its receiver inside append(...)", st)
                return self.store(f.value, prim("__append__", [self.as_load(f.value), c.args[0]], st), st)
            if self.effect_kind(c):
                pre, _ = self.hoist(c, st)
                return pre
            self.err("expression statement not accepted: " + ast.unparse(st)[:70], st)
        if isinstance(st, ast.If):
            pre, test = self.hoist(st.test, st)
            n = ast.If(test=test, body=self.nonempty(self.block(st.body), st), orelse=self.block(st.orelse))
            return pre + [ast.copy_location(n, st)]
        if isinstance(st, ast.For):
            if st.orelse:
                self.err("for-else not accepted", st)
            if any(self.effect_kind(n) for n in ast.walk(st.iter)):
                self.err("call that changes its receiver in the iterable of a for loop", st)
            if not isinstance(st.target, ast.Name):
                self.err("loop target must be a plain name", st)
            n = ast.For(target=st.target, iter=st.iter, body=self.nonempty(self.block(st.body), st), orelse=[],
                        type_comment=None)
            return [ast.copy_location(n, st)]
        if isinstance(st, ast.While):
            if st.orelse:
                self.err("while-else not accepted", st)
            body = self.block(st.body)
            if not (isinstance(st.test, ast.Constant) and st.test.value is True):
                # while c: B   ==   while True: if c: B else: break     (c evaluated at the start of every pass)
                pre, test = self.hoist(st.test, st)
                brk = ast.copy_location(ast.Break(), st)
                body = pre + [ast.copy_location(ast.If(test=test, body=self.nonempty(body, st), orelse=[brk]), st)]
            n = ast.While(test=const(True, st), body=self.nonempty(body, st), orelse=[])
            return [ast.copy_location(n, st)]
        if isinstance(st, ast.With):
            if len(st.items) != 1 or st.items[0].optional_vars is None or not isinstance(st.items[0].optional_vars, ast.Name):
                self.err("with: exactly one `open(...) as <name>`", st)
            ce = st.items[0].context_expr
            ok = (isinstance(ce, ast.Call) and isinstance(ce.func, ast.Name) and ce.func.id == "open" and not ce.keywords
                  and len(ce.args) == 2 and ast.unparse(ce.args[0]) == "self.PATH_OSCAR_"
                  and isinstance(ce.args[1], ast.Constant) and ce.args[1].value in ("r", "rb"))
            if not ok:
                self.err('with: expected open(self.PATH_OSCAR_, "r" | "rb")', st)
            name = st.items[0].optional_vars.id
            return [assign(name, prim("__open__", [const(ce.args[1].value, st)], st), st)] + self.block(st.body)
        self.err("statement not accepted: " + type(st).__name__, st)

    def is_msg(self, node):
        """the text of an exception: string constants, names, concatenations of these (not evaluated)"""
        if isinstance(node, ast.Constant) and isinstance(node.value, str):
            return True
        if isinstance(node, ast.Name):
            return True
        if isinstance(node, ast.BinOp) and isinstance(node.op, ast.Add):
            return self.is_msg(node.left) and self.is_msg(node.right)
        return False


class Replace(ast.NodeTransformer):
    def __init__(self, old, new):
        self.old, self.new = old, new

    def visit(self, node):
        if node is self.old:
            return self.new
        return super().visit(node)


# ------------------------------------------------------------------------------------------------ analyses
def comp_loads(n, out):
    local = set()
    inner = set()
    for i, g in enumerate(n.generators):
        it = loads(g.iter)
        if i == 0:
            out |= it
        else:
            inner |= it
        for t in ast.walk(g.target):
            if isinstance(t, ast.Name):
                local.add(t.id)
        for c in g.ifs:
            inner |= loads(c)
    inner |= loads(n.elt)
    out |= inner - local


def loads(nodes):
    """names read in the statements / expressions"""
    out = set()

    def walk(n):
        if isinstance(n, (ast.ListComp, ast.GeneratorExp)):
            comp_loads(n, out)
            return
        if isinstance(n, ast.Name) and isinstance(n.ctx, ast.Load) and n.id not in PRIMS:
            out.add(n.id)
        if isinstance(n, ast.Raise):
            return                            # exception texts are not evaluated
        for c in ast.iter_child_nodes(n):
            walk(c)
    for node in (nodes if isinstance(nodes, list) else [nodes]):
        if node is not None:
            walk(node)
    return out


def first_seen(stmts):
    """name -> position of its first occurrence in the statements, in evaluation order (value before target);
    the loop-carried and joined names are listed in this order, so that renaming a local changes nothing"""
    seen = {}

    def walk(n):
        if isinstance(n, ast.Name):
            if n.id not in PRIMS:
                seen.setdefault(n.id, len(seen))
            return
        if isinstance(n, ast.Assign):
            walk(n.value)
            for t in n.targets:
                walk(t)
            return
        for c in ast.iter_child_nodes(n):
            walk(c)
    for st in stmts:
        walk(st)
    return seen


def in_order(names, stmts):
    seen = first_seen(stmts)
    return sorted(names, key=lambda x: (seen.get(x, len(seen)), x))


def targets_of(st):
    t = st.targets[0]
    if isinstance(t, ast.Name):
        return {t.id}
    return {e.id for e in t.elts}


def assigned(stmts):
    out = set()
    for st in stmts:
        if isinstance(st, ast.Assign):
            out |= targets_of(st)
        elif isinstance(st, ast.If):
            out |= assigned(st.body) | assigned(st.orelse)
        elif isinstance(st, ast.For):
            out |= {st.target.id} | assigned(st.body)
        elif isinstance(st, ast.While):
            out |= assigned(st.body)
    return out


def terminates(stmts):
    if not stmts:
        return False
    last = stmts[-1]
    if isinstance(last, (ast.Return, ast.Raise, ast.Break, ast.Continue)):
        return True
    if isinstance(last, ast.If):
        return terminates(last.body) and terminates(last.orelse)
    return False


def ube(stmts, defined):
    """(names possibly read before being definitely assigned in this block, names definitely assigned at its end)"""
    used = set()
    defined = set(defined)
    for st in stmts:
        if isinstance(st, ast.Assign):
            used |= loads(st.value) - defined
            defined |= targets_of(st)
        elif isinstance(st, ast.If):
            used |= loads(st.test) - defined
            u1, d1 = ube(st.body, defined)
            u2, d2 = ube(st.orelse, defined)
            used |= u1 | u2
            if terminates(st.body) and terminates(st.orelse):
                return used, defined | d1 | d2
            if terminates(st.body):
                defined = d2
            elif terminates(st.orelse):
                defined = d1
            else:
                defined = d1 & d2
        elif isinstance(st, ast.For):
            used |= loads(st.iter) - defined
            u1, _ = ube(st.body, defined | {st.target.id})
            used |= u1
        elif isinstance(st, ast.While):
            u1, _ = ube(st.body, defined)
            used |= u1
        else:
            used |= loads(st) - defined
    return used, defined


# ------------------------------------------------------------------------------------------------ translation
class Var:
    def __init__(self, name, opt=False):
        self.name, self.opt = name, opt


class Tr:
    CMP = {ast.LtE: "py_le", ast.Lt: "py_lt", ast.GtE: "py_ge", ast.Gt: "py_gt", ast.Eq: "py_eq", ast.NotEq: "py_ne",
           ast.In: "py_in", ast.NotIn: "py_not_in"}
    BIN = {ast.Add: "py_add", ast.Sub: "py_sub", ast.Mult: "py_mul"}

    def __init__(self, path, methods, mutated):
        self.path, self.methods, self.mutated = path, methods, mutated
        self.n = 0

    def err(self, msg, node):
        raise TranslateError(msg, node, self.path)

    def fresh(self, base="v"):
        self.n += 1
        return f"{base}{self.n}_"

    # ---- monadic plumbing: (term, mon); mon => term : result T
    def lift(self, parts, f):
        names, binds = [], []
        for term, mon in parts:
            if mon:
                v = self.fresh()
                binds.append((v, term))
                names.append(v)
            else:
                names.append(term)
        inner, imon = f(names)
        if not binds:
            return inner, imon
        if not imon:
            inner = f"Ok {inner}"
        for v, term in reversed(binds):
            inner = f"({v} <- {term} ;; {inner})"
        return inner, True

    @staticmethod
    def m(t):
        term, mon = t
        return term if mon else f"(Ok {term})"

    def app(self, f, nodes, env, mon=True, order=None):
        """f applied to the values of the nodes, evaluated left to right (or in `order`)"""
        seq = order or list(range(len(nodes)))
        ev = [(i,) + self.E(nodes[i], env) for i in seq]
        names = {}

        def k(a):
            for (i, _, _), x in zip(ev, a):
                names[i] = x
            return f"({f} {' '.join(names[i] for i in range(len(nodes)))})" if nodes else f"({f})", mon
        return self.lift([(t, mo) for _, t, mo in ev], k)

    def seq_lit(self, ctor, elts, env):
        parts = [self.E(e, env) for e in elts]
        return self.lift(parts, lambda a: (f"({ctor} [{'; '.join(a)}])", False))

    # ---- expressions
    def E(self, node, env):
        if isinstance(node, ast.Constant):
            v = node.value
            if v is None:
                return "ONone", False
            if isinstance(v, bool):
                return f"(OBool {'true' if v else 'false'})", False
            if isinstance(v, int):
                return f"(OInt {zlit(v)})", False
            if isinstance(v, str):
                return f"(OStr {self.strlit(v, node)})", False
            if isinstance(v, bytes):
                return f"(OBytes {self.strlit(v.decode('ascii'), node)})", False
            self.err("constant not accepted: " + repr(v), node)
        if isinstance(node, ast.Name):
            if node.id == "self":
                self.err("self used as a value", node)
            if node.id not in env:
                self.err(f"name {node.id} is not bound here", node)
            v = env[node.id]
            return (f"(py_bound {v.name})", True) if v.opt else (v.name, False)
        if isinstance(node, ast.UnaryOp) and isinstance(node.op, ast.USub) and isinstance(node.operand, ast.Constant) \
                and isinstance(node.operand.value, int) and not isinstance(node.operand.value, bool):
            return f"(OInt {zlit(-node.operand.value)})", False
        if isinstance(node, ast.Tuple):
            return self.seq_lit("OTuple", node.elts, env)
        if isinstance(node, ast.List):
            return self.seq_lit("OList", node.elts, env)
        if isinstance(node, ast.Dict):
            if not all(isinstance(k, ast.Constant) and isinstance(k.value, str) for k in node.keys):
                self.err("dict literal with keys other than string constants", node)
            keys = [k.value for k in node.keys]
            if len(set(keys)) != len(keys):
                self.err("dict literal with a repeated key", node)
            parts = [self.E(v, env) for v in node.values]
            return self.lift(parts, lambda a: ("(ODict [" + "; ".join(
                f"({self.strlit(k, node)}, {x})" for k, x in zip(keys, a)) + "])", False))
        if isinstance(node, ast.Attribute):
            if is_self_attr(node):
                if node.attr not in ATTR:
                    self.err(f"attribute {node.attr} is not part of the loader state of the model", node)
                return f"(py_getattr {env['self'].name} {ATTR[node.attr]})", True
            if isinstance(node.value, ast.Name) and node.value.id == "os" and node.attr in ("SEEK_END", "SEEK_CUR"):
                return ("(OInt 2)" if node.attr == "SEEK_END" else "(OInt 1)"), False
            if node.attr == "shape":
                return self.app("py_shape", [node.value], env)
            self.err("attribute not accepted: " + ast.unparse(node)[:60], node)
        if isinstance(node, ast.Subscript):
            s = node.slice
            plain = lambda x: not isinstance(x, (ast.Slice, ast.Tuple))
            if isinstance(s, ast.Slice):
                if s.step is not None or s.lower is None:
                    self.err("slice form not accepted: " + ast.unparse(node)[:60], node)
                if s.upper is None:
                    return self.app("py_slice_from", [node.value, s.lower], env)
                return self.app("py_slice", [node.value, s.lower, s.upper], env)
            if isinstance(s, ast.Tuple):
                if len(s.elts) == 2 and isinstance(s.elts[0], ast.Slice) and s.elts[0].lower is None \
                        and s.elts[0].upper is None and s.elts[0].step is None and plain(s.elts[1]):
                    return self.app("py_getcol", [node.value, s.elts[1]], env)
                if len(s.elts) == 2 and all(plain(e) for e in s.elts):
                    return self.app("py_getitem", [node.value, s], env)
                self.err("index form not accepted: " + ast.unparse(node)[:60], node)
            return self.app("py_getitem", [node.value, s], env)
        if isinstance(node, ast.BinOp):
            if type(node.op) not in self.BIN:
                self.err("arithmetic operator not accepted: " + ast.unparse(node)[:60], node)
            return self.app(self.BIN[type(node.op)], [node.left, node.right], env)
        if isinstance(node, ast.ListComp):
            if len(node.generators) != 1 or node.generators[0].ifs or node.generators[0].is_async \
                    or not isinstance(node.generators[0].target, ast.Name):
                self.err("list comprehension shape not accepted", node)
            g = node.generators[0]
            items = self.iter_of(g.iter, env)
            x = cname(g.target.id)
            env2 = dict(env)
            env2[g.target.id] = Var(x)
            elt = self.E(node.elt, env2)
            l = self.fresh("l")
            return self.lift([items], lambda a: (f"({l} <- mapM (fun {x} : ov => {self.m(elt)}) {a[0]} ;; Ok (OList {l}))", True))
        if isinstance(node, (ast.Compare, ast.BoolOp)) or (isinstance(node, ast.UnaryOp) and isinstance(node.op, ast.Not)):
            c = self.C(node, env)
            return self.lift([c], lambda a: (f"(OBool {a[0]})", False))
        if isinstance(node, ast.Call):
            return self.call(node, env)
        self.err("expression not accepted: " + type(node).__name__ + " " + ast.unparse(node)[:60], node)

    def strlit(self, s, node):
        if "\n" in s:
            parts = s.split("\n")
            if any(ord(c) > 126 or ord(c) < 32 for p in parts for c in p):
                self.err("string constant with a character outside printable ASCII / newline", node)
            term = slit(parts[-1])
            for p in reversed(parts[:-1]):
                term = f"(String nlc {term})" if p == "" else f"({slit(p)} ++ String nlc {term})%string"
            return term
        try:
            return slit(s)
        except TranslateError:
            self.err("string constant with a character outside printable ASCII / newline", node)

    def kw(self, node):
        return {k.arg: ast.unparse(k.value) for k in node.keywords}

    def call(self, node, env):
        f = node.func
        fn = ast.unparse(f)
        a = node.args
        if is_prim(node):
            p = f.id
            if p == "__setattr__":
                return self.lift([self.E(a[2], env)],
                                 lambda x: (f"(py_setattr {env['self'].name} {ATTR[a[1].value]} {x[0]})", False))
            if p == "__setitem__":           # value first, then the object and the index
                return self.app("py_setitem", a, env, order=[2, 0, 1])
            if p == "__isub_colslice__":     # object, indices, then the right-hand side
                return self.app("py_isub_colslice", a, env)
            if p == "__append__":
                return self.app("py_append", a, env)
            if p == "__readline__":
                return self.app("py_readline", a, env)
            if p == "__read__":
                return self.app("py_read", a, env)
            if p == "__seek__":
                return self.app("py_seek", a, env)
            if p == "__unpack2__":
                return self.app("py_unpack2", a, env)
            if p == "__open__":
                return f"(py_open {env['self'].name} {'true' if a[0].value == 'rb' else 'false'})", False
            if p == "__method__":
                m = a[0].value
                return self.app(f"gen_{cname(m)} {env['self'].name}", a[1:], env)
        if node.keywords and fn not in ("np.sum", "np.delete", "np.array"):
            self.err("keyword arguments not accepted in " + fn, node)
        if method_call(node) == ABSTRACT:
            if len(a) != 2:
                self.err(ABSTRACT + "(event list, filters)", node)
            return self.app("apply_kwargs_filters_", a, env)
        if fn == "Particle":
            if not a:
                self.err("Particle() without arguments", node)
            parts = [self.E(x, env) for x in a]
            return self.lift(parts, lambda x: (f"(Particle_ [{'; '.join(x)}])", True))
        one = {"len": "py_len", "list": "py_list", "np.atleast_2d": "py_np_atleast_2d", "np.asarray": "py_np_asarray"}
        if fn in one:
            if len(a) != 1:
                self.err(fn + " takes one argument here", node)
            return self.app(one[fn], a, env)
        if fn == "int" and len(a) == 1:
            return self.app("py_int tok_int", a, env)
        if fn == "float" and len(a) == 1:
            return self.app("py_float tok_float", a, env)
        if fn == "filter" and len(a) == 2 and isinstance(a[0], ast.Constant) and a[0].value is None:
            return self.app("py_filter_none", a[1:], env)
        if fn == "np.sum" and len(a) == 1 and self.kw(node) == {"axis": "0"}:
            return self.app("py_np_sum_axis0", a, env)
        if fn == "np.delete" and len(a) == 2 and self.kw(node) == {"axis": "0"}:
            return self.app("py_np_delete_axis0", a, env)
        if fn == "np.array" and len(a) == 1:
            if not node.keywords and isinstance(a[0], ast.List) and not a[0].elts:
                return "py_np_array_empty", False
            if self.kw(node) == {"dtype": "np.int32", "ndmin": "2"}:
                return self.app("py_np_array_int32_2d tok_int", a, env)
        if isinstance(f, ast.Attribute) and not is_self_attr(f):
            if f.attr == "replace" and len(a) == 2:
                return self.app("py_str_replace", [f.value] + a, env)
            if f.attr == "split" and len(a) == 1:
                return self.app("py_str_split", [f.value] + a, env)
            if f.attr == "decode" and not a:
                return self.app("py_decode", [f.value], env)
            if f.attr == "keys" and not a:
                return self.app("py_keys", [f.value], env)
            if f.attr == "get" and len(a) == 1:
                return self.app("py_dict_get", [f.value] + a, env)
        self.err("call not accepted: " + ast.unparse(node)[:70], node)

    def iter_of(self, node, env):
        if isinstance(node, ast.Call) and isinstance(node.func, ast.Name) and node.func.id == "range":
            if node.keywords or len(node.args) not in (1, 2):
                self.err("range with step/keywords not accepted", node)
            args = [const(0, node)] + node.args if len(node.args) == 1 else node.args
            return self.app("py_range", args, env)
        return self.app("py_iter", [node], env)

    # ---- conditions
    def C(self, node, env):
        if isinstance(node, ast.BoolOp):
            parts = [self.C(v, env) for v in node.values]
            pure = all(not mon for _, mon in parts)
            if pure:
                return "(" + (" && " if isinstance(node.op, ast.And) else " || ").join(t for t, _ in parts) + ")", False
            term = self.m(parts[-1])
            for p in reversed(parts[:-1]):
                term = f"({'andM' if isinstance(node.op, ast.And) else 'orM'} {self.m(p)} {term})"
            return term, True
        if isinstance(node, ast.UnaryOp) and isinstance(node.op, ast.Not):
            t, mon = self.C(node.operand, env)
            return (f"(notM {t})", True) if mon else (f"(negb {t})", False)
        if isinstance(node, ast.Compare):
            if len(node.ops) != 1:
                self.err("chained comparison not accepted", node)
            op, right = node.ops[0], node.comparators[0]
            if isinstance(op, (ast.Is, ast.IsNot)):
                if not (isinstance(right, ast.Constant) and right.value is None):
                    self.err("`is` accepted only against None", node)
                t = self.E(node.left, env)
                neg = isinstance(op, ast.IsNot)
                return self.lift([t], lambda a: ((f"(negb (py_is_none {a[0]}))" if neg else f"(py_is_none {a[0]})"), False))
            if type(op) not in self.CMP:
                self.err("comparison operator not accepted", node)
            return self.app(self.CMP[type(op)], [node.left, right], env)
        if isinstance(node, ast.Call):
            fn = ast.unparse(node.func)
            if fn == "isinstance":
                if len(node.args) != 2 or node.keywords or ast.unparse(node.args[1]) not in ("int", "tuple"):
                    self.err("isinstance(x, int | tuple)", node)
                t = self.E(node.args[0], env)
                ty = "T_" + ast.unparse(node.args[1])
                return self.lift([t], lambda a: (f"(py_isinstance {a[0]} {ty})", False))
            if fn == "all":
                if len(node.args) != 1 or node.keywords or not isinstance(node.args[0], ast.GeneratorExp):
                    self.err("all accepted only over a generator expression", node)
                ge = node.args[0]
                if len(ge.generators) != 1 or ge.generators[0].ifs or ge.generators[0].is_async \
                        or not isinstance(ge.generators[0].target, ast.Name):
                    self.err("generator expression shape not accepted", node)
                g = ge.generators[0]
                items = self.iter_of(g.iter, env)
                x = cname(g.target.id)
                env2 = dict(env)
                env2[g.target.id] = Var(x)
                cond = self.C(ge.elt, env2)
                return self.lift([items], lambda a: (f"(forallM (fun {x} : ov => {self.m(cond)}) {a[0]})", True))
        t = self.E(node, env)
        return self.lift([t], lambda a: (f"(py_truthy {a[0]})", True))

    # ---- statements
    def ty(self, name):
        return "oself" if name == "self" else "ov"

    def tuple_of(self, names):
        if not names:
            return "tt"
        return names[0] if len(names) == 1 else "(" + ", ".join(names) + ")"

    def fun_of(self, pynames, body):
        """fun over the tuple of the (Coq names of the) python names"""
        names = [cname(n) for n in pynames]
        if not names:
            return f"(fun _ : unit => {body})"
        if len(names) == 1:
            return f"(fun {names[0]} : {self.ty(pynames[0])} => {body})"
        ty = " * ".join(self.ty(n) for n in pynames)
        return f"(fun st_ : {ty} => let '({', '.join(names)}) := st_ in {body})"

    def comp(self, env, s):
        """the value of python name s in env as a component of a state tuple (OUnbound when it has no value)"""
        if s not in env:
            if s == "self":
                self.err("internal: self unbound", None)
            return "OUnbound"
        return env[s].name

    def rebind(self, env, names, opt):
        env2 = dict(env)
        for s in names:
            env2[s] = Var(cname(s), opt.get(s, False))
        return env2

    def S(self, stmts, env, k, ctx):
        """ctx: dict(live=names read after this block, cont=, brk= continuations inside a loop or None, ret=)"""
        if not stmts:
            return k(env)
        st, rest = stmts[0], stmts[1:]
        live_after = loads(rest) | ctx["live"]

        def cont(env2):
            return self.S(rest, env2, k, ctx)
        if isinstance(st, ast.Pass):
            return cont(env)
        if isinstance(st, (ast.Raise, ast.Return, ast.Break, ast.Continue)) and rest:
            self.err("statements after " + type(st).__name__.lower(), rest[0])
        if isinstance(st, ast.Raise):
            return f"Err {ERR[st.exc.func.id]}"
        if isinstance(st, ast.Return):
            if ctx["ret"] is None:
                self.err("return inside a loop not accepted", st)
            v = self.E(st.value, env) if st.value is not None else ("ONone", False)
            return ctx["ret"](env, v)
        if isinstance(st, ast.Break):
            if ctx["brk"] is None:
                self.err("break outside a while loop (or inside a for loop) not accepted", st)
            return ctx["brk"](env)
        if isinstance(st, ast.Continue):
            if ctx["cont"] is None:
                self.err("continue outside a loop", st)
            return ctx["cont"](env)
        if isinstance(st, ast.Assign):
            tg = st.targets[0]
            v = st.value
            names = [tg.id] if isinstance(tg, ast.Name) else [e.id for e in tg.elts]
            term, mon = self.E(v, env) if not (is_prim(v) and v.func.id == "__setattr__") else self.call(v, env)
            env2 = self.rebind(env, names, {})
            cn = [cname(n) for n in names]
            if len(names) == 1:
                if mon:
                    return f"({cn[0]} <- {term} ;; {cont(env2)})"
                return f"(let {cn[0]} := {term} in {cont(env2)})"
            if not mon:
                self.err("internal: tuple target of a pure value", st)
            r = self.fresh("r")
            return f"({r} <- {term} ;; let '({', '.join(cn)}) := {r} in {cont(env2)})"
        if isinstance(st, ast.If):
            return self.tr_if(st, rest, env, k, ctx, live_after)
        if isinstance(st, ast.For):
            return self.tr_for(st, rest, env, k, ctx, live_after)
        if isinstance(st, ast.While):
            return self.tr_while(st, rest, env, k, ctx, live_after)
        self.err("statement not accepted: " + type(st).__name__, st)

    def ite(self, c, b, e):
        ct, cmon = c
        if cmon:
            v = self.fresh("c")
            return f"({v} <- {ct} ;; if {v} then {b} else {e})"
        return f"(if {ct} then {b} else {e})"

    def tr_if(self, st, rest, env, k, ctx, live_after):
        c = self.C(st.test, env)
        tb, te = terminates(st.body), terminates(st.orelse)
        inner = dict(ctx, live=live_after)

        def cont(env2):
            return self.S(rest, env2, k, ctx)
        if not rest:
            cont = k

        def dead(_):
            self.err("internal: continuation of a terminating branch", st)
        if tb and te:
            if rest:
                self.err("statements after an if whose branches all leave", rest[0])
            return self.ite(c, self.S(st.body, env, dead, inner), self.S(st.orelse, env, dead, inner))
        if tb:
            return self.ite(c, self.S(st.body, env, dead, inner), self.S(st.orelse, env, cont, inner))
        if te:
            return self.ite(c, self.S(st.body, env, cont, inner), self.S(st.orelse, env, dead, inner))
        if not rest and getattr(k, "leaf", False):
            # last statement of a block whose continuation only packs the state: no join needed
            return self.ite(c, self.S(st.body, env, k, inner), self.S(st.orelse, env, k, inner))
        for n in ast.walk(st):
            if isinstance(n, (ast.Break, ast.Continue)) and self.innermost_loop(st, n) is None:
                self.err("break/continue inside an if that is followed by further statements of the same pass", n)
        jvars = in_order(assigned([st]) & live_after, [st])
        # a joined name is possibly unbound afterwards when some path leaves it without a value
        ends = []
        self.S(st.body, env, lambda e: (ends.append(e), "Ok tt")[1], inner)
        self.S(st.orelse, env, lambda e: (ends.append(e), "Ok tt")[1], inner)
        opt = {j: any(j not in e or e[j].opt for e in ends) for j in jvars}

        def kend(e):
            return "Ok " + self.tuple_of([self.comp(e, j) for j in jvars])
        kend.leaf = True
        term = self.ite(c, self.S(st.body, env, kend, inner), self.S(st.orelse, env, kend, inner))
        env2 = self.rebind(env, jvars, opt)
        return f"(bind {term} {self.fun_of(jvars, cont(env2))})"

    def loop_state(self, body, head_loads, targets, env, live_after, st):
        used_first, _ = ube(body, targets)
        state = in_order((assigned(body) - targets) & (live_after | used_first | head_loads), body)
        # names assigned in the body that are not carried must not be read before their assignment in a pass
        for s in (assigned(body) - targets) - set(state):
            if s in used_first:
                self.err(f"internal: {s} read before assignment in the loop body", st)
        body_live = live_after | used_first | head_loads
        opt = {s: (s not in env or env[s].opt) for s in state}
        return state, body_live, opt

    def tr_for(self, st, rest, env, k, ctx, live_after):
        for n in ast.walk(st):
            if isinstance(n, ast.Break) and self.innermost_loop(st, n) is st:
                self.err("break in a for loop not accepted", n)
        items = self.iter_of(st.iter, env)
        tg = st.target.id
        if tg in live_after:
            self.err("loop variable is read after the loop", st)
        state, body_live, opt = self.loop_state(st.body, set(), {tg}, env, live_after, st)
        envb = self.rebind(env, state, opt)
        envb[tg] = Var(cname(tg))
        for s in assigned(st.body) - {tg} - set(state):
            envb.pop(s, None)

        def kend(e):
            return "Ok " + self.tuple_of([self.comp(e, s) for s in state])
        kend.leaf = True
        body = self.S(st.body, envb, kend, dict(live=body_live, cont=kend, brk=None, ret=None))
        init = self.tuple_of([self.comp(env, s) for s in state])
        env2 = self.rebind(env, state, opt)
        for s in assigned(st.body) | {tg}:
            if s not in state:
                env2.pop(s, None)
        f = self.fun_of(state, f"fun {cname(tg)} : ov => {body}")
        loop, _ = self.lift([items], lambda a: (f"(fold_leftM {f} {a[0]} {init})", True))
        return f"(bind {loop} {self.fun_of(state, self.S(rest, env2, k, ctx))})"

    def innermost_loop(self, root, target):
        """the innermost For/While under root that contains target"""
        best = None

        def walk(n, cur):
            nonlocal best
            if n is target:
                best = cur
            for c in ast.iter_child_nodes(n):
                walk(c, n if isinstance(n, (ast.For, ast.While)) else cur)
        walk(root, None)
        return best

    def tr_while(self, st, rest, env, k, ctx, live_after):
        state, body_live, opt = self.loop_state(st.body, set(), set(), env, live_after, st)
        envb = self.rebind(env, state, opt)
        for s in assigned(st.body) - set(state):
            envb.pop(s, None)

        def knext(e):
            return "Ok (LNext " + self.tuple_of([self.comp(e, s) for s in state]) + ")"

        def kbrk(e):
            return "Ok (LBreak " + self.tuple_of([self.comp(e, s) for s in state]) + ")"
        knext.leaf = True
        body = self.S(st.body, envb, knext, dict(live=body_live, cont=knext, brk=kbrk, ret=None))
        init = self.tuple_of([self.comp(env, s) for s in state])
        fuel = "(py_fuel [" + "; ".join(self.comp(env, s) for s in state if s != "self") + "])"
        env2 = self.rebind(env, state, opt)
        for s in assigned(st.body):
            if s not in state:
                env2.pop(s, None)
        return f"(bind (py_while {fuel} {self.fun_of(state, body)} {init}) {self.fun_of(state, self.S(rest, env2, k, ctx))})"

    # ---- methods
    def method(self, fdef, body):
        a = fdef.args
        if a.vararg or a.kwonlyargs or a.posonlyargs or a.defaults or fdef.decorator_list:
            self.err(f"{fdef.name}: signature not accepted", fdef)
        names = [p.arg for p in a.args]
        if not names or names[0] != "self":
            self.err(f"{fdef.name}: first parameter must be self", fdef)
        params = names[1:]
        if a.kwarg is not None:                # def load(self, **kwargs): the keyword arguments as one dict
            if params:
                self.err(f"{fdef.name}: ** together with positional parameters", fdef)
            params = [a.kwarg.arg]
        mut = [p for p in params if p in self.mutated[fdef.name]]
        env = {n: Var(cname(n)) for n in ["self"] + params}

        def ret(e, v):
            outs = [self.comp(e, "self")] + [self.comp(e, p) for p in mut]
            term, mon = self.lift([v], lambda x: ("(" + ", ".join(outs + [x[0]]) + ")", False))
            return term if mon else "Ok " + term
        def kfall(e):
            return ret(e, ("ONone", False))
        kfall.leaf = True
        term = self.S(body, env, kfall, dict(live={"self"} | set(mut), cont=None, brk=None, ret=ret))
        ps = " ".join(f"({cname(n)} : ov)" for n in params)
        rty = " * ".join(["oself"] + ["ov"] * (len(mut) + 1))
        return f"Definition gen_{cname(fdef.name)} (self : oself) {ps} : result ({rty}) :=\n  {term}.\n"


# ------------------------------------------------------------------------------------------------ the class
def class_methods(cls, path):
    out = {}
    for n in cls.body:
        if isinstance(n, ast.FunctionDef):
            if n.name in out:
                raise TranslateError(f"{cls.name}.{n.name} is defined twice", n, path)
            out[n.name] = n
        elif isinstance(n, ast.AnnAssign) and n.value is None:
            continue                          # attribute annotations
        elif isinstance(n, ast.Expr) and isinstance(n.value, ast.Constant) and isinstance(n.value.value, str):
            continue
        else:
            raise TranslateError(f"{cls.name}: class body statement not accepted: {type(n).__name__}", n, path)
    return out


def generate():
    tree, path = parse(SRC)
    btree, bpath = parse(BASE)
    cls, bcls = find_class(tree, CLS), find_class(btree, BASECLS)
    if [ast.unparse(b) for b in cls.bases] != [BASECLS] or cls.keywords or cls.decorator_list:
        raise TranslateError(f"{CLS} is not a plain subclass of {BASECLS} only", cls, path)
    own, inherited = class_methods(cls, path), class_methods(bcls, bpath)
    methods, where = {}, {}
    for n, f in inherited.items():
        if n.startswith("__") and not n.endswith("__"):
            continue                          # name-mangled: not visible from OscarLoader
        methods[n], where[n] = f, bpath
    for n, f in own.items():
        methods[n], where[n] = f, path
    # which methods are needed: everything OscarLoader defines, and what these call
    need = [n for n in own if n not in SKIP and n != "__init__"]
    seen = set(need)
    calls = {}
    i = 0
    while i < len(need):
        n = need[i]
        i += 1
        cs = []
        for x in ast.walk(methods[n]):
            m = method_call(x)
            if m is not None and m not in SKIP:
                if m not in methods:
                    raise TranslateError(f"{n} calls self.{m}, which is not defined in {CLS} / {BASECLS}", x, where[n])
                cs.append(m)
                if m not in seen:
                    seen.add(m)
                    need.append(m)
        calls[n] = cs
    if ABSTRACT not in own:
        raise TranslateError(f"{CLS}.{ABSTRACT} not found", cls, path)
    # callee before caller
    order, state = [], {}

    def visit(n):
        if state.get(n) == 2:
            return
        if state.get(n) == 1:
            raise TranslateError(f"recursion through {n}", methods[n], where[n])
        state[n] = 1
        for m in calls[n]:
            visit(m)
        state[n] = 2
        order.append(n)
    for n in need:
        visit(n)
    # desugar in call order (a caller needs to know which parameters its callee changes)
    mutated, bodies = {}, {}
    for n in order:
        f = methods[n]
        d = Desugar(where[n], methods, mutated)
        body = d.block(strip_doc(f.body))
        params = [p.arg for p in f.args.args[1:]] + ([f.args.kwarg.arg] if f.args.kwarg else [])
        mut, reb = set(), set()
        for x in ast.walk(ast.Module(body=body, type_ignores=[])):
            if isinstance(x, ast.Assign):
                v = x.value
                for t in targets_of(x):
                    if t in params:
                        if is_prim(v) and v.func.id in MUTATORS and isinstance(v.args[0], ast.Name) and v.args[0].id == t:
                            mut.add(t)
                        elif is_prim(v, "__method__") and t != "self" and any(isinstance(q, ast.Name) and q.id == t for q in v.args[1:]):
                            mut.add(t)
                        else:
                            reb.add(t)
            elif isinstance(x, ast.For) and x.target.id in params:
                reb.add(x.target.id)
        if mut & reb:
            raise TranslateError(f"{n}: parameter {sorted(mut & reb)} is both changed and rebound", f, where[n])
        mutated[n], bodies[n] = mut, body
    out = [HEADER, "From Coq Require Import List ZArith Bool QArith String.\n"
           "From SX Require Import Lib.Strs Model.Oscar Model.OscarLoaderRt.\nImport ListNotations.\n"
           "Local Open Scope Z_scope.\n\nSection Gen.\n"
           "  Variable tok_float tok_int : string -> option Q.\n"
           "  Variable Particle_ : list ov -> result ov.\n"
           "  Variable apply_kwargs_filters_ : ov -> ov -> result ov.\n\n"]
    for n in order:
        tr = Tr(where[n], methods, mutated)
        out.append(f"(* {CLS if where[n] == path else BASECLS}.{n} *)\n" + tr.method(methods[n], bodies[n]) + "\n")
    # __init__: the state a new loader starts from
    out.append(init_method(own, path, methods, mutated))
    out.append("End Gen.\n")
    return "".join(out)


def init_method(own, path, methods, mutated):
    if "__init__" not in own:
        raise TranslateError(f"{CLS}.__init__ not found", None, path)
    f = own["__init__"]
    d = Desugar(path, methods, mutated)
    body = d.block(strip_doc(f.body))
    mutated["__init__"] = set()
    tr = Tr(path, methods, mutated)
    return f"(* {CLS}.__init__ *)\n" + tr.method(f, body) + "\n"


def main(outdir):
    return write_if_changed(outdir + "/GenOscarLoader.v", generate())
